// NOTE (kept for reference, not framework code): API probe for the planned
// extractor, run against alg/sha256.c:hwaccel_init and http/http.c:addbody.
// Learnings to carry into tools/cfgx:
//  * ParenExpr is NOT a CFG element even with setAllAlwaysAdd(): when mapping
//    a statement's children to element ids, look through ParenExpr (and any
//    other wrapper absent from the element map) until an element is found.
//  * VarDecl::evaluateValue() yields nothing for `static const uint32_t T[64]
//    = {...}` in C; walk the InitListExpr and EvaluateAsInt each element.
//  * Lexer::getImmediateMacroName() on getBeginLoc() gives the innermost
//    macro; walking getImmediateExpansionRange() gives the enclosing ones
//    (warn0 inside CPUSUPPORT_VALIDATE).
//  * Record layouts must be emitted for records defined in headers too
//    (filter by use, not by main file).
//  * do { } while (0) yields successors marked unreachable; noreturn calls
//    are visible via CFGBlock::hasNoReturnElement().
// Build: clang++ $(llvm-config-14 --cxxflags) -fno-rtti probe_cfg_api.cc -o x \
//   /usr/lib/llvm-14/lib/libclang-cpp.so.14 /usr/lib/llvm-14/lib/libLLVM-14.so
// Throw-away API probe for the planned extractor (not framework code).
#include "clang/AST/ASTConsumer.h"
#include "clang/AST/RecursiveASTVisitor.h"
#include "clang/AST/RecordLayout.h"
#include "clang/Analysis/CFG.h"
#include "clang/Frontend/CompilerInstance.h"
#include "clang/Frontend/FrontendAction.h"
#include "clang/Lex/Lexer.h"
#include "clang/Tooling/Tooling.h"
#include "clang/Tooling/CommonOptionsParser.h"
#include "llvm/Support/CommandLine.h"
#include <map>
using namespace clang;
static std::string want;
struct V : RecursiveASTVisitor<V> {
  ASTContext &C; explicit V(ASTContext &c) : C(c) {}
  bool VisitRecordDecl(RecordDecl *R) {
    if (!R->isCompleteDefinition() || !R->getIdentifier()) return true;
    auto &SM = C.getSourceManager();
    if (!SM.isInMainFile(SM.getExpansionLoc(R->getLocation()))) return true;
    const ASTRecordLayout &L = C.getASTRecordLayout(R);
    llvm::outs() << "RECORD " << R->getName() << " size=" << L.getSize().getQuantity();
    unsigned i = 0; for (auto *F : R->fields()) { llvm::outs() << " " << F->getName() << "@" << L.getFieldOffset(i++) / 8 << ":" << C.getTypeSizeInChars(F->getType()).getQuantity(); }
    llvm::outs() << "\n"; return true;
  }
  bool VisitVarDecl(VarDecl *D) {
    auto &SM = C.getSourceManager();
    if (!D->hasGlobalStorage() || !D->hasInit() || !SM.isInMainFile(SM.getExpansionLoc(D->getLocation()))) return true;
    const APValue *V = D->evaluateValue();
    llvm::outs() << "GLOBAL " << D->getName() << " type=" << D->getType().getAsString();
    if (V && V->isArray()) { llvm::outs() << " array n=" << V->getArraySize() << " init=" << V->getArrayInitializedElts(); if (V->getArrayInitializedElts() && V->getArrayInitializedElt(0).isInt()) { llvm::outs() << " first=" << V->getArrayInitializedElt(0).getInt() << " last=" << V->getArrayInitializedElt(V->getArrayInitializedElts()-1).getInt(); } }
    else if (V && V->isInt()) llvm::outs() << " int=" << V->getInt();
    else if (auto *SL = dyn_cast<StringLiteral>(D->getInit()->IgnoreParenImpCasts())) llvm::outs() << " str=" << SL->getString();
    llvm::outs() << "\n"; return true;
  }
  bool VisitFunctionDecl(FunctionDecl *F) {
    if (!F->doesThisDeclarationHaveABody() || !F->getIdentifier() || F->getName() != want) return true;
    auto &SM = C.getSourceManager();
    CFG::BuildOptions BO; BO.setAllAlwaysAdd();
    auto cfg = CFG::buildCFG(F, F->getBody(), &C, BO);
    std::map<const Stmt*, std::pair<unsigned,unsigned>> id;
    for (auto *B : *cfg) { unsigned k = 0; for (auto &E : *B) { if (auto S = E.getAs<CFGStmt>()) id[S->getStmt()] = {B->getBlockID(), k}; k++; } }
    for (auto *B : *cfg) {
      llvm::outs() << "B" << B->getBlockID() << (B->hasNoReturnElement() ? " NORETURN" : "") << "\n"; unsigned k = 0;
      for (auto &E : *B) { auto S = E.getAs<CFGStmt>(); if (!S) { k++; continue; } const Stmt *st = S->getStmt();
        llvm::outs() << "  " << k++ << " " << st->getStmtClassName();
        if (auto *Ex = dyn_cast<Expr>(st)) { Expr::EvalResult R; if (!Ex->isValueDependent() && Ex->getType()->isIntegralOrEnumerationType() && Ex->EvaluateAsInt(R, C)) llvm::outs() << " val=" << R.Val.getInt(); }
        if (auto *CE = dyn_cast<CallExpr>(st)) { if (auto *FD = CE->getDirectCallee()) llvm::outs() << " callee=" << FD->getName() << (FD->isNoReturn() ? "(noreturn)" : ""); else llvm::outs() << " indirect"; }
        if (auto *ME = dyn_cast<MemberExpr>(st)) llvm::outs() << " member=" << ME->getMemberDecl()->getName();
        if (auto *DR = dyn_cast<DeclRefExpr>(st)) llvm::outs() << " ref=" << DR->getDecl()->getName() << (isa<FunctionDecl>(DR->getDecl()) ? "(fn)" : "");
        if (auto *BOp = dyn_cast<BinaryOperator>(st)) llvm::outs() << " op=" << BOp->getOpcodeStr();
        if (auto *UOp = dyn_cast<UnaryOperator>(st)) llvm::outs() << " uop=" << UnaryOperator::getOpcodeStr(UOp->getOpcode());
        SourceLocation L = st->getBeginLoc();
        if (L.isMacroID()) llvm::outs() << " macro=" << Lexer::getImmediateMacroName(L, SM, C.getLangOpts()) << " outer=" << Lexer::getImmediateMacroName(SM.getImmediateExpansionRange(L).getBegin().isMacroID() ? SM.getImmediateExpansionRange(L).getBegin() : L, SM, C.getLangOpts());
        llvm::outs() << " line=" << SM.getExpansionLineNumber(L) << " kids=[";
        for (const Stmt *ch : st->children()) { if (!ch) continue; auto it = id.find(ch); if (it != id.end()) llvm::outs() << "B" << it->second.first << "." << it->second.second << " "; else llvm::outs() << "? "; }
        llvm::outs() << "]\n"; }
      if (const Stmt *T = B->getTerminatorStmt()) { llvm::outs() << "  T " << T->getStmtClassName(); if (const Stmt *Cd = B->getTerminatorCondition()) { auto it = id.find(Cd); if (it != id.end()) llvm::outs() << " cond=B" << it->second.first << "." << it->second.second; else llvm::outs() << " cond=?"; } llvm::outs() << "\n"; }
      llvm::outs() << "  succs:"; for (auto S : B->succs()) { if (S.getReachableBlock()) llvm::outs() << " B" << S.getReachableBlock()->getBlockID(); else llvm::outs() << " (unreachable)"; } llvm::outs() << "\n";
    }
    return true;
  }
};
struct Cons : ASTConsumer { void HandleTranslationUnit(ASTContext &C) override { V v(C); v.TraverseDecl(C.getTranslationUnitDecl()); } };
struct Act : ASTFrontendAction { std::unique_ptr<ASTConsumer> CreateASTConsumer(CompilerInstance &, StringRef) override { return std::make_unique<Cons>(); } };
static llvm::cl::OptionCategory Cat("x");
static llvm::cl::opt<std::string> Fn("fn", llvm::cl::cat(Cat));
int main(int argc, const char **argv) {
  auto EP = tooling::CommonOptionsParser::create(argc, argv, Cat);
  if (!EP) { llvm::errs() << EP.takeError(); return 1; }
  want = Fn;
  tooling::ClangTool T(EP->getCompilations(), EP->getSourcePathList());
  return T.run(tooling::newFrontendActionFactory<Act>().get());
}
