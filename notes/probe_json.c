#include <stdint.h>
#include <stdio.h>
#include <stdlib.h>
#include <string.h>
#include "json.h"
static void t(const char * js, const char * key)
{ setvbuf(stdout, NULL, _IONBF, 0);
	size_t n = strlen(js);
	uint8_t * b = malloc(n);	/* exact size, no NUL */
	memcpy(b, js, n);
	const uint8_t * r = json_find(b, b + n, key);
	printf("%-28s key=%s -> off=%ld (n=%zu)\n", js, key, (long)(r - b), n);
	free(b);
}
int main(void)
{ setvbuf(stdout, NULL, _IONBF, 0);
	t("{\"a\":[1,2],\"b\":3}", "b");
	t("{\"a\":[1, 2],\"b\":3}", "b");
	t("{\"a\":{\"c\":1, \"d\":2},\"b\":3}", "b");
	t("{\"x\":{\"a\":1,", "zz");
	return 0;
}
