/* History: wait(10); the peer sends 3 bytes and closes.  The wait must report end-of-stream; are the 3 bytes the peer sent
 * before closing visible to the application? */
#include <sys/socket.h>
#include <stdio.h>
#include <string.h>
#include <unistd.h>
#include <fcntl.h>
#include "events.h"
#include "netbuf.h"
static int done = 0, st = -9;
static int cb(void * c, int status) { (void)c; done = 1; st = status; return (0); }
int
main(void)
{
	int sv[2];
	struct netbuf_read * R;
	uint8_t * data;
	size_t len;

	if (socketpair(AF_UNIX, SOCK_STREAM, 0, sv)) return (2);
	fcntl(sv[0], F_SETFL, O_NONBLOCK);
	R = netbuf_read_init(sv[0]);
	netbuf_read_wait(R, 10, cb, NULL);
	write(sv[1], "abc", 3);
	close(sv[1]);
	events_spin(&done);
	netbuf_read_peek(R, &data, &len);
	printf("wait(10): status %d (1 = end-of-stream); buffered bytes visible: %zu (the peer sent 3 before closing)\n", st, len);
	return (len == 3 ? 0 : 1);
}
