/* History: a write whose buffer allocation fails returns -1; the caller retries (or simply writes again later).
 * Expected: the retry succeeds or fails cleanly.  Observed on the pinned tree: abort in netbuf_write_reserve. */
#include <sys/socket.h>
#include <stdint.h>
#include <stdio.h>
#include <stdlib.h>
#include "netbuf.h"

static int failnext = 0;
void * __real_malloc(size_t);
void * __wrap_malloc(size_t n) { if (failnext) { failnext = 0; return (NULL); } return (__real_malloc(n)); }
static int failcb(void * c) { (void)c; return (0); }

int
main(void)
{
	int sv[2];
	struct netbuf_write * W;
	uint8_t buf[100] = {0};
	int rc;

	if (socketpair(AF_UNIX, SOCK_STREAM, 0, sv)) return (2);
	W = netbuf_write_init(sv[0], failcb, NULL);
	failnext = 1;                         /* the allocation of the queue buffer fails */
	rc = netbuf_write_write(W, buf, sizeof(buf));
	printf("first write with a failing allocation: %d (expected -1)\n", rc);
	rc = netbuf_write_write(W, buf, sizeof(buf));   /* allocator is healthy again */
	printf("second write: %d (expected 0)\n", rc);
	netbuf_write_free(W);
	return (rc == 0 ? 0 : 1);
}
