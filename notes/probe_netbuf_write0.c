#include <sys/socket.h>
#include <stdint.h>
#include <stdio.h>
#include "netbuf.h"
#include "events.h"
#include "warnp.h"
int main(int argc, char ** argv)
{
	(void)argc; WARNP_INIT;
	int sv[2]; socketpair(AF_UNIX, SOCK_STREAM, 0, sv);
	struct netbuf_write * W = netbuf_write_init(sv[0], NULL, NULL);
	uint8_t b[1] = {0};
	fprintf(stderr, "write(0) -> ");
	int rc = netbuf_write_write(W, b, 0);
	fprintf(stderr, "rc=%d\n", rc);
	return 0;
}
