/* History: wait(10); peer sends 4 bytes; event loop runs (4 bytes are received into the reader's buffer by network_read,
 * which keeps waiting for 10); wait_cancel; peer sends 6 more bytes; wait(6).  The stream was "0123456789": what does the
 * application see? */
#include <sys/socket.h>
#include <stdio.h>
#include <string.h>
#include <unistd.h>
#include <fcntl.h>
#include "events.h"
#include "netbuf.h"

static int done = 0, st = -9;
static int cb(void * c, int status) { (void)c; done = 1; st = status; return (0); }
static int tick_done = 0;
static int tick(void * c) { (void)c; tick_done = 1; return (0); }

int
main(void)
{
	int sv[2];
	struct netbuf_read * R;
	uint8_t * data;
	size_t len;

	if (socketpair(AF_UNIX, SOCK_STREAM, 0, sv)) return (2);
	fcntl(sv[0], F_SETFL, O_NONBLOCK);
	R = netbuf_read_init(sv[0]);
	netbuf_read_wait(R, 10, cb, NULL);
	write(sv[1], "0123", 4);
	/* let the event loop deliver the readiness once */
	events_timer_register_double(tick, NULL, 0.05);
	events_spin(&tick_done);
	printf("after 4 bytes: wait(10) completed=%d\n", done);
	netbuf_read_wait_cancel(R);
	write(sv[1], "456789", 6);
	netbuf_read_wait(R, 6, cb, NULL);
	events_spin(&done);
	netbuf_read_peek(R, &data, &len);
	printf("wait(6): status %d, application sees %zu bytes: \"%.*s\"  (the peer sent \"0123456789\")\n", st, len, (int)len, (char *)data);
	if (len < 6 || memcmp(data, "012345", 6) != 0) { printf("FAIL: the first bytes of the stream were lost\n"); return (1); }
	printf("OK\n");
	return (0);
}
