#include <sys/socket.h>
#include <sys/un.h>
#include <sys/wait.h>
#include <stdint.h>
#include <stdio.h>
#include <stdlib.h>
#include <string.h>
#include <unistd.h>
#include "events.h"
#include "http.h"
#include "sock.h"
#include "warnp.h"

static int done = 0;
static int cb(void * c, struct http_response * r)
{
	(void)c;
	if (r == NULL) printf("CALLBACK: failure (NULL response)\n");
	else {
		printf("CALLBACK: status=%d nheaders=%zu bodylen=%zd body=%.*s\n",
		    r->status, r->nheaders, (ssize_t)r->bodylen,
		    (r->bodylen != (size_t)-1 && r->body) ? (int)r->bodylen : 0, r->body ? (char*)r->body : "");
		free(r->body);
	}
	done = 1;
	return 0;
}
int main(int argc, char ** argv)
{
	WARNP_INIT;
	setvbuf(stdout, NULL, _IONBF, 0);
	const char * path = "/tmp/probe/s.sock";
	/* argv[1] = file with server bytes; argv[2] = maxrlen */
	FILE * f = fopen(argv[1], "rb"); static char resp[1<<20]; size_t n = fread(resp,1,sizeof resp,f); fclose(f);
	size_t maxrlen = (size_t)atol(argv[2]);
	unlink(path);
	int ls = socket(AF_UNIX, SOCK_STREAM, 0);
	struct sockaddr_un sun = {0}; sun.sun_family = AF_UNIX; strcpy(sun.sun_path, path);
	bind(ls, (struct sockaddr*)&sun, sizeof sun); listen(ls, 1);
	pid_t p = fork();
	if (p == 0) {
		int c = accept(ls, NULL, NULL);
		char buf[4096]; ssize_t r = read(c, buf, sizeof buf); (void)r;
		size_t o = 0; while (o < n) { ssize_t w = write(c, resp+o, n-o); if (w<=0) break; o += (size_t)w; }
		if (argc > 3) sleep(1);	/* keep open briefly */
		close(c); _exit(0);
	}
	struct sock_addr ** sas = sock_resolve(path);
	struct http_request req = { "GET", "/", 0, NULL, 0, NULL };
	if (http_request(sas, &req, maxrlen, cb, NULL) == NULL) { printf("http_request failed\n"); return 1; }
	int rc = events_spin(&done);
	printf("events_spin rc=%d done=%d\n", rc, done);
	waitpid(p, NULL, 0);
	return 0;
}
