#include <stdint.h>
#include <stdio.h>
#include <stddef.h>
#include "parsenum.h"
int main(void)
{
	size_t sz = 7; uint32_t u32 = 7; uintmax_t um = 7; int rc;
	rc = PARSENUM(&sz, "-18446744073709551615", 0, 100); printf("size_t [0,100] '-18446744073709551615' rc=%d errno=%d val=%zu\n", rc, errno, sz);
	rc = PARSENUM(&sz, "-1"); printf("size_t '-1' rc=%d errno=%d val=%zu\n", rc, errno, sz);
	rc = PARSENUM(&um, "-1"); printf("uintmax '-1' rc=%d errno=%d val=%ju\n", rc, errno, um);
	rc = PARSENUM(&u32, "-18446744073709551611", 0, 100); printf("u32 [0,100] '-18446744073709551611' rc=%d errno=%d val=%u\n", rc, errno, u32);
	rc = PARSENUM(&u32, "-0"); printf("u32 '-0' rc=%d errno=%d val=%u\n", rc, errno, u32);
	return 0;
}
