"""E1 ownership analyses shared by several properties:

LEAK     a resource acquired into a local access path and not yet released or
         published is released on every path to a failure return.
NULLCHK  the result of a fallible acquisition is tested before it is
         dereferenced.

Both are forward dataflow fixpoints over clang's CFG with branch refinement.
The acquire/release tables are discovered from the program (P_init/P_alloc/...
paired with an existing P_free/P_cancel/...) plus a short libc/OpenSSL table.
"""
import re
from .ir import norm, show, root_var, subterms, _pure
from .dataflow import Solver, cond_atoms

LIBC_ACQ = {
    "malloc": ("free",), "calloc": ("free",), "realloc": ("free",), "strdup": ("free",),
    "imalloc": ("free",),
    "fopen": ("fclose",), "fdopen": ("fclose",),
    "BN_new": ("BN_free", "BN_clear_free"), "BN_bin2bn": ("BN_free", "BN_clear_free"),
    "BN_CTX_new": ("BN_CTX_free",),
    "events_mkrec": ("events_freerec",),
    "sock_resolve": ("sock_addr_freelist",), "sock_resolve_one": ("sock_addr_free",),
    "sock_addr_dup": ("sock_addr_free",), "sock_addr_deserialize": ("sock_addr_free",),
    "crypto_aes_key_expand": ("crypto_aes_key_free",),
    "crypto_aesctr_init": ("crypto_aesctr_free",), "crypto_aesctr_alloc": ("crypto_aesctr_free",),
    "network_read": ("network_read_cancel",), "network_write": ("network_write_cancel",),
    "network_accept": ("network_accept_cancel",), "network_connect": ("network_connect_cancel",),
    "network_connect_bind": ("network_connect_cancel",), "network_connect_timeo": ("network_connect_cancel",),
    "netbuf_read_init": ("netbuf_read_free",), "netbuf_read_init2": ("netbuf_read_free",),
    "netbuf_write_init": ("netbuf_write_free",), "netbuf_write_init2": ("netbuf_write_free",),
    "events_timer_register": ("events_timer_cancel",), "events_timer_register_double": ("events_timer_cancel",),
    "events_immediate_register": ("events_immediate_cancel",),
    "SSL_new": ("SSL_free",), "SSL_CTX_new": ("SSL_CTX_free",),
}
FD_ACQ = {"socket": ("close",), "accept": ("close",), "open": ("close",)}
# int-returning registrations: callee -> (cancel function, key argument indices of the
# registration, matching argument indices of the cancel)
INT_ACQ = {"events_network_register": ("events_network_cancel", (2, 3), (0, 1))}
CTOR_SUFFIX = ("_init", "_init2", "_alloc", "_create", "_new", "_dup", "_register", "_malloc")
DTOR_SUFFIX = ("_free", "_cancel", "_done", "_close", "_freelist")
GENERIC_RELEASERS = re.compile(r"(^free$|^fclose$|^close$|_free$|_cancel$|_done$|_freelist$|^events_freerec$|^BN_clear_free$|^BN_CTX_free$|^freeaddrinfo$|_free_\w+$|^SSL_free$|^SSL_CTX_free$)")
DEREF_CALLEES = {"memcpy": (0, 1), "memset": (0,), "memmove": (0, 1), "strcpy": (0, 1), "stpcpy": (0, 1),
                 "strlen": (0,), "memcmp": (0, 1), "strcmp": (0, 1)}


def discover_acquirers(prog):
    """{callee name: (release names)} from the explicit table and from
    constructor/destructor name pairs that exist in the analysed program."""
    names = set()
    rets = {}
    for u in prog.units.values():
        for f in u.funcs:
            names.add(f.name)
            rets[f.name] = (u.types.get(f.ret) or {}).get("kind")
    acq = dict(LIBC_ACQ)
    for n in sorted(names):
        if rets.get(n) != "ptr":
            continue
        for suf in CTOR_SUFFIX:
            if n.endswith(suf):
                stem = n[: -len(suf)]
                rel = tuple(stem + d for d in DTOR_SUFFIX if (stem + d) in names)
                if rel and n not in acq:
                    acq[n] = rel
    return acq


def is_failure_return(e):
    """return (-1) / return (NULL)."""
    if e.cls != "ReturnStmt" or not e.kids:
        return False
    v = e.kid(0)
    if v is None:
        return False
    n = norm(v)
    if n == ("c", -1):
        return True
    t = (e.func.unit.types.get(e.func.ret) or {}).get("kind")
    if t == "ptr" and (n == ("c", 0) or v.strip().null or v.null):
        return True
    return False


def trackable(path):
    """Local-rooted access path without variable array indices."""
    for t in subterms(path):
        if t[0] == "[]" and t[2][0] != "c":
            return False
        if t[0] in ("call", "?:"):
            return False
    return root_var(path) is not None


class Leak:
    """State: frozenset of (site, path).  A site (position of the acquiring
    call) is held while it has at least one entry; several paths may alias
    one site (r and t->r).  Special paths: ('lost', p) -- the last alias died
    without a release; ('ifnull', L, p) -- p is held again iff realloc's
    result L turns out NULL."""

    def __init__(self, prog, acq=None):
        self.prog = prog
        self.acq = acq or discover_acquirers(prog)

    def analyze(self, f):
        acq = self.acq
        locals_ = set()
        for e in f.all_elems():
            if e.cls == "DeclStmt":
                for d in e.decls or []:
                    if d["kind"] == "local":
                        locals_.add(d["id"])

        pids = set(p["id"] for p in f.params)

        def local_rooted(path):
            r = root_var(path)
            if r is None:
                return False
            if r[2] in locals_:
                return True
            # *out where out is a parameter: by the library's convention an
            # out-parameter is the caller's only once the function succeeds
            return path[0] == "*" and path[1][0] == "v" and path[1][2] in pids

        sites = []

        def acq_call(r):
            if r is None or r.cls != "CallExpr":
                return None
            c = r.callee
            if c in acq:
                return acq[c]
            if c in FD_ACQ:
                return FD_ACQ[c]
            return None

        def under(path, base):
            return any(t == base for t in subterms(path))

        def special(p):
            return p[0] in ("lost", "ifnull", "reg", "dangling", "rcvar")

        def kill_paths(st, pred):
            """Paths satisfying pred become invalid; a site left without any
            alias is kept as ('lost', p)."""
            dead = [x for x in st if not special(x[1]) and pred(x[1])]
            if not dead:
                return st
            st = st - frozenset(dead)
            alive = set(x[0] for x in st if not special(x[1]))
            for sidx, p in dead:
                if sidx not in alive:
                    st = st | frozenset([(sidx, ("lost", p))])
            return st

        def drop_sites(st, sitesel):
            return frozenset(x for x in st if x[0] not in sitesel)

        def value_norm(e):
            """norm of the value an expression yields, looking through
            embedded assignments: (a = (b = f())) yields b."""
            s = e.strip() if e is not None else None
            while s is not None and s.cls == "BinaryOperator" and s.op == "=":
                return norm(s.kid(0))
            return norm(e)

        def transfer(st, e):
            if e.cls == "ReturnStmt" and e.kids:
                v = norm(e.kid(0))
                sel = set()
                for sidx, p in st:
                    if not special(p) and any(t == p for t in subterms(v)):
                        sel.add(sidx)
                if sel:
                    # children reached through a returned object go with it
                    roots = [p for sidx, p in st if sidx in sel and not special(p)]
                    for sidx, p in st:
                        if not special(p) and any(under(p, r) for r in roots):
                            sel.add(sidx)
                    st = drop_sites(st, sel)
                return st
            if e.is_assign and e.op == "=":
                lhs, rhs = norm(e.kid(0)), e.kid(1)
                st = frozenset(x for x in st if not (x[1][0] == "dangling" and (x[1][1] == lhs or (under(x[1][1], lhs) and lhs[0] == "v"))))
                rs = rhs.strip() if rhs is not None else None
                rel = acq_call(rs)
                if rel is not None:
                    if not (trackable(lhs) and local_rooted(lhs)):
                        return st   # acquired straight into caller-visible memory: not tracked
                    st = kill_paths(st, lambda p: p == lhs)
                    if rs.callee == "realloc":
                        old = norm(rs.arg(0))
                        olds = [x for x in st if x[1] == old]
                        if olds:
                            st = (st - frozenset(olds)) | frozenset((x[0], ("ifnull", lhs, old)) for x in olds)
                    sites.append(rs)
                    return st | frozenset([(rs.pos, lhs)])
                vn = value_norm(rhs)
                held = set(x[0] for x in st if x[1] == vn)
                if lhs != vn:
                    st = kill_paths(st, lambda p: p == lhs or (under(p, lhs) and p != lhs))
                if held:
                    if trackable(lhs) and local_rooted(lhs):
                        st = st | frozenset((sidx, lhs) for sidx in held)
                    else:
                        st = drop_sites(st, held)   # published into caller-visible memory
                return st
            if e.cls == "CallExpr":
                c = e.callee
                if c in INT_ACQ:
                    keyn = tuple(norm(e.arg(i)) for i in INT_ACQ[c][1])
                    sites.append(e)
                    return st | frozenset([(e.pos, ("reg", c, keyn))])
                for ic, (canc, _, cargs) in INT_ACQ.items():
                    if c == canc:
                        keyn = tuple(norm(e.arg(i)) for i in cargs)
                        st = frozenset(x for x in st if x[1] != ("reg", ic, keyn))
                if c and GENERIC_RELEASERS.search(c):
                    for a in e.args:
                        if a is None:
                            continue
                        an = norm(a)
                        # a freed parent takes dangling notes about its members with it
                        st = frozenset(x for x in st if not (x[1][0] == "dangling" and under(x[1][1], an) and x[1][1] != an))
                        if c == "free":
                            sel = set(x[0] for x in st if x[1] == an)
                            st = drop_sites(st, sel)
                            st = kill_paths(st, lambda p, an=an: under(p, an) and p != an)
                        else:
                            sel = set(x[0] for x in st if not special(x[1]) and under(x[1], an))
                            st = drop_sites(st, sel)
                        if an[0] in (".", "*", "[]") and trackable(an) and c in ("free", "events_freerec"):
                            st = st | frozenset([(e.pos, ("dangling", an))])
                        # a pointer with static storage duration outlives the call as well: released by any releaser, it must be
                        # cleared (or reassigned) before the function returns, or the next call uses the freed object
                        ae = a.strip()
                        if an[0] == "v" and ae is not None and ae.cls == "DeclRefExpr" and ae.decl and ae.decl.get("kind") not in ("local", "param", "func", "enumconst"):
                            st = st | frozenset([(e.pos, ("dangling", an))])
                    return st
                if c == "asprintf" and e.arg(0) is not None:
                    tgt = norm(e.arg(0))
                    if tgt[0] == "&" and trackable(tgt[1]) and local_rooted(tgt[1]):
                        sites.append(e)
                        st = kill_paths(st, lambda p: p == tgt[1])
                        st = st | frozenset([(e.pos, tgt[1])])
                        # rc = asprintf(...): a later `rc == -1` test speaks about this site
                        for pe in f.all_elems():
                            if pe.is_assign and pe.op == "=" and pe.kid(1) is not None and pe.kid(1).strip() is e:
                                st = st | frozenset([(e.pos, ("rcvar", norm(pe.kid(0))))])
                        return st
                g = self.prog.resolve(f, c) if c else None
                if g is not None:
                    for k in releases_params(self.prog, g):
                        a = e.arg(k)
                        if a is not None:
                            an = norm(a)
                            sel = set(x[0] for x in st if not special(x[1]) and under(x[1], an))
                            st = drop_sites(st, sel)
                return st
            return st

        def refine(st, cond, kind):
            if kind not in (True, False):
                return st
            for op, L, R, Le, Re in cond_atoms(cond, kind):
                ce = Le.strip() if Le is not None else None
                if ce is not None and ce.cls == "CallExpr" and ce.callee in INT_ACQ and R == ("c", 0) and op == "!=":
                    st = frozenset(x for x in st if x[0] != ce.pos)
                if op == "==" and R == ("c", 0):
                    back = [x for x in st if x[1][0] == "ifnull" and x[1][1] == L]
                    st = drop_sites(st, set(x[0] for x in st if x[1] == L))
                    if back:
                        st = (st - frozenset(back)) | frozenset((x[0], x[1][2]) for x in back)
                    if L[0] == "call" and L[1] == "asprintf":
                        pass
                elif op == "!=" and R == ("c", 0):
                    st = frozenset(x for x in st if not (x[1][0] == "ifnull" and x[1][1] == L))
                elif op == "==" and R == ("c", -1):
                    st = drop_sites(st, set(x[0] for x in st if x[1] == L or x[1] == ("rcvar", L)))
                    if L[0] == "call" and L[1] == "asprintf" and len(L) > 2 and L[2][0] == "&":
                        st = drop_sites(st, set(x[0] for x in st if x[1] == L[2][1]))
                elif op == "<" and R == ("c", 0):
                    st = drop_sites(st, set(x[0] for x in st if x[1] == L))
                elif op == "==" and R[0] in ("v",) and L[0] != "c":
                    # L equals some other named object (stdin ...): it does not hold the acquisition
                    st = drop_sites(st, set(x[0] for x in st if x[1] == L))
            return st

        s = Solver(f, frozenset(), transfer, refine, lambda a, b: a | b).run()
        leaks = []
        self.dangling = []

        def visit(e, st):
            if e.cls == "ReturnStmt":
                for sidx, p in sorted(st, key=str):
                    if p[0] == "dangling":
                        self.dangling.append((f.elem(sidx), p[1], e))
            if is_failure_return(e):
                seen = set()
                for sidx, p in sorted(st, key=str):
                    if p[0] in ("ifnull", "dangling", "rcvar") or sidx in seen:
                        continue
                    seen.add(sidx)
                    leaks.append((f.elem(sidx), p[1] if p[0] == "lost" else p, e))
        s.visit(visit)
        return sites, leaks


# --------------------------------------------------------------------------
# DOUBLE-FREE: a released object is not released again
# --------------------------------------------------------------------------
_ff_memo = {}


def frees_on_failure(prog, g, rel=None):
    """Indices of g's pointer parameters that g releases -- directly or through an lvalue it has stored them in -- on a path
    that ends in one of its failure returns.  (On such a return the caller still believes it owns the argument.)"""
    key = (g.unit.path, g.name, g.unit.prog_id if hasattr(g.unit, "prog_id") else id(prog))
    if key in _ff_memo:
        return _ff_memo[key]
    _ff_memo[key] = ()
    pidx = {p["id"]: i for i, p in enumerate(g.params)}
    alias = {}
    for i, p in enumerate(g.params):
        if (g.unit.types.get(p.get("ty")) or {}).get("kind") == "ptr":
            alias[("v", p["name"], p["id"])] = i
    for e in g.all_elems():
        if e.is_assign and e.op == "=":
            v = norm(e.kid(1))
            if v in alias and v[0] == "v" and v[2] in pidx:
                alias[norm(e.kid(0))] = alias[v]
    fails = [r for r in g.returns() if is_failure_return(r)]
    out = set()
    for c in g.calls():
        if not (c.callee and (c.callee in rel if rel is not None else GENERIC_RELEASERS.search(c.callee))):
            continue
        for a in c.args:
            if a is None:
                continue
            n = norm(a)
            if n in alias:
                reach = g.reach_from(c.block.id) | {c.block.id}
                if any(r.block.id in reach for r in fails):
                    out.add(alias[n])
    _ff_memo[key] = tuple(sorted(out))
    return _ff_memo[key]


_ar_memo = {}


def alloc_reach(prog, g):
    """g, or something it calls, allocates memory."""
    key = (g.unit.path, g.name, id(prog))
    if key in _ar_memo:
        return _ar_memo[key]
    _ar_memo[key] = False
    r = False
    for c in g.calls():
        if c.callee in ALLOCATORS or c.callee in ("asprintf", "vasprintf"):
            r = True
            break
        h = prog.resolve(g, c.callee) if c.callee else None
        if h is not None and alloc_reach(prog, h):
            r = True
            break
    _ar_memo[key] = r
    return r


def alloc_fallible(prog, f, callee):
    """Calling `callee` from f can fail for lack of memory: 'ptr' / 'int' (how failure is reported) or None."""
    if callee in ALLOCATORS:
        return "ptr"
    if callee in ("asprintf", "vasprintf"):
        return "int"
    g = prog.resolve(f, callee) if callee else None
    if g is not None and may_fail(prog, g) and alloc_reach(prog, g):
        return "ptr" if (g.unit.types.get(g.ret) or {}).get("kind") == "ptr" else "int"
    return None


class DoubleFree:
    """A release of a path that was already released on some way there, with nothing assigned to it in between.

    State: a bounded set of worlds (trace partitioning), each a pair (entries, facts).  Entries are ('freed', path, site) and
    ('pend', callpos, path, site): a call whose callee releases an argument on its own failure paths leaves that argument
    pending, and the edge on which the call is found to have failed turns pending into freed.  Facts are equalities and
    disequalities between a pure term and a constant learnt from branches; an edge that contradicts a world's facts drops
    the world (so "the loop ran out of candidates" and "a candidate was kept" are not confused after the loop).  A world also
    records whether it has passed the failure edge of an operation that can fail for lack of memory (directly tested, or
    through the variable its result was assigned to): with alloc_only, only such worlds report."""
    MAXW = 24

    def __init__(self, prog, releasers=None, alloc_only=False):
        self.prog = prog
        self.alloc_only = alloc_only
        rel = set(["free", "close", "fclose", "freeaddrinfo", "events_freerec", "BN_free", "BN_clear_free", "BN_CTX_free", "SSL_free", "SSL_CTX_free"])
        for v in (releasers or discover_acquirers(prog)).values():
            rel |= set(v)
        self.rel = rel

    def analyze(self, f):
        prog = self.prog
        rel = self.rel
        found = []
        nfree = [0]

        def mentions(t, lhs):
            return t == lhs or (lhs[0] == "v" and any(x == lhs for x in subterms(t)))

        def kill(w, lhs):
            ent, facts, af = w
            return (frozenset(x for x in ent if not (mentions(x[-2], lhs) or (x[0] == "alias" and (mentions(x[1], lhs) or mentions(x[2], lhs))))),
                    frozenset(x for x in facts if not mentions(x[0], lhs)), af)

        def aliases(ent, n):
            out = {n}
            ch = True
            while ch:
                ch = False
                for x in ent:
                    if x[0] == "alias":
                        if x[1] in out and x[2] not in out:
                            out.add(x[2]); ch = True
                        elif x[2] in out and x[1] not in out:
                            out.add(x[1]); ch = True
            return out

        def failing(op, R, how):
            if how == "ptr":
                return op == "==" and R == ("c", 0)
            return (op == "!=" and R == ("c", 0)) or (op == "==" and R == ("c", -1)) or (op == "<" and R == ("c", 0))

        def tr1(w, e):
            if e.is_assign or e.is_incdec:
                w = kill(w, norm(e.kid(0)))
                if e.is_assign and e.op == "=":
                    r = e.kid(1).strip() if e.kid(1) is not None else None
                    if r is not None and r.cls == "CallExpr" and r.callee:
                        how = alloc_fallible(prog, f, r.callee)
                        if how is not None:
                            w = (w[0] | frozenset([("afvar", how, norm(e.kid(0)), r.pos)]), w[1], w[2])
                    # x = y, x = (y = ...): two names for one pointer
                    lhs, rn = norm(e.kid(0)), norm(e.kid(1))
                    while rn[0] == "=" and len(rn) == 3:
                        rn = rn[1]
                    if lhs[0] in ("v", ".") and rn[0] in ("v", ".") and (lhs[0] == "v" or rn[0] == "v") and _pure(rn) and _pure(lhs) and trackable(rn) and trackable(lhs) \
                            and lhs != rn and (f.unit.types.get(e.kid(0).ty) or {}).get("kind") == "ptr":
                        w = (w[0] | frozenset([("alias", lhs, rn, 0)]), w[1], w[2])
                return w
            if e.cls == "CallExpr" and e.callee:
                c = e.callee
                ent, facts, af = w
                if c in rel:
                    for a in e.args:
                        if a is None:
                            continue
                        n = norm(a)
                        if not trackable(n) or n[0] == "c":
                            continue
                        for q in aliases(ent, n):
                            ent = ent | frozenset([("freed", q, e.pos)])
                        # a destructor of the library releases members of its argument as well
                        g = prog.resolve(f, c) if c != "free" else None
                        if g is not None:
                            from . import common
                            di = common.dtor_info(g, rel)
                            for m in (di[1] if di else []):
                                if m == "self" or m.startswith("close:"):
                                    continue
                                mp = ("*", n)
                                for part in m.split("."):
                                    mp = (".", mp, part)
                                for q in aliases(ent, mp):
                                    ent = ent | frozenset([("freed", q, e.pos)])
                    return (ent, facts, af)
                g = prog.resolve(f, c)
                if g is not None:
                    for k in frees_on_failure(prog, g, rel):
                        a = e.arg(k)
                        if a is not None and trackable(norm(a)):
                            ent = ent | frozenset([("pend", e.pos, norm(a), e.pos)])
                w = (ent, facts, af)
                # an address-of argument may be rewritten by the callee
                for a in e.args:
                    if a is not None and norm(a)[0] == "&":
                        w = kill(w, norm(a)[1])
                return w
            return w

        def transfer(st, e):
            return frozenset(tr1(w, e) for w in st)

        def rf1(w, cond, kind):
            ent, facts, af = w
            for op, L, R, Le, Re in cond_atoms(cond, kind):
                for x in ent:
                    if x[0] == "afvar" and x[2] == L and failing(op, R, x[1]):
                        af = True
                if R[0] == "c" and isinstance(R[1], int) and op in ("==", "!=") and _pure(L) and L[0] != "c":
                    for (l2, o2, c2) in facts:
                        if l2 != L:
                            continue
                        if (op == "==" and o2 == "==" and c2 != R[1]) or (op == "==" and o2 == "!=" and c2 == R[1]) or (op == "!=" and o2 == "==" and c2 == R[1]):
                            return None
                    facts = facts | frozenset([(L, op, R[1])])
                ce = Le.strip() if Le is not None else None
                if ce is None or ce.cls != "CallExpr":
                    continue
                how = alloc_fallible(prog, f, ce.callee)
                if how is not None and failing(op, R, how):
                    af = True
                pend = [x for x in ent if x[0] == "pend" and x[1] == ce.pos]
                if not pend:
                    continue
                g = prog.resolve(f, ce.callee)
                ptr = g is not None and (g.unit.types.get(g.ret) or {}).get("kind") == "ptr"
                failed = (op == "==" and R == ("c", 0)) if ptr else ((op == "!=" and R == ("c", 0)) or (op == "==" and R == ("c", -1)) or (op == "<" and R == ("c", 0)))
                ok = (op == "!=" and R == ("c", 0)) if ptr else ((op == "==" and R == ("c", 0)) or (op == ">=" and R == ("c", 0)))
                if failed:
                    ent = (ent - frozenset(pend)) | frozenset(("freed", x[2], x[3]) for x in pend)
                elif ok:
                    ent = ent - frozenset(pend)
            return (ent, facts, af)

        def refine(st, cond, kind):
            if kind not in (True, False):
                return st
            out = set()
            for w in st:
                r = rf1(w, cond, kind)
                if r is not None:
                    out.add(r)
            return frozenset(out) if out else None

        def join(a, b):
            u = a | b
            if len(u) > self.MAXW:
                outw = set()
                for flag in (False, True):
                    ws = [w for w in u if w[2] == flag]
                    if ws:
                        outw.add((frozenset().union(*[w[0] for w in ws]), frozenset.intersection(*[w[1] for w in ws]), flag))
                return frozenset(outw)
            return u

        s = Solver(f, frozenset([(frozenset(), frozenset(), False)]), transfer, refine, join).run()

        uses = []
        self.uses = uses

        def freed_here(st, n, pos):
            for ent, _, af in st:
                if self.alloc_only and not af:
                    continue
                for x in ent:
                    if x[0] == "freed" and x[1] == n and x[2] != pos:
                        return f.elem(x[2])
            return None

        def visit(e, st):
            if e.cls == "CallExpr" and e.callee in rel:
                nfree[0] += 1
                for a in e.args:
                    if a is None:
                        continue
                    n = norm(a)
                    first = freed_here(st, n, e.pos)
                    if first is not None:
                        found.append((e, n, first))
                return
            # a released pointer handed to a call, dereferenced, or returned
            cands = []
            if e.cls == "CallExpr" and e.callee:
                for a in e.args:
                    if a is not None and norm(a)[0] != "&":          # &p hands over the variable, not the released pointer
                        cands += [t for t in subterms(norm(a)) if isinstance(t, tuple) and t and t[0] == "v"]
            elif e.cls == "MemberExpr" and e.op == "->":
                cands.append(norm(e.kid(0)))
            elif e.cls == "UnaryOperator" and e.op == "*":
                cands.append(norm(e.kid(0)))
            elif e.cls == "ArraySubscriptExpr":
                cands.append(norm(e.kid(0)))
            elif e.cls == "ReturnStmt" and e.kids and e.kid(0) is not None:
                cands.append(norm(e.kid(0)))
            for n in cands:
                if n[0] not in ("v", "."):
                    continue
                first = freed_here(st, n, None)
                if first is not None:
                    uses.append((e, n, first))
        s.visit(visit)
        return nfree[0], found


_rel_memo = {}


def releases_params(prog, g):
    """Indices of g's parameters that g hands to a releasing call (directly)
    on some path: wrappers such as a unit-local destructor."""
    key = (g.unit.path, g.name)
    if key in _rel_memo:
        return _rel_memo[key]
    _rel_memo[key] = ()
    out = set()
    pn = {p["name"]: i for i, p in enumerate(g.params)}
    for e in g.calls():
        c = e.callee
        if c and GENERIC_RELEASERS.search(c):
            for a in e.args:
                if a is None:
                    continue
                n = norm(a)
                if n[0] == "v" and n[1] in pn:
                    out.add(pn[n[1]])
    _rel_memo[key] = tuple(sorted(out))
    return _rel_memo[key]


class NullChk:
    def __init__(self, prog, acq=None):
        self.prog = prog
        self.acq = acq or discover_acquirers(prog)

    def analyze(self, f):
        """(sites, bad): bad = [(acq elem, path, deref elem)]"""
        acq = self.acq
        sites = []

        def transfer(st, e):
            if e.is_assign and e.op == "=":
                lhs = norm(e.kid(0))
                rs = e.kid(1).strip() if e.kid(1) is not None else None
                st = frozenset(x for x in st if x[0] != lhs)
                fallible = rs is not None and rs.cls == "CallExpr" and rs.callee in acq
                if not fallible and rs is not None and rs.cls == "CallExpr" and rs.callee:
                    # any function of the library that answers a pointer and has a NULL failure return
                    g = self.prog.resolve(f, rs.callee)
                    fallible = g is not None and (g.unit.types.get(g.ret) or {}).get("kind") == "ptr" and may_fail(self.prog, g)
                if fallible and trackable(lhs):
                    sites.append(rs)
                    return st | frozenset([(lhs, rs.pos)])
                return st
            return st

        def refine(st, cond, kind, blk):
            if kind not in (True, False):
                return st
            for op, L, R, _, _ in cond_atoms(cond, kind):
                if R == ("c", 0) and op == "!=":
                    st = frozenset(x for x in st if x[0] != L)          # known not NULL from here on
                elif R == ("c", 0) and op == "==":
                    # known NULL from here on: kept (as tested-and-NULL), so that a dereference on *this* edge -- a test written the
                    # wrong way round -- is reported; the usual continuation is the failure path, which does not touch it
                    st = frozenset((x[0], x[1], "null") if x[0] == L else x for x in st)
            # the (p == NULL) && (n > 0) idiom (IMALLOC): on the edge where the count is zero the pointer may be NULL and nothing of it is used
            if kind is False and any(op == ">" and R == ("c", 0) for op, L, R, _, _ in cond_atoms(cond, True)):
                for pb in blk.preds:
                    pblk = f.blocks[pb]
                    if pblk.cond is not None and len(pblk.succs) == 2 and pblk.succs[0] == blk.id:
                        for op, L, R, _, _ in cond_atoms(pblk.cond, True):
                            if R == ("c", 0) and op == "==":
                                st = frozenset(x for x in st if x[0] != L)
            # the (n > 0) && (p == NULL) idiom: when the size test fails the
            # pointer may be NULL but nothing of it is used (zero elements)
            if kind is False and blk.term and blk.term.get("cls") == "BinaryOperator" and blk.term.get("op") == "&&" and blk.succs[0] is not None:
                if any(op == ">" and R == ("c", 0) for op, L, R, _, _ in cond_atoms(cond, True)):
                    nb = f.blocks[blk.succs[0]]
                    if nb.cond is not None:
                        for op, L, R, _, _ in cond_atoms(nb.cond, True):
                            if R == ("c", 0) and op == "==":
                                st = frozenset(x for x in st if x[0] != L)
            return st

        s = Solver(f, frozenset(), transfer, refine, lambda a, b: a | b).run()
        bad = []

        def visit(e, st):
            if not st:
                return
            ptr = None
            if e.cls == "MemberExpr" and e.op == "->":
                ptr = norm(e.kid(0))
            elif e.cls == "UnaryOperator" and e.op == "*":
                ptr = norm(e.kid(0))
            elif e.cls == "ArraySubscriptExpr":
                ptr = norm(e.kid(0))
            elif e.cls == "CallExpr" and e.callee and e.callee not in DEREF_CALLEES and self.prog.resolve(f, e.callee) is not None:
                # a function of the program that dereferences what it is given (or a member of it) without looking
                g = self.prog.resolve(f, e.callee)
                hp, hm = deref_summary(self.prog, g)
                for k, a in enumerate(e.args):
                    if a is None:
                        continue
                    an = norm(a)
                    for x in st:
                        if len(x) < 3:
                            continue          # only pointers known to be NULL here (tested, on the NULL edge)
                        if k in hp and x[0] == an:
                            bad.append((f.elem(x[1]), x[0], e))
                        if x[0][0] == "." and x[0][1] == ("*", an) and (k, x[0][2]) in hm:
                            bad.append((f.elem(x[1]), x[0], e))
                return
            elif e.cls == "CallExpr" and e.callee in DEREF_CALLEES:
                for k in DEREF_CALLEES[e.callee]:
                    a = e.arg(k)
                    if a is not None:
                        an = norm(a)
                        for x in st:
                            if x[0] == an:
                                bad.append((f.elem(x[1]), x[0], e))
                return
            if ptr is not None:
                for x in st:
                    if x[0] == ptr:
                        bad.append((f.elem(x[1]), x[0], e))
        s.visit(visit)
        return sites, bad


_deref_memo = {}


def deref_summary(prog, g, depth=0):
    """(params, members): indices k such that g dereferences its k-th parameter without a NULL test of it, and pairs (k, member)
    such that g dereferences p_k->member without a NULL test of that member -- directly, or by handing it to a function of the
    program that does (three levels deep)."""
    key = (g.unit.path, g.name)
    if key in _deref_memo:
        return _deref_memo[key]
    _deref_memo[key] = (frozenset(), frozenset())
    P = {}
    for k, p in enumerate(g.params):
        P[("v", p["name"], p["id"])] = k
    # locals that are just the parameter under another type: `struct T * x = cookie;`
    for e in g.all_elems():
        if e.cls == "DeclStmt":
            for d in e.decls or []:
                if isinstance(d, dict) and d.get("init"):
                    v = norm(g.elem(d["init"]))
                    if v in P:
                        P[("v", d["name"], d["id"])] = P[v]
    params, members = set(), set()

    def guarded(e, T):
        return any(L == T and R == ("c", 0) for cond, truth in g.edge_conds(e) for op, L, R, _, _ in cond_atoms(cond, truth))

    def note(T, e):
        if T in P:
            if not guarded(e, T):
                params.add(P[T])
        elif T[0] == "." and T[1][0] == "*" and T[1][1] in P:
            if not guarded(e, T):
                members.add((P[T[1][1]], T[2]))
    for e in g.all_elems():
        if e.cls == "MemberExpr" and e.op == "->":
            note(norm(e.kid(0)), e)
        elif e.cls == "UnaryOperator" and e.op == "*":
            note(norm(e.kid(0)), e)
        elif e.cls == "ArraySubscriptExpr":
            note(norm(e.kid(0)), e)
        elif e.cls == "CallExpr" and e.callee and depth < 3:
            h = prog.resolve(g, e.callee)
            if h is not None and h is not g:
                hp, hm = deref_summary(prog, h, depth + 1)
                for k in hp:
                    a = e.arg(k)
                    if a is not None:
                        note(norm(a), e)
    res = (frozenset(params), frozenset(members))
    _deref_memo[key] = res
    return res


_fail_memo = {}


def may_fail(prog, g):
    """g has a failure return, or returns the result of a callee that has."""
    key = (g.unit.path, g.name)
    if key in _fail_memo:
        return _fail_memo[key]
    _fail_memo[key] = False
    res = False
    for r in g.returns():
        if is_failure_return(r):
            res = True
            break
        v = r.kid(0).strip() if r.kids and r.kid(0) is not None else None
        if v is not None and v.cls == "CallExpr" and v.callee:
            if v.callee in ALLOCATORS:
                res = True
                break
            h = prog.resolve(g, v.callee)
            if h is not None and may_fail(prog, h):
                res = True
                break
    _fail_memo[key] = res
    return res


# ---------------------------------------------------------------------------
# ATOMIC: failure atomicity of container operations
# ---------------------------------------------------------------------------
ALLOCATORS = ("malloc", "calloc", "realloc", "strdup", "imalloc")
LIBC_MUT_DEST = {"memcpy": (0,), "memmove": (0,), "memset": (0,), "strcpy": (0,), "free": (0,)}


class Atomic:
    def __init__(self, prog):
        self.prog = prog
        self._mut = {}
        self._atomic = {}

    @staticmethod
    def _rooted(n, pid):
        r = root_var(n)
        return r is not None and r[2] == pid

    def mutates(self, g, k):
        """May g modify memory reachable from its k-th parameter?"""
        key = (g.unit.path, g.name, k)
        if key in self._mut:
            return self._mut[key]
        self._mut[key] = False
        if k >= len(g.params):
            return False
        pid = g.params[k]["id"]
        res = False
        for e in g.all_elems():
            if e.is_assign or e.is_incdec:
                l = norm(e.kid(0))
                if l[0] != "v" and self._rooted(l, pid):
                    res = True
                    break
            elif e.cls == "CallExpr":
                if self._call_mutates(g, e, pid):
                    res = True
                    break
        self._mut[key] = res
        return res

    def _call_mutates(self, f, e, pid):
        c = e.callee
        for k, a in enumerate(e.args):
            if a is None or not self._rooted(norm(a), pid):
                continue
            if c in LIBC_MUT_DEST:
                if k in LIBC_MUT_DEST[c]:
                    return True
                continue
            if c == "realloc":
                return True
            g = self.prog.resolve(f, c) if c else None
            if g is not None:
                if self.mutates(g, k):
                    return True
                continue
            t = f.unit.types.get(a.ty) or {}
            pt = f.unit.types.get(t.get("pointee", "")) or {}
            if t.get("kind") == "ptr" and not pt.get("const") and c not in ("strlen", "memcmp", "strcmp", "assert", "__assert_fail", "warn0", "warnp", "warn", "warnx", "libcperciva_warn", "libcperciva_warnx"):
                return True
        return False

    def analyze(self, f, k=0):
        """Violations: [(return elem, reason elem)] where the object parameter
        may have been modified on a path to a failure return."""
        if k >= len(f.params):
            return None
        pid = f.params[k]["id"]
        prog = self.prog

        def fallible_atomic(e):
            c = e.callee
            if c == "realloc":
                return "ptr"
            g = prog.resolve(f, c) if c else None
            if g is None:
                return None
            if not may_fail(prog, g):
                return None
            kind = (g.unit.types.get(g.ret) or {}).get("kind")
            return "ptr" if kind == "ptr" else "int"

        # state: (frozenset of mutating elem positions, frozenset of pending (pos, kind))
        def transfer(st, e):
            mut, pend = st
            if e.is_assign or e.is_incdec:
                l = norm(e.kid(0))
                if l[0] != "v" and self._rooted(l, pid):
                    return (mut | {e.pos}, pend)
                return st
            if e.cls == "CallExpr":
                if self._call_mutates(f, e, pid):
                    fk = fallible_atomic(e)
                    if fk:
                        return (mut, pend | {(e.pos, fk)})
                    return (mut | {e.pos}, pend)
            return st

        def refine(st, cond, kind):
            mut, pend = st
            if kind not in (True, False) or not pend:
                return st
            for op, L, R, Le, Re in cond_atoms(cond, kind):
                ce = Le.strip() if Le is not None else None
                if ce is None or ce.cls != "CallExpr":
                    continue
                for (pos, fk) in list(pend):
                    if pos != ce.pos:
                        continue
                    fail = None
                    if fk == "ptr" and R == ("c", 0):
                        fail = (op == "==") if op in ("==", "!=") else None
                    elif fk == "int":
                        if R == ("c", 0) and op in ("==", "!="):
                            fail = (op == "!=")
                        elif R == ("c", -1) and op in ("==", "!="):
                            fail = (op == "==")
                        elif R == ("c", 0) and op in ("<", ">="):
                            fail = (op == "<")
                    if fail is None:
                        continue
                    pend = pend - {(pos, fk)}
                    if not fail:
                        mut = mut | {pos}
            return (mut, pend)

        s = Solver(f, (frozenset(), frozenset()), transfer, refine,
                   lambda a, b: (a[0] | b[0], a[1] | b[1])).run()
        out = []

        def visit(e, st):
            if is_failure_return(e):
                mut, pend = st
                for pos in sorted(mut | frozenset(p for p, _ in pend)):
                    out.append((e, f.elem(pos)))
        s.visit(visit)
        return out
