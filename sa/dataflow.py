"""Forward dataflow over a function's CFG with branch-edge refinement, and the
decomposition of the repository's branch idioms into atomic facts."""
from .ir import norm

NEG = {"==": "!=", "!=": "==", "<": ">=", ">=": "<", ">": "<=", "<=": ">"}
SWAP = {"==": "==", "!=": "!=", "<": ">", ">": "<", "<=": ">=", ">=": "<="}


def edge_kinds(block):
    """For each successor index of `block`: (cond_elem, kind) where kind is
    True/False for two-way branches, ('case', v) / ('default', [vs]) for
    switches, or (None, None) for unconditional edges."""
    f = block.func
    n = len(block.succs)
    if n < 2:
        return [(None, None)] * n
    cond = block.cond
    if block.term_cls == "SwitchStmt":
        out = []
        allv = []
        for s in block.succs:
            if s is not None:
                allv += f.blocks[s].case_values()
        for s in block.succs:
            if s is None:
                out.append((cond, ("none", None)))
                continue
            sb = f.blocks[s]
            cv = sb.case_values()
            if cv:
                out.append((cond, ("case", cv[0])))
            else:
                out.append((cond, ("default", list(allv))))
        return out
    if n == 2:
        return [(cond, True), (cond, False)]
    return [(None, None)] * n


def cond_atoms(e, truth=True):
    """Atomic facts implied by `e` evaluating to `truth`.
    Returns a list of (op, L, R, Lelem, Relem) with op in == != < <= > >=,
    L/R norm() tuples.  For an embedded assignment `(x = E) op R` an atom
    about x is added as well."""
    out = []
    _atoms(e, truth, out)
    return out


def _atoms(e, truth, out):
    if e is None:
        return
    e0 = e
    e = e.strip()
    if e is None:
        return
    if e.cls == "UnaryOperator" and e.op == "!":
        _atoms(e.kid(0), not truth, out)
        return
    if e.cls == "BinaryOperator" and e.op in ("&&", "||"):
        if (e.op == "&&" and truth) or (e.op == "||" and not truth):
            _atoms(e.kid(0), truth, out)
            _atoms(e.kid(1), truth, out)
        return
    if e.cls == "BinaryOperator" and e.op in NEG:
        op = e.op if truth else NEG[e.op]
        l, r = e.kid(0), e.kid(1)
        _emit(op, l, r, out)
        return
    if e.cls == "CallExpr" and e.callee == "__builtin_expect":
        _atoms(e.arg(0), truth, out)
        return
    # plain value used as a condition
    _emit("!=" if truth else "==", e, None, out)


TWIN = {">=": (">", -1), ">": (">=", 1), "<=": ("<", 1), "<": ("<=", -1)}


def _emit(op, l, r, out):
    ln = norm(l)
    rn = norm(r) if r is not None else ("c", 0)
    out.append((op, ln, rn, l, r))
    # integer comparisons with a constant are also reported in their equivalent spellings
    # (x >= 65 is x > 64; 5 < x is x > 5), so rules do not depend on how a threshold was written
    if ln[0] == "c" and rn[0] != "c" and op in ("==", "!="):
        out.append((op, rn, ln, r, l))       # 0 == x is x == 0
    if ln[0] != "c" and rn[0] != "c" and op in SWAP:
        # a comparison of two terms is also reported the other way round (a < b is b > a)
        out.append((SWAP[op], rn, ln, r, l))
    if op in TWIN:
        if rn[0] == "c" and ln[0] != "c" and isinstance(rn[1], int):
            t, d = TWIN[op]
            out.append((t, ln, ("c", rn[1] + d), l, r))
        elif ln[0] == "c" and rn[0] != "c" and isinstance(ln[1], int):
            so = SWAP[op]
            out.append((so, rn, ln, r, l))
            t, d = TWIN[so]
            out.append((t, rn, ("c", ln[1] + d), r, l))
    # look through embedded assignments on either side
    for side, other, o in ((l, rn, op), (r, ln, SWAP[op])):
        if side is None:
            continue
        s = side.strip()
        depth = 0
        while s is not None and s.cls == "BinaryOperator" and s.op == "=" and depth < 4:
            tgt = norm(s.kid(0))
            out.append((o, tgt, other, s.kid(0), None))
            # and about the assigned value itself (e.g. the call, or a nested assignment)
            out.append((o, norm(s.kid(1)), other, s.kid(1), None))
            s = s.kid(1).strip() if s.kid(1) is not None else None
            depth += 1


class Solver:
    """Generic forward analysis.

    transfer(state, elem) -> state
    refine(state, cond_elem, kind) -> state or None (edge infeasible)
    join(a, b) -> state
    States must support ==.  None means unreachable."""

    def __init__(self, func, init, transfer, refine=None, join=None, limit=200):
        self.f = func
        self.init = init
        self.transfer = transfer
        self.refine = refine
        self._r4 = refine is not None and refine.__code__.co_argcount - (1 if hasattr(refine, "__self__") else 0) >= 4
        self.join = join or (lambda a, b: a | b)
        try:
            self._j3 = self.join.__code__.co_argcount - (1 if hasattr(self.join, "__self__") else 0) >= 3
        except AttributeError:
            self._j3 = False
        self.limit = limit
        self.IN = {}
        self.OUT_EDGE = {}

    def run(self):
        f = self.f
        IN = self.IN
        IN[f.entry] = self.init
        order = f.rpo()
        idx = {b: i for i, b in enumerate(order)}
        work = set([f.entry])
        count = {}
        while work:
            b = min(work, key=lambda x: idx.get(x, 1 << 30))
            work.discard(b)
            count[b] = count.get(b, 0) + 1
            if count[b] > self.limit:
                raise RuntimeError("dataflow did not converge in %s B%d" % (f.name, b))
            blk = f.blocks[b]
            st = IN[b]
            for e in blk.elems:
                st = self.transfer(st, e)
                if st is None:
                    break
            if st is None:
                continue
            if blk.noreturn:
                continue
            kinds = edge_kinds(blk)
            for si, s in enumerate(blk.succs):
                if s is None:
                    continue
                cond, kind = kinds[si]
                s2 = st
                if cond is not None and self.refine is not None:
                    s2 = self.refine(st, cond, kind, blk) if self._r4 else self.refine(st, cond, kind)
                    if s2 is None:
                        continue
                self.OUT_EDGE[(b, si)] = s2
                if s in IN:
                    j = self.join(IN[s], s2, s) if self._j3 else self.join(IN[s], s2)
                    if j != IN[s]:
                        IN[s] = j
                        work.add(s)
                else:
                    IN[s] = s2
                    work.add(s)
        return self

    def visit(self, fn):
        """Replay the fixpoint: fn(elem, state_before) for every reachable element."""
        f = self.f
        for b in f.rpo():
            if b not in self.IN:
                continue
            st = self.IN[b]
            for e in f.blocks[b].elems:
                fn(e, st)
                st = self.transfer(st, e)
                if st is None:
                    break

    def state_before(self, elem):
        b = elem.block.id
        if b not in self.IN:
            return None
        st = self.IN[b]
        for e in elem.block.elems:
            if e is elem:
                return st
            st = self.transfer(st, e)
            if st is None:
                return None
        return st

    def state_at_end(self, bid):
        if bid not in self.IN:
            return None
        st = self.IN[bid]
        for e in self.f.blocks[bid].elems:
            st = self.transfer(st, e)
            if st is None:
                return None
        return st


def decide_with(e, term, k):
    """Truth of condition `e` when the term `term` (a norm() tuple) has the integer value k, or None when the condition also depends
    on something else.  Handles !, && and || (three-valued), comparisons of the term with constants either way round, and a plain
    use of the term as a truth value."""
    e = e.strip() if e is not None else None
    if e is None:
        return None
    if e.cls == "UnaryOperator" and e.op == "!":
        v = decide_with(e.kid(0), term, k)
        return None if v is None else not v
    if e.cls == "BinaryOperator" and e.op in ("&&", "||"):
        a, b = decide_with(e.kid(0), term, k), decide_with(e.kid(1), term, k)
        if e.op == "&&":
            if a is False or b is False:
                return False
            return True if (a is True and b is True) else None
        if a is True or b is True:
            return True
        return False if (a is False and b is False) else None
    if e.cls == "BinaryOperator" and e.op in NEG:
        l, r = norm(e.kid(0)), norm(e.kid(1))
        op = e.op
        if r == term and l[0] == "c":
            l, r = r, l
            op = SWAP[op]
        if l == term and r[0] == "c" and isinstance(r[1], int):
            return {"==": k == r[1], "!=": k != r[1], "<": k < r[1], "<=": k <= r[1], ">": k > r[1], ">=": k >= r[1]}[op]
        return None
    if e.cls == "CallExpr" and e.callee == "__builtin_expect":
        return decide_with(e.arg(0), term, k)
    if norm(e) == term:
        return k != 0
    return None
