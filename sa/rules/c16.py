"""C16 — numeric text parsing is exact: necessary conditions.

S1  every function that converts with strtoumax/strtoul(l) inspects the
    numeral's sign (C's unsigned conversions negate silently, so without such a
    test a negative numeral necessarily wraps)
S2  the three parsenum_* siblings agree: conversion, then EINVAL exactly on
    `eptr == s || (!trailing && *eptr)`, else ERANGE exactly on the bound
    tests; errno is cleared by the macro before the call
S3  humansize_parse: x10, +digit and xmultiplier are each behind their
    UINT64_MAX guard; the state switch covers -1..5; the SI prefix E,P,T,G,M,k
    multiplies by 1000 exactly 6,5,4,3,2,1 times; only digits are accepted as
    digits
"""
from .. import cdb, ir, report
from ..ir import norm, show, root_var, subterms
from ..dataflow import cond_atoms

UNSIGNED_CONV = ("strtoumax", "strtoul", "strtoull")
EINVAL, ERANGE = 22, 34
ERRNO = ("*", ("call", "__errno_location"))
U64MAX = 2 ** 64 - 1


def strip_ids(n):
    if isinstance(n, tuple):
        if n and n[0] == "v":
            return ("v", n[1])
        return tuple(strip_ids(k) for k in n)
    return n


def s1(prog, rep):
    seen = set()
    for u in prog.units.values():
        for f in u.funcs:
            key = (f.file, f.name)
            if key in seen:
                continue
            convs = [c for c in f.calls(UNSIGNED_CONV)]
            if not convs:
                continue
            seen.add(key)
            for c in convs:
                sarg = norm(c.arg(0))
                roots = set()
                r = root_var(sarg)
                if r:
                    roots.add(r[1])
                # locals assigned from the string
                for e in f.all_elems():
                    if e.is_assign and e.op == "=" and root_var(norm(e.kid(1))) is not None and root_var(norm(e.kid(1)))[1] in roots and norm(e.kid(0))[0] == "v":
                        roots.add(norm(e.kid(0))[1])
                ok = False
                for b in f.blocks.values():
                    if b.cond is None:
                        continue
                    for op, L, R, _, _ in cond_atoms(b.cond, True):
                        if R == ("c", ord("-")) and op in ("==", "!=") and root_var(L) is not None and root_var(L)[1] in roots and L[0] in ("*", "[]"):
                            ok = True
                # or: a signed conversion of the same string tested < 0
                for c2 in f.calls(("strtoimax", "strtol", "strtoll")):
                    if norm(c2.arg(0)) == sarg:
                        ok = True
                rep.check(ok, "S1-sign", "%s in %s" % (c.text[:40], f.name), c.where,
                          "%s accepts a leading '-' and returns the negation in the unsigned type; the function never looks at the sign, so \"-1\" parses as the "
                          "type's maximum and \"-18446744073709551615\" as 1" % c.callee, function=f.name, construct="unsigned-sign")
            # the sign test must apply to every non-zero result: it may sit behind `val != 0` and the else-chain of the
            # syntax/range tests, but not behind any other condition on the value (a negated numeral can land anywhere)
            if ok:
                vals = [norm(e.kid(0)) for e in f.all_elems() if e.is_assign and e.kid(1) is not None and e.kid(1).strip() is c]
                val = vals[0] if vals else None
                for b in f.blocks.values():
                    if b.cond is None or val is None:
                        continue
                    hit = any(R == ("c", ord("-")) and op in ("==", "!=") and L[0] in ("*", "[]") for op, L, R, _, _ in cond_atoms(b.cond, True))
                    if not hit:
                        continue
                    extra = []
                    for cond, truth in f.edge_conds(b.cond):
                        for op, L, R, _, _ in cond_atoms(cond, truth):
                            if L != val:
                                continue
                            if R == ("c", 0) and op in ("!=", ">"):
                                continue
                            if R[0] == "c" and R[1] == 1 and op == ">=":
                                continue
                            if R[0] == "v" and op in (">=", "<="):
                                continue      # false edges of the val < min / val > max / val > typemax tests
                            extra.append((op, show(R)))
                    rep.check(not extra, "S1-sign", "the sign test in %s covers every non-zero value" % f.name, b.cond.where,
                              "the test of the '-' sign is reached only when %s: a negative numeral whose negation falls outside that range is still accepted "
                              "(e.g. -18446744073709551615 -> 1)" % ", ".join("val %s %s" % x for x in extra), function=f.name, construct="sign-coverage")
            # the sign is looked for where the conversion looks for it: strto* skip exactly the isspace() characters first, so the
            # manual scan must skip exactly those before it tests for '-'
            if ok:
                for b in f.blocks.values():
                    if b.cond is None:
                        continue
                    for op, L, R, Le, _ in cond_atoms(b.cond, True):
                        if not (R == ("c", ord("-")) and op in ("==", "!=") and L[0] in ("*", "[]")):
                            continue
                        pv = root_var(L)
                        steps = [e for e in f.all_elems() if ir.step(e) and ir.step(e)[1] == pv and f.dominates(e, b.cond) is not None]
                        skip = []
                        for e in steps:
                            for cond, truth in f.edge_conds(e):
                                if truth and _classifier(cond):
                                    skip.append(_classifier(cond))
                        okw = skip == ["isspace"] or set(skip) == {"isspace"}
                        rep.check(okw, "S1-sign", "the sign is tested after skipping exactly the isspace() characters in %s" % f.name, b.cond.where,
                                  "classifiers guarding the scan before the sign test: %s; the conversion skips isspace() characters, so \"\\n-1\" reaches it with the "
                                  "sign unseen unless the scan skips the same set" % (skip or "none"), function=f.name, construct="sign-skip")
                        break
    if not seen:
        rep.defer_broken("S1: no unsigned conversion found (parsenum_unsigned gone?)")



def s4_format(prog, rep):
    """humansize() prints two or three significant digits: in the scaled branch the value kept in tenths of the unit is
    within 10..9999 when it is printed (so the integer part has at most three digits and at least one), the one-decimal form is
    used exactly below 100 tenths, and the digits printed are size / 10 and size % 10.  Bounds decided relationally (sa/poly.py)."""
    from .. import poly
    from ..poly import Lin
    u = prog.unit("util/humansize.c")
    f = u.func("humansize")
    if f is None:
        raise cdb.AnalysisBroken("anchor missing: humansize")
    sz = ("v", f.params[0]["name"], f.params[0]["id"])
    A = poly.Analysis(f, quiet={"asprintf", "warnp", "libcperciva_asprintf"}, unsigned_terms={sz}).run()
    S = Lin.var(sz)
    calls = [c for c in f.calls() if c.callee in ("asprintf", "libcperciva_asprintf")]
    n = 0
    for c in calls:
        fmt = c.arg(1).strip().strv if c.arg(1) is not None and c.arg(1).strip().strv is not None else b""
        fmt = fmt.rstrip(b"\0").decode("latin1")
        st = A.state_before(c)
        if "%c" not in fmt:
            ok = fmt == "%d B" and A.holds(st, "<=", S, Lin.const(999))
            rep.check(ok, "S4-format", "sizes below 1000 are printed in bytes", c.where, "format %r" % fmt, function=f.name, construct="fmt-bytes")
            continue
        n += 1
        lo, hi = A.holds(st, ">=", S, Lin.const(10)), A.holds(st, "<=", S, Lin.const(9999))
        dec = fmt == "%d.%d %cB"
        rng = A.holds(st, "<=", S, Lin.const(99)) if dec else (fmt == "%d %cB" and A.holds(st, ">=", S, Lin.const(100)))
        args = [show(norm(a)).replace(" ", "") for a in c.args[2:]]
        shape = args[:2] == ["(size/10)", "(size%10)"] if dec else args[:1] == ["(size/10)"]
        rep.check(lo and hi and rng and shape, "S4-format", "scaled value printed with %s significant digits" % ("two" if dec else "two or three"), c.where,
                  "tenths-of-unit value within 10..9999 at the print: >= 10 %s, <= 9999 %s; branch range %s; digit arguments %s" % (lo, hi, rng, args),
                  function=f.name, construct="fmt-scaled:" + fmt)
    if n != 2:
        rep.defer_broken("S4: expected two scaled print statements in humansize")


CLASSIFIERS = ("isspace", "isblank", "isdigit", "isalpha", "isalnum", "isprint", "ispunct", "isgraph", "iscntrl", "isxdigit", "isupper", "islower")


def _classifier(cond):
    """Name of the <ctype.h> classifier a condition element applies (macro expansion or call), or None."""
    stack = [cond]
    while stack:
        e = stack.pop()
        if e is None:
            continue
        for m in e.macro:
            if m in CLASSIFIERS:
                return m
        if e.cls == "CallExpr" and e.callee in CLASSIFIERS:
            return e.callee
        stack.extend(e.kids)
    return None


def _canon(atom):
    """One orientation per comparison (the atoms come in both)."""
    op, L, R = atom
    sw = {"==": "==", "!=": "!=", "<": ">", ">": "<", "<=": ">=", ">=": "<="}[op]
    return min((op, L, R), (sw, R, L), key=repr)


def _reasons(f, store):
    """Atoms on the edges that lead directly into the store's block, and the atoms of the branches dominating those."""
    direct = set()
    context = set()
    sb = store.block.id
    # blocks that do nothing but lead into the store's block (one way out, no test: the tail of an inlined helper's return) count
    # as part of it: the edges that matter are the ones into them
    targets = {sb}
    for _ in range(4):
        for b in f.blocks.values():
            live = [x for x in b.succs if x is not None]
            if b.id not in targets and len(live) == 1 and live[0] in targets and (b.cond is None or len(b.succs) == 1) and not any(e.cls == "CallExpr" for e in b.elems):
                targets.add(b.id)
    for b in f.blocks.values():
        if b.cond is None or len(b.succs) != 2:
            continue
        for i, s in enumerate(b.succs):
            if s in targets:
                for op, L, R, _, _ in cond_atoms(b.cond, i == 0):
                    direct.add((op, strip_ids(L), strip_ids(R)))
                for cond, truth in f.edge_conds(b.cond):
                    for op, L, R, _, _ in cond_atoms(cond, truth):
                        context.add((op, strip_ids(L), strip_ids(R)))
    return set(_canon(a) for a in direct), set(_canon(a) for a in context)


def s2(prog, rep):
    host = None
    for up in ("util/sock.c", "http/http.c"):
        if up in prog.units and prog.units[up].func("parsenum_unsigned"):
            host = prog.units[up]
            break
    if host is None:
        raise cdb.AnalysisBroken("S2: no analysed unit includes parsenum.h")
    V = lambda n: ("v", n)
    Z = ("c", 0)
    spec = {
        "parsenum_float": ("strtod", False), "parsenum_signed": ("strtoimax", False), "parsenum_unsigned": ("strtoumax", True)}
    for name, (conv, has_typemax) in spec.items():
        f = host.func(name)
        if f is None:
            rep.defer_broken("S2: %s missing" % name)
            continue
        if not rep.names(f, "s", "eptr", "val", "min", "max", "trailing", *(["typemax"] if has_typemax else []), *(["base"] if conv != "strtod" else [])):
            continue
        calls = list(f.calls(conv))
        ok = len(calls) == 1 and strip_ids(norm(calls[0].arg(0))) == V("s") and strip_ids(norm(calls[0].arg(1))) == ("&", V("eptr"))
        if ok and conv != "strtod":
            ok = strip_ids(norm(calls[0].arg(2))) == V("base")
        rep.check(ok, "S2-sibling", "%s converts (s, &eptr%s) once with %s" % (name, ", base" if conv != "strtod" else "", conv), f.loc, "", function=name, construct="conv")
        stores = {}
        for e in f.all_elems():
            if e.is_assign and e.op == "=" and norm(e.kid(0)) == ERRNO and norm(e.kid(1))[0] == "c":
                stores.setdefault(norm(e.kid(1))[1], []).append(e)
        # EINVAL
        es = stores.get(EINVAL, [])
        want_direct = {("==", V("eptr"), V("s")), ("!=", ("*", V("eptr")), Z)}
        ok = len(es) == 1
        if ok:
            d, c = _reasons(f, es[0])
            ok = d == set(_canon(a) for a in want_direct) and _canon(("==", V("trailing"), Z)) in c
        rep.check(ok, "S2-sibling", "%s: EINVAL exactly on eptr == s || (!trailing && *eptr)" % name, es[0].where if es else f.loc,
                  "edges into the store: %s" % (sorted(map(str, _reasons(f, es[0])[0])) if es else "no store"), function=name, construct="einval")
        # ERANGE
        rs = stores.get(ERANGE, [])
        want = {("<", V("val"), V("min")), (">", V("val"), V("max"))}
        if has_typemax:
            want.add((">", V("val"), V("typemax")))
        ok = len(rs) >= 1
        d = set()
        ctx = set()
        if ok:
            ok = False
            for r in rs:
                d, ctx = _reasons(f, r)
                # exactly the bound tests, reached whenever the numeral is well formed: a further condition on the way (say, "only for
                # finite values") lets values through that are out of range.  Conditions about the numeral's shape and the bounds
                # themselves are the expected context; anything computed from the value by a call is not
                def expected(a):
                    vs = set(t[1] for t in list(subterms(a[1])) + list(subterms(a[2])) if isinstance(t, tuple) and t and t[0] == "v")
                    if any(isinstance(t, tuple) and t and t[0] == "call" for t in list(subterms(a[1])) + list(subterms(a[2]))):
                        return False
                    if vs <= {"eptr", "s", "trailing"}:
                        return True                     # the numeral's shape
                    return "val" in vs and len(vs) == 2 and vs <= {"val", "min", "max", "typemax"}      # the other bound tests of the chain
                narrowing = [a for a in ctx if not expected(a)]
                if set(_canon(a) for a in want) == d and _canon(("!=", V("eptr"), V("s"))) in ctx and not narrowing:
                    ok = True
                    break
        rep.check(ok, "S2-sibling", "%s: ERANGE on val < min || val > max%s, only for a well-formed numeral" % (name, " || val > typemax" if has_typemax else ""),
                  rs[0].where if rs else f.loc, "edges into the store: %s" % sorted(map(str, d)), function=name, construct="erange")
        rets = [strip_ids(norm(r.kid(0))) for r in f.returns()]
        rep.check(rets == [V("val")], "S2-sibling", "%s returns the converted value" % name, f.loc, "%s" % rets, function=name, construct="ret")
        # the conversion's own verdict survives: strto* report a numeral beyond the widest type by saturating and setting ERANGE;
        # these functions add verdicts (EINVAL, ERANGE) and never take one away
        other = sorted(k for k in stores if k not in (EINVAL, ERANGE))
        rep.check(not other, "S2-sibling", "%s stores only EINVAL or ERANGE into errno" % name, (stores[other[0]][0].where if other else f.loc),
                  "errno = %s: a verdict the conversion itself has set (ERANGE for a numeral beyond the widest type, reported by saturation) would be erased" % other,
                  function=name, construct="errno-values")
    # the macro clears errno before the conversion and reports errno != 0
    n = 0
    for f in host.funcs:
        for c in f.calls(tuple(spec)):
            if not any(m.startswith("PARSENUM") for m in c.macro):
                continue
            clears = [e for e in f.all_elems() if e.is_assign and e.op == "=" and norm(e.kid(0)) == ERRNO and norm(e.kid(1)) == Z and e.loc == c.loc.rsplit(":", 2)[0] + ":" + e.loc.split(":", 1)[1] if False] if False else \
                     [e for e in f.all_elems() if e.is_assign and e.op == "=" and norm(e.kid(0)) == ERRNO and norm(e.kid(1)) == Z and any(m.startswith("PARSENUM") for m in e.macro) and f.dominates(e, c)]
            if c.block.id not in f.reachable():
                continue    # the branch of the type dispatch that the constant base excludes
            n += 1
            rep.check(bool(clears), "S2-macro", "PARSENUM clears errno before %s in %s" % (c.callee, f.name), c.where, "", function=f.name, construct="errno-clear")
    if n < 2:
        rep.defer_broken("S2: fewer than 2 PARSENUM expansions in %s" % host.path)


def s3(prog, rep):
    f = prog.func("util/humansize.c", "humansize_parse")
    if not rep.names(f, "state", "multiplier"):
        return
    sz = ("*", ("v", f.params[1]["name"], f.params[1]["id"]))
    n = 0
    for e in f.all_elems():
        if e.is_assign and e.op in ("*=", "+=") and norm(e.kid(0)) == sz:
            n += 1
            y = norm(e.kid(1))
            want = (">", sz, ("/" if e.op == "*=" else "-", ("c", U64MAX), y))
            if y[0] == "c":
                want = (">", sz, ("c", U64MAX // y[1] if e.op == "*=" else U64MAX - y[1]))
            ok = False
            for cond, truth in f.edge_conds(e):
                for op, L, R, _, _ in cond_atoms(cond, truth):
                    if (op, L, R) == ("<=", want[1], want[2]):
                        ok = True
            rep.check(ok, "S3-arith", "%s in humansize_parse" % e.text[:40], e.where,
                      "must be reached only on the false edge of %s > UINT64_MAX %s %s" % (show(sz), "/" if e.op == "*=" else "-", show(y)),
                      function=f.name, construct="overflow-guard:" + e.op)
    if n < 3:
        rep.defer_broken("S3: fewer than 3 accumulations into *size")
    # ... and the other edge of each of those tests rejects: the state becomes the error state (the value the final
    # `state == E ? -1 : 0` answers -1 for) before anything else happens
    err = None
    for r in f.returns():
        for t in subterms(norm(r.kid(0))) if r.kids else ():
            if isinstance(t, tuple) and len(t) == 3 and t[0] in ("==", "!=") and t[1][0] == "v" and t[1][1] == "state" and t[2][0] == "c":
                err = t[2]
    if err is None:
        for b in f.blocks.values():
            if b.cond is not None and any(e.cls == "ReturnStmt" for x in b.succs if x is not None for e in f.blocks[x].elems):
                for op, L, R, _, _ in cond_atoms(b.cond, True):
                    if L[0] == "v" and L[1] == "state" and R[0] == "c" and op in ("==", "!="):
                        err = R
    m = 0
    for b in f.blocks.values():
        if b.cond is None or len(b.succs) != 2:
            continue
        for op, L, R, _, _ in cond_atoms(b.cond, True):
            if op == ">" and L == sz and R[0] in ("/", "-", "c") and (R[0] != "c" or R[1] > 2 ** 32):
                m += 1
                t = f.blocks[b.succs[0]] if b.succs[0] is not None else None
                first = None
                hops = 0
                while t is not None and first is None and hops < 4:
                    hops += 1
                    for e in t.elems:
                        if e.is_assign or e.cls == "CallExpr":
                            first = e
                            break
                    if first is None:
                        t = f.blocks[t.succs[0]] if len(t.succs) == 1 and t.succs[0] is not None else None
                ok = err is not None and first is not None and first.is_assign and first.op == "=" and norm(first.kid(0))[0] == "v" and norm(first.kid(0))[1] == "state" and norm(first.kid(1)) == err
                # ... and stays rejected: until the state is next tested against E, nothing stores another state over it
                over = None
                if ok:
                    seen, work = set(), [(first.block.id, first.i + 1)]
                    while work and over is None:
                        nb, start = work.pop()
                        if (nb, start) in seen:
                            continue
                        seen.add((nb, start))
                        blk = f.blocks[nb]
                        for e in blk.elems[start:]:
                            if e.is_assign and norm(e.kid(0))[0] == "v" and norm(e.kid(0))[1] == "state" and not (e.op == "=" and norm(e.kid(1)) == err):
                                over = e
                                break
                        if over is not None:
                            break
                        if blk.cond is not None and any(L[0] == "v" and L[1] == "state" and R == err for op, L, R, _, _ in cond_atoms(blk.cond, True)):
                            continue
                        if any(e.cls == "ReturnStmt" for e in blk.elems):
                            continue
                        work.extend((x, 0) for x in blk.succs if x is not None)
                    if over is not None:
                        ok = False
                rep.check(ok, "S3-arith", "overflow at `%s` rejects the string" % b.cond.text[:40], b.cond.where,
                          "on the edge where the value no longer fits, the first effect must be state = %s (the state the function answers -1 for); found `%s`"
                          % (show(err) if err else "?", (first.text[:40] if first is not None else "nothing") + ((", overwritten by `%s` at line %d before the state is tested" % (over.text[:30], over.line)) if over is not None else "")),
                          function=f.name, construct="overflow-rejects")
                break
    if m < 3:
        rep.defer_broken("S3: fewer than 3 overflow tests on *size")
    # switch coverage
    sw = [b for b in f.blocks.values() if b.term_cls == "SwitchStmt" and norm(b.cond) == ("v", "state", norm(b.cond)[2] if len(norm(b.cond)) > 2 else 0)]
    cases = set()
    for b in sw:
        for s in b.succs:
            if s is not None:
                cases |= set(f.blocks[s].case_values())
    rep.check(cases == {-1, 0, 1, 2, 3, 4, 5}, "S3-states", "state switch covers -1..5", f.loc, "cases %s" % sorted(cases), function=f.name, construct="states")
    # SI prefixes: number of x1000 steps from each case label to the break
    sw2 = [b for b in f.blocks.values() if b.term_cls == "SwitchStmt" and norm(b.cond) != norm(sw[0].cond)] if sw else []
    powers = {}
    for b in sw2:
        for s in b.succs:
            if s is None:
                continue
            for cv in f.blocks[s].case_values():
                cnt = 0
                cur = f.blocks[s]
                hops = 0
                while cur is not None and hops < 12:
                    hops += 1
                    for e in cur.elems:
                        if e.is_assign and e.op == "*=" and norm(e.kid(0))[0] == "v" and norm(e.kid(0))[1] == "multiplier" and norm(e.kid(1)) == ("c", 1000):
                            cnt += 1
                    nxt = [x for x in cur.succs if x is not None]
                    if len(nxt) != 1 or not f.blocks[nxt[0]].case_values():
                        break
                    cur = f.blocks[nxt[0]]
                powers[chr(cv)] = cnt
    rep.check(powers == {"E": 6, "P": 5, "T": 4, "G": 3, "M": 2, "k": 1}, "S3-prefix", "SI prefixes multiply by 1000^k", f.loc, "steps %s" % powers,
              function=f.name, construct="prefix-powers")
    # digit tests are exactly '0' <= c <= '9'
    digit = set()
    for b in f.blocks.values():
        if b.cond is None:
            continue
        for op, L, R, _, _ in cond_atoms(b.cond, True):
            for (o, x, y) in ((op, L, R),):
                if x == ("*", ("v", f.params[0]["name"], f.params[0]["id"])) and y[0] == "c" and y[1] in (ord("0"), ord("9")):
                    digit.add((o, chr(y[1])))
                if y == ("*", ("v", f.params[0]["name"], f.params[0]["id"])) and x[0] == "c" and x[1] in (ord("0"), ord("9")):
                    digit.add(({"<=": ">=", ">=": "<=", "<": ">", ">": "<"}.get(o, o), chr(x[1])))
    digit = set(d for d in digit if d[1] in "09")
    rep.check(digit == {("<", "0"), (">", "9"), (">=", "0"), ("<=", "9")}, "S3-states", "digits are '0'..'9'", f.loc, "tests %s" % sorted(digit), function=f.name, construct="digit-range")
    # the digit value added is *s - '0'
    adds = [e for e in f.all_elems() if e.is_assign and e.op == "+=" and norm(e.kid(0)) == sz]
    ok = bool(adds) and all(strip_ids(norm(a.kid(1))) == ("-", ("*", ("v", f.params[0]["name"])), ("c", ord("0"))) for a in adds)
    rep.check(ok, "S3-arith", "digit value is *s - '0'", f.loc, "", function=f.name, construct="digit-value")
    # result: -1 iff the error state
    rets = [norm(r.kid(0)) for r in f.returns()]
    ok = len(rets) == 1 and rets[0][0] == "?:" and rets[0][1][0] == "==" and rets[0][1][2] == ("c", -1) and rets[0][2] == ("c", -1) and rets[0][3] == ("c", 0)
    rep.check(ok, "S3-states", "returns -1 exactly in the error state", f.loc, "%s" % [show(r) for r in rets], function=f.name, construct="result")


SI_POWER = {"k": 1, "M": 2, "G": 3, "T": 4, "P": 5, "E": 6}


def _spec_step(q, ch):
    """The documented grammar /[0-9]+ ?[kMGTPE]?B?/ as a deterministic automaton over characters; a state is (phase, power)."""
    ph, k = q
    c = chr(ch) if 0 < ch < 128 else None
    digit = c is not None and c in "0123456789"
    if ph == "start":
        return ("digits", 0) if digit else ("err", 0)
    if ph == "digits":
        if digit:
            return ("digits", 0)
        if c == " ":
            return ("space", 0)
    if ph in ("digits", "space"):
        if c in SI_POWER:
            return ("prefix", SI_POWER[c])
    if ph in ("digits", "space", "prefix"):
        if c == "B":
            return ("B", k)
    return ("err", 0)


def s3_grammar(prog, rep, memory_rule=None):
    """humansize_parse accepts exactly the documented language and applies exactly the prefix's power of 1000: the function's state
    machine is extracted from its control-flow graph by evaluating it over known values (sa/finite.py) -- one run per reachable
    (state, multiplier) configuration and input character, overflow guards taken as not firing -- and compared with the grammar's
    automaton by exploring the product of the two from the start: at every reachable pair, for every byte value, both accept or
    both reject at end of string, an accepted string leaves multiplier == 1000^k for the prefix seen, and the loop goes on
    exactly while characters remain and no error was found.  Exhaustive over strings (finite product), independent of how the
    states are numbered."""
    from .. import finite
    f = prog.func("util/humansize.c", "humansize_parse")
    if f is None:
        raise cdb.AnalysisBroken("anchor missing: humansize_parse")
    if not rep.names(f, "state", "multiplier", "s", "size"):
        return
    types = f.unit.types
    tracked = {}
    ids = {}
    for e in f.all_elems():
        if e.cls == "DeclStmt":
            for d in e.decls or []:
                if isinstance(d, dict) and d.get("kind") == "local":
                    t = types.get(d.get("ty")) or {}
                    if t.get("kind") in ("int", "enum", "bool") and t.get("size"):
                        tracked[("v", d["name"], d["id"])] = (bool(t.get("signed", True)), 8 * t["size"])
                        ids[d["name"]] = ("v", d["name"], d["id"])
    sp = ("v", f.params[0]["name"], f.params[0]["id"])
    CH = ("*", sp)
    cht = types.get((types.get(f.params[0]["ty"]) or {}).get("pointee")) or {}
    ch_signed = bool(cht.get("signed", True))
    tracked[CH] = (ch_signed, 8)
    if "state" not in ids or "multiplier" not in ids:
        raise cdb.AnalysisBroken("humansize_parse: state / multiplier are no longer integer locals")
    szterm = ("*", ("v", f.params[1]["name"], f.params[1]["id"]))
    steps = [e for e in f.all_elems() if e.is_incdec and norm(e.kid(0)) == sp]
    moves = [e for e in f.all_elems() if e.is_assign and norm(e.kid(0)) == sp]
    if not steps or moves or not all(e.op.endswith("++") for e in steps):
        rep.defer_broken("humansize_parse no longer advances its cursor one byte at a time: the machine cannot be extracted")
        return

    def choose(cond, env):
        # a test of the accumulated value is an overflow guard: the grammar is what is accepted when none fires
        return False if any(t == szterm for t in subterms(norm(cond))) else None
    # reads through the cursor: all of the form *s (the machine looks at the current character only), and none once the
    # cursor has been advanced past the terminator
    PAST = ("$past-terminator",)
    past_reads = []
    offs = [e for e in f.all_elems() if e.cls in ("UnaryOperator", "ArraySubscriptExpr") and (e.cls != "UnaryOperator" or e.op == "*")
            and root_var(norm(e)) is not None and root_var(norm(e))[1:] == sp[1:] and norm(e) != CH]
    if offs:
        raise cdb.AnalysisBroken("humansize_parse reads through its cursor at an offset (%s): the one-character machine model does not apply" % show(norm(offs[0])))

    def watch(e, env):
        if env.get(PAST) and norm(e) == CH and e.cls in ("UnaryOperator", "ImplicitCastExpr"):
            past_reads.append(e)
    W = finite.Walker(f, tracked, lambda e: any(e is x for x in steps), choose, watch=watch)

    def cfg_of(env):
        return tuple(sorted((k[1], v) for k, v in env.items() if k != CH and k[0] == "v"))

    def run_from(block, index, env, ch):
        env = dict(env)
        env[CH] = ch
        try:
            return W.run(block, index, env)
        except finite.Budget:
            raise cdb.AnalysisBroken("humansize_parse: the evaluation of one step did not finish within its budget")
    alphabet = [c for c in (range(-128, 128) if ch_signed else range(0, 256)) if c != 0]
    bad = []
    npairs = 0

    def note(msg):
        if len(bad) < 4:
            bad.append(msg)

    def after_step(o):
        """Where and in which state the function continues after the advance it stopped at."""
        st = o[1]
        return dict(o[2]), st.block.id, st.block.elems.index(st) + 1
    # first character (possibly the terminator: the empty string)
    start = {k: None for k in tracked}
    outs0 = run_from(f.entry, 0, start, 0)
    for o in outs0:
        if o[0] == "stop":
            # the cursor now points past the terminator: what is there is not the string's, and must not be looked at
            e2, bid, i = after_step(o)
            e2[PAST] = 1
            for o2 in run_from(bid, i, e2, None):
                if not (o2[0] == "ret" and o2[1] == -1):
                    note("the empty string is not rejected")
        elif not (o[0] == "ret" and o[1] == -1):
            note("the empty string is not rejected")
    seen = set()
    work = []
    for c in alphabet:
        for o in run_from(f.entry, 0, start, c):
            if o[0] != "stop":
                note("a return is reached before the first character %r was consumed" % chr(c & 255))
                continue
            work.append((o, _spec_step(("start", 0), c), chr(c & 255)))
    err = -1
    while work and not (len(bad) >= 4):
        o0, q, word = work.pop(0)
        env = o0[2]
        key = (cfg_of(env), o0[1].pos, q)
        if key in seen:
            continue
        seen.add(key)
        npairs += 1
        if npairs > 4000:
            note("more than 4000 (configuration, grammar state) pairs are reachable: the machine is not the finite one documented (after %r)" % word)
            break
        e2, bid, i = after_step(o0)
        # end of string here
        for o in run_from(bid, i, e2, 0):
            if o[0] != "ret":
                note("after %r the terminator does not end the loop" % word)
                continue
            want = 0 if q[0] != "err" else -1
            if o[1] != want:
                note("%r is %s but the grammar %s it" % (word, "accepted" if o[1] == 0 else "rejected", "accepts" if want == 0 else "rejects"))
            elif want == 0 and o[2].get(ids["multiplier"]) != 1000 ** q[1]:
                note("%r leaves multiplier == %s, expected 1000^%d" % (word, o[2].get(ids["multiplier"]), q[1]))
        # one more character
        for c in alphabet:
            q2 = _spec_step(q, c)
            for o in run_from(bid, i, e2, c):
                if o[0] == "ret":
                    # the loop gave up before the end of the string: fine only if nothing that follows could be accepted
                    if o[1] != -1 or q[0] != "err":
                        note("after %r the loop stops although %r follows (result %s)" % (word, chr(c & 255), o[1]))
                    continue
                work.append((o, q2, word + chr(c & 255)))
    if memory_rule is not None:
        ends = [m for m in bad if "terminator does not end the loop" in m or "empty string" in m]
        rep.check(not past_reads and not ends, memory_rule, "humansize_parse looks at no byte after its string's terminator", f.loc,
                  ("*s is read at %s after the cursor was advanced past the terminator" % past_reads[0].loc) if past_reads else
                  ("; ".join(ends) if ends else "%d reachable configurations x %d byte values: the cursor advances one byte per step, every read is of the "
                   "current byte, the terminator ends the loop, and after the empty string's terminator nothing is read" % (npairs, len(alphabet))),
                  function=f.name, construct="strread:humansize_parse")
        return
    rep.check(not bad, "S3-grammar", "humansize_parse accepts exactly /[0-9]+ ?[kMGTPE]?B?/ and multiplies by 1000^k", f.loc,
              "; ".join(bad) if bad else "%d reachable (configuration, grammar state) pairs x %d byte values explored" % (npairs, len(alphabet)),
              function=f.name, construct="grammar")
    if not bad and npairs < 5:
        raise cdb.AnalysisBroken("S3-grammar explored only %d pairs: the extraction has lost the machine" % npairs)


def _load_inst():
    """CFG facts of fixtures/parsenum_inst.c (generic instantiations of the macros) against the repository's current parsenum.h."""
    import json, os, subprocess
    src = os.path.join(cdb.VERIF, "fixtures", "parsenum_inst.c")
    out = os.path.join(cdb.workdir(), "fixture-parsenum.json")
    hdr = os.path.join(cdb.REPO, "util", "parsenum.h")
    if not os.path.exists(hdr):
        raise cdb.AnalysisBroken("util/parsenum.h is gone")
    r = subprocess.run([cdb.CFGX, src, "-o", out, "--", "-std=c99", "-D_POSIX_C_SOURCE=200809L", "-I" + os.path.join(cdb.REPO, "util")],
                       capture_output=True, text=True, cwd=os.path.dirname(src))
    if r.returncode != 0 or not os.path.exists(out):
        raise cdb.AnalysisBroken("the generic instantiations of PARSENUM no longer compile against util/parsenum.h: %s" % (r.stderr or r.stdout)[-300:])
    with open(out) as fh:
        return ir.Unit("fixtures/parsenum_inst.c", json.load(fh), os.path.dirname(src))


def s2_macro_inst(rep):
    """The PARSENUM macros themselves, on instantiations whose bounds are not literals (fixtures/parsenum_inst.c), so that no arm
    is pruned: errno is cleared before any conversion; the conversion is chosen by the target's kind (float: halving 1 leaves a
    fraction; signed: -1 stays negative; else unsigned, with the target's maximum as type limit); no later store replaces a
    verdict already in errno (a store after the conversion happens only where errno == 0); a negative upper bound for an unsigned
    target is out of range, not converted to a huge one; and the macro's value is errno != 0."""
    u = _load_inst()
    Z = ("c", 0)
    kinds = {"inst_unsigned_sbounds": "unsigned", "inst_unsigned_ubounds": "unsigned", "inst_signed": "signed", "inst_float": "float",
             "inst_unsigned_nobounds": "unsigned", "inst_float_nobounds": "float", "inst_plain4": "unsigned", "inst_plain2": "unsigned"}
    conv_of = {"unsigned": "parsenum_unsigned", "signed": "parsenum_signed", "float": "parsenum_float"}
    for name, kind in kinds.items():
        f = u.func(name)
        if f is None:
            raise cdb.AnalysisBroken("fixture function %s missing" % name)
        x = ("*", ("v", f.params[0]["name"], f.params[0]["id"]))
        convs = [c for c in f.calls(tuple(conv_of.values())) if c.block.id in f.reachable()]
        clears = [e for e in f.all_elems() if e.is_assign and e.op == "=" and norm(e.kid(0)) == ERRNO and norm(e.kid(1)) == Z]
        ok = len(clears) == 1 and bool(convs) and all(f.dominates(clears[0], c) for c in convs) and not f.edge_conds(clears[0])
        rep.check(ok, "S2-macro", "%s: errno is cleared, unconditionally, before any conversion" % name, f.loc, "", function=name, construct="errno-clear")
        # dispatch: the macro cannot name the target's type, it probes it (halving 1 leaves a fraction only in a float; -1 stays
        # negative only in a signed type).  Evaluated here for this instantiation's target type (sa/finite.py): whatever the
        # other arguments, the only conversion reached is the one for this kind of target
        from .. import finite
        pt = f.unit.types.get((f.unit.types.get(f.params[0]["ty"]) or {}).get("pointee")) or {}
        if pt.get("kind") in ("float", "double", "real"):
            model = "float"
        elif pt.get("kind") in ("int", "enum", "bool") and pt.get("size"):
            model = (bool(pt.get("signed")), 8 * pt["size"])
        else:
            raise cdb.AnalysisBroken("fixture %s: target type %s not understood" % (name, pt))
        W = finite.Walker(f, {x: model}, lambda e: e.cls == "CallExpr" and e.callee in conv_of.values())
        try:
            outs = W.run(f.entry, 0, {x: None})
        except finite.Budget:
            raise cdb.AnalysisBroken("fixture %s: evaluation did not finish" % name)
        reached = sorted(set(o[1].callee for o in outs if o[0] == "stop"))
        early = [o for o in outs if o[0] == "ret"]
        rep.check(reached == [conv_of[kind]] and not early, "S2-macro", "%s: a %s target is converted by %s and nothing else" % (name, kind, conv_of[kind]), f.loc,
                  "conversions reached for this target type: %s%s" % (reached, "; the macro can also finish without converting" if early else ""),
                  function=name, construct="dispatch")
        # unsigned: the type limit handed over is the target's all-ones value
        for c in convs:
            if c.callee == "parsenum_unsigned":
                rep.check(norm(c.arg(3)) == x, "S2-macro", "%s: parsenum_unsigned is given *x (set to -1) as the type limit" % name, c.where,
                          "type limit %s" % show(norm(c.arg(3))), function=name, construct="typemax")
        # the forms that take no bounds impose none: every value of the target's type is in range
        if name.endswith("nobounds") or name == "inst_plain2":
            INF = ("__builtin_inf", "__builtin_inff", "__builtin_infl", "__builtin_huge_val", "__builtin_huge_valf")
            def is_inf(t, neg):
                while t[0] == "cast":
                    t = t[-1]
                if neg:
                    return t[0] == "u-" and is_inf(t[1], False)
                return t[0] == "call" and t[1] in INF
            for c in convs:
                lo, hi = norm(c.arg(1)), norm(c.arg(2))
                if c.callee == "parsenum_float":
                    okb = is_inf(lo, True) and is_inf(hi, False)
                elif c.callee == "parsenum_signed":
                    okb = lo == ("c", -(2 ** 63)) and hi == ("c", 2 ** 63 - 1)
                else:
                    okb = lo == Z and hi == x
                rep.check(okb, "S2-macro", "%s: without bounds, %s is given the widest range there is" % (name, c.callee), c.where,
                          "bounds %s .. %s" % (show(lo), show(hi)), function=name, construct="nobounds")
        # stores to errno after the conversions
        late = [e for e in f.all_elems() if e.is_assign and norm(e.kid(0)) == ERRNO and e not in clears]
        for e in late:
            g = set()
            for cond, truth in f.edge_conds(e):
                for op, L, R, _, _ in cond_atoms(cond, truth):
                    g.add((op, strip_ids(L), R))
            okl = ("==", strip_ids(ERRNO), Z) in g and norm(e.kid(1)) == ("c", ERANGE)
            rep.check(okl, "S2-macro", "%s: a store to errno after the conversion happens only where errno == 0, and stores ERANGE" % name, e.where,
                      "guards %s" % sorted(map(str, g)), function=name, construct="late-store")
        if name in ("inst_unsigned_sbounds", "inst_plain4"):
            mx = ("v", f.params[3]["name"])
            neg = [e for e in late if any(op == "<" and L == mx and R == Z for cond, truth in f.edge_conds(e) for op, L, R, _, _ in [(o, strip_ids(l), r) + (None, None) for o, l, r, _, _ in cond_atoms(cond, truth)])]
            rep.check(len(neg) == 1, "S2-macro", "%s: a negative upper bound for an unsigned target is out of range (ERANGE), not converted" % name, f.loc,
                      "%d such stores" % len(neg), function=name, construct="negative-max")
            for c in convs:
                if c.callee == "parsenum_unsigned":
                    mn = ("v", f.params[2]["name"], f.params[2]["id"])
                    a1 = norm(c.arg(1))
                    vals = [(v, finite.ev(a1, {mn: v})) for v in (-(2 ** 63), -5, -1, 0, 1, 9, 2 ** 63 - 1)]
                    okm = all(got == max(v, 0) for v, got in vals)
                    rep.check(okm, "S2-macro", "%s: a negative lower bound for an unsigned target is clamped to 0, others are passed on" % name, c.where,
                              "%s evaluates to %s" % (show(a1), vals), function=name, construct="min-clamp")
        # the macro's value
        rets = list(f.returns())
        v = norm(rets[0].kid(0)) if len(rets) == 1 else None
        while v is not None and v[0] == ",":
            v = v[-1]
        rep.check(v is not None and strip_ids(v) == ("!=", strip_ids(ERRNO), Z), "S2-macro", "%s: the macro's value is errno != 0" % name, f.loc,
                  show(v) if v else "", function=name, construct="value")


def run(tier):
    rep = report.Report("C16", tier,
        "Decided (necessary conditions): every unsigned text-to-integer conversion inspects the sign (S1); the three parsenum siblings "
        "share the same decision structure -- one conversion, EINVAL exactly on 'no digits or unwanted trailing characters', otherwise "
        "ERANGE on the bound tests, errno cleared first (S2); humansize_parse accumulates only behind overflow guards, covers its "
        "states, maps SI prefixes to the right powers of 1000 and takes only '0'..'9' as digits (S3); its state machine, extracted from the CFG by "
        "evaluation over known values, accepts exactly /[0-9]+ ?[kMGTPE]?B?/ and leaves multiplier == 1000^k (S3-grammar: product with the "
        "documented automaton over all byte values -- decided for all strings); the PARSENUM macros on generic instantiations (S2-macro: errno "
        "cleared first, conversion selected by the type probes evaluated in the target's type, type limit, clamped lower bound, negative upper "
        "bound, no verdict overwritten, value errno != 0); humansize() prints within its documented digit forms (S4). Not decided: "
        "floating-point rounding, libc's conversions themselves.",
        trusted=["strtod/strtoimax/strtoumax semantics of libc"])
    prog = ir.Program(["util/humansize.c", "util/sock.c", "http/http.c"], cdb.HOST)
    rep.add_stats(prog)
    s1(prog, rep)
    s2(prog, rep)
    s2_macro_inst(rep)
    s3(prog, rep)
    s3_grammar(prog, rep)
    s4_format(prog, rep)
    rep.require_min("S1-sign", 1)
    rep.require_min("S2-sibling", 12)
    rep.require_min("S3-arith", 4)
    return rep
