"""C03 — every CPU-accelerated path computes the same function: dispatch safety.

G1  guarded dispatch: every use (call or address-taken) of a function defined in
    an ISA-flagged unit from portably compiled code is control-dependent on
    hwaccel == <that routine's selector>, or on the run-time CPU test itself, or
    sits in a self-test helper reachable only from the check operand of
    CPUSUPPORT_VALIDATE
G2  validated selection: an accelerated selector is stored into hwaccel only
    behind the run-time test of every feature its unit is compiled for AND a
    self-test returning 0 whose call tree contains the routine being enabled;
    every dispatcher initialises the selection before it tests it
G3  threshold => precondition: the dispatcher's length guard implies the
    accelerated routine's requirement (len >= 8; at least one whole block)
G4  build-flag audit: ISA flags appear only on the accelerated units' rules; an
    intrinsics unit defines nothing when its feature macro is absent; siblings
    that dispatch on one selector (expand / encrypt / free) test the same value
Equality of accelerated and portable results over all inputs is NOT decided
here; it is delegated to the library's own run-time self-test, whose presence
and wiring G2 verifies.
"""
import re
from .. import cdb, ir, report
from ..ir import norm, show, root_var, subterms
from ..dataflow import cond_atoms, Solver

# accelerated unit -> (dispatcher unit, selector enum constant, run-time feature tests required)
ACCEL = {
    "alg/sha256_shani.c": ("alg/sha256.c", "HW_X86_SHANI"),
    "alg/sha256_sse2.c": ("alg/sha256.c", "HW_X86_SSE2"),
    "alg/crc32c_sse42.c": ("alg/crc32c.c", "HW_X86_CRC32"),
    "crypto/crypto_aes_aesni.c": ("crypto/crypto_aes.c", "HW_X86_AESNI"),
    "crypto/crypto_aesctr_aesni.c": ("crypto/crypto_aesctr.c", "HW_X86_AESNI"),
    "crypto/crypto_entropy_rdrand.c": ("crypto/crypto_entropy.c", None),
}
FEATURE_OF_FLAG = {"CFLAGS_X86_SHANI": "shani", "CFLAGS_X86_SSSE3": "ssse3", "CFLAGS_X86_SSE2": "sse2", "CFLAGS_X86_SSE42": "sse42",
                   "CFLAGS_X86_SSE42_64": "sse42", "CFLAGS_X86_AESNI": "aesni", "CFLAGS_X86_RDRAND": "rdrand"}
PORTABLE = ["alg/sha256.c", "alg/crc32c.c", "crypto/crypto_aes.c", "crypto/crypto_aesctr.c", "crypto/crypto_entropy.c"]


def accelerated_functions(prog):
    out = {}
    for up in ACCEL:
        if up not in prog.units:
            continue
        for f in prog.units[up].funcs:
            if f.file == up and not f.static:
                out[f.name] = up
    return out


def selector_atoms(f, elem):
    """Selector values established on the edges dominating elem: from `hwaccel == K` tests and switch cases on hwaccel."""
    vals = set()
    cpu = set()
    for cond, truth in f.edge_conds(elem):
        for op, L, R, _, _ in cond_atoms(cond, truth):
            if L[0] == "v" and L[1] == "hwaccel" and R[0] == "c" and op == "==":
                vals.add(R[1])
            if L[0] == "call" and L[1].startswith("cpusupport_") and R == ("c", 0) and op == "!=":
                cpu.add(L[1])
    # switch (hwaccel) { case K: ... }
    dom = f.dominators()
    for b in f.blocks.values():
        if b.term_cls == "SwitchStmt" and b.cond is not None and norm(b.cond)[0] == "v" and norm(b.cond)[1] == "hwaccel" and b.id in dom.get(elem.block.id, ()):
            for s in b.succs:
                if s is None:
                    continue
                sb = f.blocks[s]
                if sb.case_values() and (s == elem.block.id or (s in dom.get(elem.block.id, ()))):
                    vals.add(sb.case_values()[0])
    return vals, cpu


def validate_sites(f):
    """[(stored value, set of cpusupport tests, self-test call elem, store elem)] for each accelerated store to hwaccel."""
    out = []
    for e in f.all_elems():
        if e.is_assign and e.op == "=" and norm(e.kid(0))[0] == "v" and norm(e.kid(0))[1] == "hwaccel":
            v = norm(e.kid(1))
            cpu = set()
            tests = []
            for cond, truth in f.edge_conds(e):
                for op, L, R, Le, _ in cond_atoms(cond, truth):
                    if L[0] == "call" and L[1].startswith("cpusupport_") and R == ("c", 0) and op == "!=":
                        cpu.add(L[1])
                    if L[0] == "call" and not L[1].startswith("cpusupport_") and R == ("c", 0) and op == "==":
                        tests.append(Le.strip() if Le is not None else None)
                    if L[0] == "call" and L[1] == "crypto_aes_can_use_intrinsics":
                        tests.append(("intrinsics", op, R))
            out.append((v, cpu, tests, e))
    # switch-based selection (crypto_aesctr.c)
    return out


def call_tree(prog, f, depth=4, seen=None):
    """Names of functions called or referenced (address taken) from f, transitively within the program."""
    seen = seen if seen is not None else set()
    if depth == 0 or (f.unit.path, f.name) in seen:
        return set()
    seen.add((f.unit.path, f.name))
    out = set()
    for e in f.all_elems():
        n = None
        if e.cls == "CallExpr" and e.callee:
            n = e.callee
        elif e.cls == "DeclRefExpr" and e.decl and e.decl.get("kind") == "func":
            n = e.decl["name"]
        if n:
            out.add(n)
            g = prog.resolve(f, n)
            if g is not None:
                out |= call_tree(prog, g, depth - 1, seen)
    return out


def g1_g2(prog, rep, enums_by_unit, min_uses=10):
    acc = accelerated_functions(prog)
    rules = dict(cdb.makefile_rules(prog.repo))
    nuse = 0
    for up in PORTABLE:
        u = prog.unit(up)
        hw = u.func("hwaccel_init")
        # helpers reachable only from the VALIDATE check operand
        helper_names = set()
        if hw is not None:
            for e in hw.all_elems():
                if "CPUSUPPORT_VALIDATE" in e.macro and e.cls == "DeclRefExpr" and e.decl and e.decl.get("kind") == "func":
                    g = u.func(e.decl["name"])
                    if g is not None and g.file == up and g.static:
                        helper_names.add(g.name)
            # close over static helpers they call / reference
            changed = True
            while changed:
                changed = False
                for hn in list(helper_names):
                    g = u.func(hn)
                    for e in g.all_elems():
                        if e.cls == "DeclRefExpr" and e.decl and e.decl.get("kind") == "func":
                            h = u.func(e.decl["name"])
                            if h is not None and h.static and h.file == up and h.name not in helper_names and h.name != "hwaccel_init":
                                helper_names.add(h.name)
                                changed = True
            # a helper must not be used from anywhere outside the self-test
            for hn in sorted(helper_names):
                users = set()
                for g in u.funcs:
                    if g.file != up:
                        continue
                    for e in g.all_elems():
                        if e.cls == "DeclRefExpr" and e.decl and e.decl.get("name") == hn and e.decl.get("kind") == "func":
                            if g.name == "hwaccel_init" and "CPUSUPPORT_VALIDATE" in e.macro:
                                continue
                            if g.name in helper_names:
                                continue
                            users.add(g.name)
                if users:
                    # used elsewhere (e.g. the portable transform itself): then it is not a self-test-only helper
                    helper_names.discard(hn)
        sel = enums_by_unit.get(up, {})
        for f in u.funcs:
            if f.file != up:
                continue
            for e in f.all_elems():
                name = None
                if e.cls == "CallExpr" and e.callee in acc:
                    name = e.callee
                elif e.cls == "DeclRefExpr" and e.decl and e.decl.get("kind") == "func" and e.decl["name"] in acc:
                    # address taken (passed to the self-test) -- calls are handled through their CallExpr
                    par_is_call = any(c.cls == "CallExpr" and c.kid(0) is not None and c.kid(0).strip() is e for c in f.all_elems() if c.cls == "CallExpr")
                    if par_is_call:
                        continue
                    name = e.decl["name"]
                if name is None:
                    continue
                nuse += 1
                aunit = acc[name]
                want_sel = ACCEL[aunit][1]
                vals, cpu = selector_atoms(f, e)
                ok = False
                why = ""
                if want_sel is not None and sel.get(want_sel) is not None and sel[want_sel] in vals:
                    ok = True
                    why = "hwaccel == %s" % want_sel
                elif f.name in helper_names:
                    ok = True
                    why = "self-test helper reachable only from CPUSUPPORT_VALIDATE's check"
                elif f.name == "hwaccel_init" and "CPUSUPPORT_VALIDATE" in e.macro:
                    need = set("cpusupport_x86_" + FEATURE_OF_FLAG[v] for v in rules.get(aunit, []) if v in FEATURE_OF_FLAG)
                    ok = need <= cpu
                    why = "inside the self-test, behind %s" % sorted(cpu)
                elif want_sel is None:
                    need = set("cpusupport_x86_" + FEATURE_OF_FLAG[v] for v in rules.get(aunit, []) if v in FEATURE_OF_FLAG)
                    # direct CPU test here, or in every caller of this static function
                    if need <= cpu:
                        ok = True
                    else:
                        callers = [(g, c) for g in u.funcs if g.file == up for c in g.calls(f.name)]
                        ok = bool(callers) and f.static and all(need <= selector_atoms(g, c)[1] for g, c in callers)
                    why = "behind the run-time CPU test"
                rep.check(ok, "G1-dispatch", "%s used in %s" % (name, f.name), e.where,
                          "an instruction-set specific routine may run only when selected (%s); selector values known here: %s, CPU tests: %s"
                          % (why or ("needs hwaccel == %s" % want_sel), sorted(vals), sorted(cpu)), function=f.name, construct="dispatch:" + name)
        # G2 selection
        if hw is None:
            continue
        stores = validate_sites(hw)
        for v, cpu, tests, e in stores:
            if v[0] != "c":
                rep.bad("G2-select", "hwaccel = %s" % show(v), e.where, "hwaccel is assigned something other than a selector constant", function="hwaccel_init", construct="select")
                continue
            name = next((k for k, val in sel.items() if val == v[1]), str(v[1]))
            if name in ("HW_SOFTWARE", "HW_UNSET"):
                continue
            aunits = [au for au, (du, s) in ACCEL.items() if du == up and s == name]
            if up == "crypto/crypto_aesctr.c":
                okx = any(t == ("intrinsics", "==", ("c", 1)) for t in tests) or _switch_case_of(hw, e, "crypto_aes_can_use_intrinsics") == 1
                rep.check(okx, "G2-select", "hwaccel = %s in %s" % (name, up), e.where,
                          "the AES-CTR selection must follow crypto_aes_can_use_intrinsics() == 1 (which is validated in crypto_aes.c)", function="hwaccel_init", construct="select:" + name)
                continue
            need = set()
            for au in aunits:
                need |= set("cpusupport_x86_" + FEATURE_OF_FLAG[x] for x in rules.get(au, []) if x in FEATURE_OF_FLAG)
            cover = set()
            for t in tests:
                if hasattr(t, "cls") and t is not None and t.cls == "CallExpr":
                    g = prog.resolve(hw, t.callee)
                    if g is not None:
                        cover |= call_tree(prog, g)
                    for a in t.args:
                        if a is not None and norm(a)[0] == "fn":
                            cover.add(norm(a)[1])
                            g2 = prog.resolve(hw, norm(a)[1])
                            if g2 is not None:
                                cover |= call_tree(prog, g2)
            routines = set(n for n, au in accelerated_functions(prog).items() if au in aunits)
            rep.check(bool(aunits) and need <= cpu and bool(tests) and bool(cover & routines), "G2-select", "hwaccel = %s in %s" % (name, up), e.where,
                      "needs run-time tests %s (have %s) and a passing self-test that exercises the routine being enabled (self-test reaches: %s)"
                      % (sorted(need), sorted(cpu), sorted(cover & routines)), function="hwaccel_init", construct="select:" + name)
        # every other store to hwaccel in the unit
        for f in u.funcs:
            if f.file != up or f.name == "hwaccel_init":
                continue
            for e in f.all_elems():
                if (e.is_assign or e.is_incdec) and norm(e.kid(0))[0] == "v" and norm(e.kid(0))[1] == "hwaccel":
                    rep.bad("G2-select", "store to hwaccel in %s" % f.name, e.where, "the selector is written outside hwaccel_init", function=f.name, construct="foreign-store")
        # the decision is made once: nothing puts the selector back to "undecided" (objects created under one decision -- expanded
        # keys, contexts -- are used under whatever decision is current when they are used)
        if hw is not None and sel.get("HW_UNSET") is not None:
            for e in hw.all_elems():
                if e.is_assign and e.op == "=" and norm(e.kid(0))[0] == "v" and norm(e.kid(0))[1] == "hwaccel" and norm(e.kid(1)) == ("c", sel["HW_UNSET"]):
                    rep.bad("G2-select", "hwaccel = HW_UNSET in %s" % up, e.where,
                            "the selection is reset to undecided: a later call may select another implementation while objects built for the earlier one are still in use",
                            function="hwaccel_init", construct="selector-reset")
        # ... and hwaccel_init always decides: at each of its returns the selector is no longer "undecided" (a failed self-test that
        # leaves it undecided is run again by a later call, which may come to the other conclusion)
        if hw is not None and sel.get("HW_UNSET") is not None:
            unset = ("c", sel["HW_UNSET"])

            def _tr(st, e):
                if e.is_assign and e.op == "=" and norm(e.kid(0))[0] == "v" and norm(e.kid(0))[1] == "hwaccel":
                    return "decided" if norm(e.kid(1))[0] == "c" and norm(e.kid(1)) != unset else "maybe"
                return st

            def _rf(st, cond, kind):
                if kind in (True, False):
                    for op, L, R, _, _ in cond_atoms(cond, kind):
                        if L[0] == "v" and L[1] == "hwaccel" and R == unset and op == "!=":
                            return "decided"
                return st
            sv = Solver(hw, "maybe", _tr, _rf, lambda a, b: a if a == b else "maybe").run()
            st = sv.IN.get(hw.exit)
            rep.check(st in (None, "decided"), "G2-select", "hwaccel_init in %s returns with the selection made" % up, hw.loc,
                      "a path reaches the end of hwaccel_init with hwaccel still HW_UNSET: the self-tests are run again by the next call, "
                      "which may select another implementation while objects built for this one are in use", function="hwaccel_init", construct="undecided-return")
        # dispatchers initialise before testing
        for f in u.funcs:
            if f.file != up or f.name == "hwaccel_init" or f.static:
                continue
            tests_hw = [b for b in f.blocks.values() if b.cond is not None and any(t[0] == "v" and t[1] == "hwaccel" for t in subterms(norm(b.cond)))]
            if not tests_hw:
                continue
            inits = list(f.calls("hwaccel_init"))
            first = min(tests_hw, key=lambda b: b.cond.line)
            ok = any(f.dominates(i, first.cond) for i in inits)
            if ok:
                rep.ok("G2-init", "%s initialises the selection before testing it" % f.name, f.loc)
            else:
                # without initialisation the selector must default to a non-accelerated value, so the portable path runs
                g = u.global_("hwaccel")
                init = (g or {}).get("init") or {}
                dv = init.get("int")
                safe = dv is not None and dv in (sel.get("HW_UNSET"), sel.get("HW_SOFTWARE"))
                rep.check(safe, "G2-init", "%s tests hwaccel without initialising it: the static default must select the portable path" % f.name, f.loc,
                          "static initial value %s (HW_UNSET=%s, HW_SOFTWARE=%s)" % (dv, sel.get("HW_UNSET"), sel.get("HW_SOFTWARE")), function=f.name, construct="default-selector")
    if nuse < min_uses:
        rep.defer_broken("G1: fewer than %d uses of accelerated routines from portable code" % min_uses)


def _switch_case_of(f, elem, callee):
    dom = f.dominators()
    for b in f.blocks.values():
        if b.term_cls == "SwitchStmt" and b.cond is not None:
            n = norm(b.cond)
            if n[0] == "call" and n[1] == callee:
                for s in b.succs:
                    if s is not None and f.blocks[s].case_values() and (s == elem.block.id or s in dom.get(elem.block.id, ())):
                        return f.blocks[s].case_values()[0]
    return None


def g3(prog, rep):
    u = prog.unit("alg/crc32c.c")
    f = u.func("CRC32C_Update")
    cs = list(f.calls("CRC32C_Update_SSE42"))
    ok = len(cs) == 1
    if ok:
        ln = norm(cs[0].arg(2))
        ok = any(op == ">=" and L == ln and R[0] == "c" and R[1] >= 8 for cond, truth in f.edge_conds(cs[0]) for op, L, R, _, _ in cond_atoms(cond, truth))
    a = prog.unit("alg/crc32c_sse42.c").func("CRC32C_Update_SSE42")
    pre = None
    if a is not None:
        for b in a.blocks.values():
            if b.cond is not None and "assert" in b.cond.macro:
                for op, L, R, _, _ in cond_atoms(b.cond, True):
                    if op == ">=" and L[0] == "v" and L[1] == a.params[2]["name"] and R[0] == "c":
                        pre = R[1]
    rep.check(ok and (pre is None or pre <= 8), "G3-threshold", "CRC32C: dispatch guard len >= 8 implies the SSE4.2 routine's requirement (asserted len >= %s)" % pre, f.loc, "", function=f.name, construct="crc-threshold")
    u = prog.unit("crypto/crypto_aesctr.c")
    f = u.func("crypto_aesctr_stream")
    cs = list(f.calls("crypto_aesctr_aesni_stream"))
    ok = len(cs) == 1
    if ok:
        ln = norm(cs[0].arg(3))
        ok = any(op == ">=" and L == ln and R[0] == "c" and R[1] >= 16 for cond, truth in f.edge_conds(cs[0]) for op, L, R, _, _ in cond_atoms(cond, truth))
    rep.check(ok, "G3-threshold", "AES-CTR: the AES-NI stream is entered only with buflen >= 16", f.loc, "", function=f.name, construct="ctr-threshold")
    n = prog.unit("crypto/crypto_aesctr_aesni.c").func("crypto_aesctr_aesni_stream")
    if n is not None:
        wb = list(n.calls("crypto_aesctr_aesni_stream_wholeblocks"))
        ok = len(wb) == 1 and any(op == ">=" and R == ("c", 16) for cond, truth in n.edge_conds(wb[0]) for op, L, R, _, _ in cond_atoms(cond, truth))
        rep.check(ok, "G3-threshold", "the do-while whole-block loop (which runs at least once) is entered only with a whole block left", n.loc, "", function=n.name, construct="wholeblocks-pre")


def g4(prog, rep, tier):
    rules = cdb.makefile_rules(prog.repo)
    n = 0
    for unit, vars_ in rules:
        isa = [v for v in vars_ if v.startswith("CFLAGS_X86_") or v.startswith("CFLAGS_ARM_")]
        n += 1
        if unit in ACCEL or unit.endswith("_arm.c"):
            rep.check(bool(isa), "G4-flags", "%s is built with its instruction-set flags" % unit, "liball/Makefile", "%s" % isa, function=unit, construct="flags")
        else:
            rep.check(not isa, "G4-flags", "%s carries no instruction-set flags" % unit, "liball/Makefile",
                      "%s: the compiler could place such instructions in code that runs before the CPU check" % isa, function=unit, construct="flags")
    if n < 70:
        rep.defer_broken("G4: fewer than 70 Makefile rules")
    g4_siblings(prog, rep)
    if g4_exclusive(prog, rep) < 1:
        rep.defer_broken("G4: no accelerated case found in SHA256_Transform")


def g4_exclusive(prog, rep):
    """One transform per block: in SHA256_Transform a taken accelerated case ends the function.  After the call of an
    accelerated transform no path to the exit executes anything else -- a `break` for the `return` lets the portable rounds run
    on the state the accelerated code has already advanced (the block is absorbed twice; on a host where that case is never
    selected neither the suite nor the self-test can see it)."""
    if "alg/sha256.c" not in prog.units:
        return 0
    u = prog.unit("alg/sha256.c")
    f = u.func("SHA256_Transform")
    if f is None:
        raise cdb.AnalysisBroken("anchor missing: SHA256_Transform")
    acc = accelerated_functions(prog)
    n = 0
    for c in f.calls():
        if c.callee not in acc:
            continue
        n += 1
        after = [e for e in c.block.elems[c.i + 1:] if e.cls == "CallExpr" or e.is_assign or e.is_incdec]
        seen, work = set(), [x for x in c.block.succs if x is not None]
        if any(e.cls == "ReturnStmt" for e in c.block.elems[c.i + 1:]):
            work = []
        while work:
            nb = work.pop()
            if nb in seen:
                continue
            seen.add(nb)
            blk = f.blocks[nb]
            after += [e for e in blk.elems if e.cls == "CallExpr" or e.is_assign or e.is_incdec]
            if any(e.cls == "ReturnStmt" for e in blk.elems):
                continue
            work.extend(x for x in blk.succs if x is not None)
        rep.check(not after, "G4-siblings", "SHA256_Transform: after %s() the function returns" % c.callee, c.where,
                  "reachable after the accelerated transform: %s ... (the portable transform would absorb the same block again)" % [e.text[:30] for e in after[:3]],
                  function=f.name, construct="exclusive:" + c.callee)
    return n


def g4_siblings(prog, rep):
    """The three AES key-layer entry points dispatch on the same selector value, and a taken accelerated branch ends the function:
    whatever the accelerated routine answers (a failed allocation included) is the answer, the portable code does not also run on
    an object of the other layout."""
    # sibling agreement on the selector in crypto_aes.c
    u = prog.unit("crypto/crypto_aes.c")
    vals = {}
    for fn, callee in (("crypto_aes_key_expand", "crypto_aes_key_expand_aesni"), ("crypto_aes_encrypt_block", "crypto_aes_encrypt_block_aesni"), ("crypto_aes_key_free", "crypto_aes_key_free_aesni")):
        f = u.func(fn)
        cs = list(f.calls(callee)) if f else []
        if len(cs) == 1:
            vals[fn] = tuple(sorted(selector_atoms(f, cs[0])[0]))
        # and the hardware call ends the function: the software path must not also run
        if cs:
            c = cs[0]
            nxt = [e for e in c.block.elems[c.i + 1:] if e.cls in ("ReturnStmt",)]
            vs, seen = f.returns_from(c.block.id)
            sw_calls = [e for b in seen for e in f.blocks[b].elems if e.cls == "CallExpr" and e.callee in ("AES_encrypt", "AES_set_encrypt_key", "free", "malloc", "insecure_memzero") and b != c.block.id]
            rep.check(not sw_calls, "G4-siblings", "%s: the accelerated branch returns without running the portable code" % fn, c.where, "%s" % [e.text[:30] for e in sw_calls], function=fn, construct="exclusive")
    rep.check(len(vals) == 3 and len(set(vals.values())) == 1 and all(v for v in vals.values()), "G4-siblings", "expand / encrypt / free dispatch on the same selector value", u.path, "%s" % vals, function="crypto_aes", construct="same-selector")


SIGN_DEPENDENT = ("_mm_srai_", "_mm_sra_", "_mm_adds_", "_mm_subs_", "_mm_packs_", "_mm_packus_", "_mm_cmpgt_", "_mm_cmplt_", "_mm_max_epi", "_mm_min_epi",
                  "_mm_cvtepi8_", "_mm_cvtepi16_", "_mm_cvtepi32_", "_mm_madd_", "_mm_mulhi_epi", "_mm_sign_", "_mm_abs_")


def g5(prog, rep):
    """SHA-256, CRC32C and AES are defined with bitwise, logical-shift and modular operations only.  A sign-dependent
    vector operation (arithmetic shift, saturating arithmetic, signed compare/pack/extend) in an accelerated unit makes
    the result depend on the top bits of data bytes, which the units' fixed self-test vectors (bytes 0x00..0x3f, ASCII
    text) cannot exercise -- so the run-time self-test would pass and the wrong path stay enabled."""
    n = 0
    for au in ACCEL:
        u = prog.unit(au)
        for f in u.funcs:
            if f.file != au:
                continue
            n += 1
            bad = [c for c in f.calls() if c.callee and c.callee.startswith(SIGN_DEPENDENT)]
            # the intrinsics are inline functions wrapping builtins: also look at the builtin names
            bad += [c for c in f.calls() if c.callee and ("psra" in c.callee or "padds" in c.callee or "psubs" in c.callee or "pcmpgt" in c.callee or "packss" in c.callee)]
            rep.check(not bad, "G5-signfree", "%s uses no sign-dependent vector operation" % f.name, bad[0].where if bad else f.loc,
                      "%s: the specified functions use only logical shifts and modular arithmetic; the self-test vector has no high-bit bytes, so it cannot notice" % [c.callee for c in bad],
                      function=f.name, construct="sign-dependent")
    if n < 8:
        rep.defer_broken("G5: fewer than 8 functions in the accelerated units")
    # byte swap of the SSE2 message load: 16-bit halves swapped with logical shifts by 8, then 16-bit words swapped
    u = prog.unit("alg/sha256_sse2.c")
    f = u.func("mm_bswap_epi32")
    if f is not None:
        calls = []
        for c in sorted(f.calls(), key=lambda c: (c.line, c.i)):
            nm = c.macro[0] if c.macro and c.macro[0].startswith("_mm_") else c.callee
            if nm and nm.startswith("_mm_"):
                calls.append((nm, c.arg(1).strip().val if len(c.args) > 1 and c.arg(1) is not None else None))
        want = {("_mm_slli_epi16", 8), ("_mm_srli_epi16", 8), ("_mm_or_si128", None), ("_mm_shufflelo_epi16", 0xB1), ("_mm_shufflehi_epi16", 0xB1)}
        got = set((a, b) for a, b in calls if a != "_mm_or_si128") | {("_mm_or_si128", None)}
        rep.check(got == want, "G5-signfree", "mm_bswap_epi32: (a << 8) | (a >>logical 8) per 16-bit lane, then swap the 16-bit words of each 32-bit lane", f.loc, "%s" % sorted(calls, key=str),
                  function=f.name, construct="bswap")



def g7_schedule(prog, rep):
    """The SSE2 SHA-256 transform computes its whole message schedule: every word W[t] a round reads has been stored by this call
    before the read (the first sixteen from the block, the rest by the schedule steps), and the sixty-four rounds read W[0..63].
    Decided by walking the function with its loop counter known (sa/finite.py): stores through _mm_storeu_si128(&W[k]) mark
    W[k..k+3], reads of W[...] are checked against the marks in execution order.  (The library's self-test runs the portable
    transform on the same scratch array first, so schedule words the SSE2 code forgets to compute are found there, correct,
    left over -- the self-test cannot see this.)"""
    from .. import finite
    up = "alg/sha256_sse2.c"
    if up not in prog.units:
        return
    u = prog.unit(up)
    f = u.func("SHA256_Transform_sse2")
    if f is None:
        raise cdb.AnalysisBroken("anchor missing: SHA256_Transform_sse2")
    Wp = [p for p in f.params if p["name"] == "W"]
    if not Wp:
        raise cdb.AnalysisBroken("SHA256_Transform_sse2 no longer has the schedule parameter W")
    W = ("v", "W", Wp[0]["id"])
    tracked = {}
    for e in f.all_elems():
        if e.cls == "DeclStmt":
            for d in e.decls or []:
                t = u.types.get(d.get("ty")) or {}
                if isinstance(d, dict) and d.get("kind") == "local" and t.get("kind") == "int":
                    tracked[("v", d["name"], d["id"])] = (bool(t.get("signed", True)), 8 * (t.get("size") or 4))
    written = set()
    reads = []
    early = []
    unknown = []

    def watch(e, env):
        if e.cls == "CallExpr" and e.callee == "_mm_storeu_si128" and e.arg(0) is not None:
            a = norm(e.arg(0))
            if a[0] == "&" and a[1][0] == "[]" and a[1][1] == W:
                k = finite.ev(a[1][2], env)
                if isinstance(k, int):
                    written.update(range(k, k + 4))
                else:
                    unknown.append(e)
        elif e.cls == "ImplicitCastExpr" and e.op == "LValueToRValue":
            k0 = e.kid(0).strip() if e.kid(0) is not None else None
            if k0 is not None and k0.cls == "ArraySubscriptExpr" and norm(k0.kid(0)) == W:
                k = finite.ev(norm(k0.kid(1)), env)
                if isinstance(k, int):
                    reads.append(k)
                    if k not in written:
                        early.append((k, e))
                else:
                    unknown.append(e)
        elif e.is_assign and norm(e.kid(0))[0] == "[]" and norm(e.kid(0))[1] == W:
            k = finite.ev(norm(e.kid(0))[2], env)
            if isinstance(k, int):
                written.add(k)
    Wk = finite.Walker(f, tracked, lambda e: False, watch=watch, limit=200000)
    try:
        Wk.run(f.entry, 0, {k: None for k in tracked})
    except finite.Budget:
        raise cdb.AnalysisBroken("SHA256_Transform_sse2: the walk did not finish")
    ok = not early and not unknown and sorted(set(reads)) == list(range(64)) and len(reads) == 64
    rep.check(ok, "G7-schedule", "SHA256_Transform_sse2 computes every schedule word before the round that uses it", f.loc,
              ("W[%d] is read at %s before this call has stored it" % (early[0][0], early[0][1].loc)) if early else
              ("schedule words read: %d distinct of %d reads (64 expected)%s" % (len(set(reads)), len(reads), "; an index could not be evaluated" if unknown else "")),
              function=f.name, construct="schedule")


def g8_sse2_schedule(prog, rep):
    """The SSE2 message schedule *is* SHA-256's, for every input: decided by exact symbolic evaluation (sa/simd.py).
    (a) MSG4, given the vectors (W[j-16..j-13]), (W[j-12..j-9]), (W[j-8..j-5]), (W[j-4..j-1]), returns the vector whose lanes are
        sigma1(W[t-2]) + W[t-7] + sigma0(W[t-15]) + W[t-16] for t = j..j+3 -- shuffles, shifts and XORs evaluated bit by bit over GF(2),
        additions as canonical multisets of operands; the helper functions and macros it uses are evaluated in place;
    (b) mm_bswap_epi32 reverses the bytes of each 32-bit lane (the block is big-endian);
    (c) in the transform, walked with its loop counter known, every vector handed to MSG4 holds the four consecutive schedule
        words the call expects, and every vector stored to W[k..k+3] holds words k..k+3."""
    from .. import simd, finite
    up = "alg/sha256_sse2.c"
    if up not in prog.units:
        return 0
    u = prog.unit(up)
    n = 0
    f = u.func("MSG4")
    if f is None or len(f.params) != 4:
        raise cdb.AnalysisBroken("anchor missing: MSG4(X0, X1, X2, X3) in %s" % up)
    ev = simd.Evaluator(u)
    W = [simd.word(("w", i)) for i in range(16)]
    for t in range(16, 20):
        W.append(simd.schedule_word(W, t))
    n += 1
    try:
        R = ev.run(f, [simd.vec_of_words([("w", 4 * k + i) for i in range(4)]) for k in range(4)])
        got = simd.lanes32(R)
        wrong = [k for k in range(4) if got[k] != W[16 + k]]
        rep.check(not wrong, "G8-sse2", "MSG4 computes W[j..j+3] of the SHA-256 message schedule", f.loc,
                  "lane%s %s differ%s from sigma1(W[t-2]) + W[t-7] + sigma0(W[t-15]) + W[t-16] (bit-exact symbolic evaluation of the function and the helpers it calls)"
                  % ("s" if len(wrong) > 1 else "", wrong, "" if len(wrong) > 1 else "s"), function=f.name, construct="msg4")
    except simd.CannotEvaluate as ex:
        rep.bad("G8-sse2", "MSG4 computes W[j..j+3] of the SHA-256 message schedule", f.loc, "the function could not be evaluated exactly: %s" % ex,
                function=f.name, construct="msg4")
    g = u.func("mm_bswap_epi32")
    if g is None:
        raise cdb.AnalysisBroken("anchor missing: mm_bswap_epi32 in %s" % up)
    n += 1
    try:
        R = ev.run(g, [simd.vec_of_words([("w", k) for k in range(4)])])
        want = []
        for k in range(4):
            for b in range(4):
                for j in range(8):
                    want.append(frozenset([(simd.intern(("w", k)), 8 * (3 - b) + j)]))
        rep.check(R == want, "G8-sse2", "mm_bswap_epi32 reverses the bytes of each 32-bit lane", g.loc, "", function=g.name, construct="bswap")
    except simd.CannotEvaluate as ex:
        rep.bad("G8-sse2", "mm_bswap_epi32 reverses the bytes of each 32-bit lane", g.loc, "the function could not be evaluated exactly: %s" % ex, function=g.name, construct="bswap")
    # (c) the flow of vectors through the transform
    t = u.func("SHA256_Transform_sse2")
    if t is None:
        raise cdb.AnalysisBroken("anchor missing: SHA256_Transform_sse2")
    pn = {p["name"]: ("v", p["name"], p["id"]) for p in t.params}
    if "W" not in pn or "block" not in pn:
        raise cdb.AnalysisBroken("SHA256_Transform_sse2 no longer has the parameters block and W")
    tracked = {}
    for e in t.all_elems():
        if e.cls == "DeclStmt":
            for d in e.decls or []:
                ty = u.types.get(d.get("ty")) or {}
                if isinstance(d, dict) and d.get("kind") == "local" and ty.get("kind") == "int":
                    tracked[("v", d["name"], d["id"])] = (bool(ty.get("signed", True)), 8 * (ty.get("size") or 4))
    ystate = {}
    problems = []
    counts = {"msg4": 0, "store": 0, "load": 0}

    def vecref(tm, env):
        """index k if tm is Y[k]"""
        while tm[0] == "cast":
            tm = tm[-1]
        if tm[0] == "[]" and tm[1][0] == "v":
            k = finite.ev(tm[2], env)
            return (tm[1], k) if isinstance(k, int) else None
        return None

    def watch(e, env):
        if e.is_assign and e.op == "=":
            lhs = vecref(norm(e.kid(0)), env)
            rhs = norm(e.kid(1))
            if lhs is None or not (rhs[0] == "call"):
                return
            if rhs[1] == "MSG4" and len(rhs) == 6:
                counts["msg4"] += 1
                vals = []
                for a in rhs[2:]:
                    r = vecref(a, env)
                    vals.append(ystate.get(r) if r is not None else None)
                if any(v is None for v in vals):
                    problems.append((e, "an argument of MSG4 is not a vector of known schedule words"))
                    ystate[lhs] = None
                    return
                flat = [x for v in vals for x in v]
                if flat != list(range(flat[0], flat[0] + 16)):
                    problems.append((e, "MSG4 is given words %s, not sixteen consecutive schedule words" % (vals,)))
                    ystate[lhs] = None
                    return
                ystate[lhs] = tuple(range(flat[0] + 16, flat[0] + 20))
            elif rhs[1] == "mm_bswap_epi32" and len(rhs) == 3 and rhs[2][0] == "call" and rhs[2][1] == "_mm_loadu_si128":
                a = rhs[2][2]
                while a[0] == "cast":
                    a = a[-1]
                if a[0] == "&" and a[1][0] == "[]" and a[1][1] == pn["block"]:
                    c = finite.ev(a[1][2], env)
                    if isinstance(c, int) and c % 4 == 0:
                        counts["load"] += 1
                        ystate[lhs] = tuple(range(c // 4, c // 4 + 4))
                        return
                ystate[lhs] = None
            else:
                ystate[lhs] = None
        elif e.cls == "CallExpr" and e.callee == "_mm_storeu_si128" and e.arg(0) is not None and e.arg(1) is not None:
            a = norm(e.arg(0))
            while a[0] == "cast":
                a = a[-1]
            if a[0] == "&" and a[1][0] == "[]" and a[1][1] == pn["W"]:
                c = finite.ev(a[1][2], env)
                r = vecref(norm(e.arg(1)), env)
                counts["store"] += 1
                have = ystate.get(r) if r is not None else None
                if not isinstance(c, int) or have != tuple(range(c, c + 4)):
                    problems.append((e, "W[%s..] receives a vector holding %s" % (c, "words %s" % (have,) if have else "something that is not four known schedule words")))
    Wk = finite.Walker(t, tracked, lambda e: False, watch=watch, limit=200000)
    try:
        Wk.run(t.entry, 0, {k: None for k in tracked})
    except finite.Budget:
        raise cdb.AnalysisBroken("SHA256_Transform_sse2: the walk did not finish")
    n += 1
    ok = not problems and counts["load"] == 4 and counts["msg4"] == 12 and counts["store"] == 16
    rep.check(ok, "G8-sse2", "the transform feeds MSG4 consecutive schedule words and stores each result where those words belong", (problems[0][0].where if problems else t.loc),
              problems[0][1] if problems else "block loads: %d (4 expected), schedule steps: %d (12), stores to W: %d (16)" % (counts["load"], counts["msg4"], counts["store"]),
              function=t.name, construct="flow")
    return n


def g9_shani_transform(prog, rep):
    """The SHA-NI transform *is* SHA-256's compression function, for every state and block: the whole function is evaluated
    symbolically (sa/simd.py: shuffles, byte shuffles, alignr, unpacks over GF(2); lane additions as canonical multisets; Ch and Maj
    as opaque word terms built from canonical lanes; SHA256RNDS2 / SHA256MSG1 / SHA256MSG2 by their definitions in the Intel SDM,
    which are trusted) and the eight words it stores are compared with FIPS 180-4 section 6.2.2 evaluated by the same constructors:
    big-endian block words, the message schedule, sixty-four rounds with the constants derived here (C01's table), feed-forward."""
    from .. import simd
    from . import c01
    up = "alg/sha256_shani.c"
    if up not in prog.units:
        return 0
    u = prog.unit(up)
    f = u.func("SHA256_Transform_shani")
    if f is None:
        raise cdb.AnalysisBroken("anchor missing: SHA256_Transform_shani")
    pn = {p["name"]: ("v", p["name"], p["id"]) for p in f.params}
    if "state" not in pn or "block" not in pn:
        raise cdb.AnalysisBroken("SHA256_Transform_shani no longer has the parameters state and block")
    ev = simd.Evaluator(u)
    ev.stores = []
    try:
        ev.run(f, [("ptr", "state", 0, 4), ("ptr", "blk", 0, 1)])
    except simd.CannotEvaluate as ex:
        rep.bad("G9-shani", "SHA256_Transform_shani is the SHA-256 compression function", f.loc, "the function could not be evaluated exactly: %s" % ex,
                function=f.name, construct="transform")
        return 1
    got = {}
    for ptr, val, e in ev.stores:
        if isinstance(ptr, tuple) and ptr and ptr[0] == "ptr" and ptr[1] == "state" and ptr[2] % 4 == 0:
            for i, l in enumerate(simd.lanes32(val)):
                got[ptr[2] // 4 + i] = l
    # FIPS 180-4 with the same constructors
    W = []
    for t in range(16):
        blk = simd.intern(("blk", t))
        W.append(tuple(frozenset([(blk, 8 * (3 - b) + j)]) for b in range(4) for j in range(8)))
    for t in range(16, 64):
        W.append(simd.schedule_word(W, t))
    st0 = tuple(simd.word(simd.intern(("state", i))) for i in range(8))
    st = st0
    for t in range(64):
        st = simd.sha256_round(st, [W[t], simd.const_lane(c01.SHA256_K[t])])
    want = [simd.add_lanes(st0[i], st[i]) for i in range(8)]
    wrong = [i for i in range(8) if got.get(i) != want[i]]
    rep.check(not wrong and len(got) == 8, "G9-shani", "SHA256_Transform_shani is the SHA-256 compression function", f.loc,
              "state words %s stored by the function differ from FIPS 180-4's (exact symbolic evaluation of all sixty-four rounds and the schedule; %d of 8 words stored)"
              % (wrong, len(got)), function=f.name, construct="transform")
    return 1


def g6_cursor(prog, rep):
    """CRC32C_Update_SSE42 consumes its input strictly in order: every data operand of a crc32 instruction is read at the
    running cursor (buf[i + k]), and between two advances of the cursor the operands tile exactly the bytes the advance
    skips (so no byte is folded twice, skipped, or taken from another position).  The library's self-test ("hello world",
    11 bytes) cannot tell a wrong read position in the aligned-tail handling from a right one."""
    u = prog.unit("alg/crc32c_sse42.c")
    f = u.func("CRC32C_Update_SSE42")
    if f is None:
        return
    if not rep.names(f, "buf", "i", "len"):
        return
    W = {"_mm_crc32_u8": 1, "_mm_crc32_u16": 2, "_mm_crc32_u32": 4, "_mm_crc32_u64": 8,
         "__builtin_ia32_crc32qi": 1, "__builtin_ia32_crc32hi": 2, "__builtin_ia32_crc32si": 4, "__builtin_ia32_crc32di": 8}
    I = [("v", p["name"], p["id"]) for p in f.params if p["name"] == "i"]
    ivar = None
    for e in f.all_elems():
        st = ir.step(e)
        if st and st[1][0] == "v" and st[1][1] == "i":
            ivar = st[1]
    bufp = ("v", f.params[1]["name"], f.params[1]["id"])
    sites = []
    for c in f.calls():
        if c.callee in W:
            a = norm(c.arg(1))
            # buf[i + k]  or  *(T *)&buf[i + k]
            if a[0] == "*" and len(a) == 2:
                a = a[1]
                if a[0] == "&":
                    a = a[1]
            elif a[0] == "[]":
                pass
            off = None
            if a[0] == "[]" and a[1] == bufp:
                idx = a[2]
                if idx == ivar:
                    off = 0
                elif idx[0] == "+" and ivar in (idx[1], idx[2]):
                    o = idx[2] if idx[1] == ivar else idx[1]
                    off = o[1] if o[0] == "c" else None
            sites.append((c, off, W[c.callee]))
    advs = [(e, ir.step(e)) for e in f.all_elems() if ir.step(e) and ir.step(e)[1] == ivar]
    groups = {}
    ok_all = bool(sites) and ivar is not None
    for c, off, w in sites:
        if off is None:
            rep.bad("G6-cursor", "%s operand in %s" % (c.callee, f.name), c.where,
                    "the data operand %s is not read at the running cursor buf[i + k]: the bytes folded into the CRC are not the next unread ones" % show(norm(c.arg(1))),
                    function=f.name, construct="cursor-operand")
            ok_all = False
            continue
        # the advance that follows this read: the first advance on every path from it
        nxt = [a for a, st in advs if f.always_passes(c, a) and not any(f.always_passes(c, b) and f.always_passes(b, a) and b is not a for b, _ in advs)]
        if len(nxt) != 1:
            rep.bad("G6-cursor", "%s operand in %s" % (c.callee, f.name), c.where, "no unique cursor advance follows this read", function=f.name, construct="cursor-advance")
            ok_all = False
            continue
        groups.setdefault(nxt[0].pos, (nxt[0], []))[1].append((off, w))
    for pos, (a, reads) in sorted(groups.items()):
        amount = ir.step(a)[2]
        cover = sorted(reads)
        want = amount[1] if amount[0] == "c" and ir.step(a)[0] == "+=" else None
        tiled = want is not None and cover and cover[0][0] == 0 and all(cover[k][0] + cover[k][1] == cover[k + 1][0] for k in range(len(cover) - 1)) and cover[-1][0] + cover[-1][1] == want
        rep.check(tiled, "G6-cursor", "reads before `%s` tile the %s bytes it skips" % (a.text[:20], want), a.where, "reads (offset, width): %s" % cover,
                  function=f.name, construct="cursor-tile")
    if ok_all:
        rep.ok("G6-cursor", "every crc32 operand of %s is read at the cursor" % f.name, f.loc)


def g10_keyread(prog, rep):
    """The AES-NI key expansion reads the key it was handed and no further: every 16-byte load from the unexpanded key at offset o
    -- in crypto_aes_key_expand_aesni itself or, through its static helpers, at the call that hands the key on -- is made where
    len >= o + 16 is established (sa/poly.py).  The software expansion reads exactly len bytes; a load beyond them leaves the
    results alike and the behaviour not (the 16 bytes after an AES-128 key need not be mapped)."""
    from .. import poly
    from ..poly import Lin
    up = "crypto/crypto_aes_aesni.c"
    if up not in prog.units:
        return 0
    u = prog.unit(up)
    top = u.func("crypto_aes_key_expand_aesni")
    if top is None:
        if not [f for f in u.funcs if f.file == up]:
            return 0
        raise cdb.AnalysisBroken("anchor missing: crypto_aes_key_expand_aesni")
    KEY = ("v", top.params[0]["name"], top.params[0]["id"])
    LEN = ("v", top.params[1]["name"], top.params[1]["id"])

    def reads(f, key, depth=0):
        """[(element of f, bytes of the key needed by it)]: loads and copies from `key`, and calls handing it on"""
        out = []
        for c in f.calls():
            if not c.callee:
                continue
            for i, a in enumerate(c.args):
                if a is None:
                    continue
                t = norm(a)
                while t[0] == "cast":
                    t = t[-1]
                off = None
                if t == key:
                    off = 0
                elif t[0] == "&" and t[1][0] == "[]" and t[1][1] == key and t[1][2][0] == "c":
                    off = t[1][2][1]
                elif t[0] == "+" and len(t) == 3 and t[1] == key and t[2][0] == "c":
                    off = t[2][1]
                elif any(x == key for x in subterms(t)):
                    out.append((c, None))
                    continue
                if off is None:
                    continue
                if c.callee in ("_mm_loadu_si128", "_mm_load_si128", "_mm_lddqu_si128"):
                    out.append((c, off + 16))
                elif c.callee == "_mm_loadl_epi64":
                    out.append((c, off + 8))
                elif c.callee in ("memcpy", "memcmp") and i in (0, 1):
                    n = norm(c.arg(2))
                    out.append((c, off + n[1] if n[0] == "c" else None))
                else:
                    g = prog.resolve(f, c.callee) if hasattr(prog, "resolve") else None
                    if g is None or g.file.startswith("/") or depth >= 2 or i >= len(g.params):
                        out.append((c, None))
                    else:
                        inner = reads(g, ("v", g.params[i]["name"], g.params[i]["id"]), depth + 1)
                        need = [nb for _, nb in inner]
                        out.append((c, None if (None in need) else (off + max(need) if need else 0)))
        return out
    A = poly.Analysis(top, quiet={"malloc", "free", "warn0", "libcperciva_warn0"} | {f.name for f in u.funcs if f.file == up}, unsigned_terms={LEN}).run()
    n = 0
    # the lengths the function accepts at all (its `len == c` tests): the shortest of them is there for every valid call, so a read
    # within it made before the length is looked at is not held against the function
    from ..dataflow import cond_atoms
    accepted = [R[1] for b in top.blocks.values() if b.cond is not None for op, L, R, _, _ in cond_atoms(b.cond, True)
                if op == "==" and L == LEN and R[0] == "c" and isinstance(R[1], int)]
    floor = min(accepted) if accepted else 0
    for c, need in reads(top, KEY):
        st = A.state_before(c)
        if st is None:
            continue
        n += 1
        ok = need is not None and (need <= floor or A.holds(st, ">=", Lin.var(LEN), Lin.const(need)))
        rep.check(ok, "G10-keyread", "%s reads no more of the key than len says there is" % c.text[:50], c.where,
                  ("this reads the key up to byte %d where len >= %d is not established: with a shorter key it reads past the key's end, which the software expansion never does" % (need, need))
                  if need is not None else "the amount of the key read here is not something the analysis can follow", function=top.name, construct="keyread")
    return n


def run(tier):
    rep = report.Report("C03", tier,
        "Decided in every analysed feature configuration: instruction-set specific routines are used only under the matching selector, "
        "the run-time CPU test, or inside self-test helpers (G1); a selector is stored only behind the run-time test of every feature "
        "its unit is compiled for and a passing self-test whose call tree contains the routine (G2); length thresholds imply the "
        "accelerated routines' preconditions (G3); instruction-set flags appear only on the accelerated units, and sibling dispatchers "
        "agree on the selector (G4); accelerated units use no sign-dependent vector operation, which their self-test vectors could not "
        "notice (G5); the SSE4.2 CRC routine reads every operand at its running cursor and the reads tile what each advance skips (G6); the portable and AES-NI CTR code agree on counter layout and position bookkeeping (L rules shared with C02). NOT decided: equality of accelerated and portable results for all inputs -- that is delegated to "
        "the library's run-time self-tests, whose wiring G2 verifies; a wrong constant inside an accelerated transform is caught by "
        "that self-test at run time and falls back, so no table check is armed there.",
        trusted=["the self-tests' known-answer vectors", "cpusupport_x86_* run-time probes"])
    configs = [cdb.HOST]
    if tier == "thorough":
        configs += [cdb.Config("f-sse2", features=["SSE2"]), cdb.Config("f-shani", features=["SSE2", "SSSE3", "SHANI"]), cdb.Config("f-sse42", features=["SSE42", "SSE42_64"]),
                    cdb.Config("f-aesni", features=["AESNI"]), cdb.Config("f-rdrand", features=["RDRAND"]), cdb.Config("f-none", features=[])]
    for cfg in configs:
        prog = ir.Program(PORTABLE + list(ACCEL), cfg)
        rep.add_stats(prog)
        enums = {up: prog.unit(up).enums for up in PORTABLE}
        if cfg.name == "host":
            g1_g2(prog, rep, enums)
            g3(prog, rep)
            g4(prog, rep, tier)
            g5(prog, rep)
            g6_cursor(prog, rep)
            g7_schedule(prog, rep)
            g8_sse2_schedule(prog, rep)
            g9_shani_transform(prog, rep)
            if g10_keyread(prog, rep) < 2:
                rep.defer_broken("G10: fewer than 2 reads of the unexpanded key found in crypto_aes_key_expand_aesni")
            # ... and its sixty-four rounds and round constants are FIPS 180-4's (C01's rules on the sibling's own copy of them)
            if "alg/sha256_sse2.c" in prog.units:
                from . import c01 as _c01
                _c01.sha256(prog, rep, unit="alg/sha256_sse2.c", fname="SHA256_Transform_sse2", full=False)
            # the portable CRC code is the other half of every SSE4.2 result (heads, tails, short updates): its table
            # generator and step structure (C01's K5) are part of "the same function"
            from . import c01
            c01.k5(prog, rep)
            # ... and its tables are filled before use in the configuration without the accelerated sibling too
            c01.k5_tables_ready(rep)
            # the implementations differ in which scratch they use (SHA-NI leaves W/S alone, the portable and SSE2 transforms
            # overwrite them): regions handed to the transform's helpers are disjoint, or the subsets disagree (C01's K7)
            if "alg/sha256.c" in prog.units:
                c01.k7_regions(prog, rep, only=("alg/sha256.c",))
                c01.k11_vect(prog, rep, only=("alg/sha256.c",))
            # the AES-CTR siblings must agree on counter layout and position bookkeeping (rules shared with C02)
            from . import c02
            c02.l1_l3(prog, rep)
            c02.l2_l4(prog, rep)
            c02.l8_inplace(prog, rep)
        else:
            # in a reduced configuration: accelerated units whose feature is absent define nothing, and the rules hold on what remains
            feats = set(cfg.features)
            for au in ACCEL:
                need = {"alg/sha256_shani.c": {"SHANI", "SSSE3"}, "alg/sha256_sse2.c": {"SSE2"}, "alg/crc32c_sse42.c": {"SSE42"},
                        "crypto/crypto_aes_aesni.c": {"AESNI"}, "crypto/crypto_aesctr_aesni.c": {"AESNI"}, "crypto/crypto_entropy_rdrand.c": {"RDRAND"}}[au]
                defined = [f.name for f in prog.unit(au).funcs if f.file == au]
                if not need <= feats:
                    rep.check(not defined, "G4-ifdef", "%s defines nothing without %s [%s]" % (au, sorted(need), cfg.name), au, "%s" % defined, function=au, construct="ifdef")
            g1_g2(prog, rep, enums, min_uses=0)
    n = len(configs)
    rep.require_min("G1-dispatch", 10)
    rep.require_min("G2-select", 4)
    rep.require_min("G4-flags", 70)
    rep.require_min("G6-cursor", 4)
    return rep
