"""C15 — parsers of untrusted text and bytes never touch memory outside their input.

J1  cursor-distance analysis (sa/cursor.py) over every (cursor, end) function of
    util/json.c: every read through the cursor is inside [cursor, end), every
    callee precondition holds at its call sites, every return is within
    [buf, end]; the key string cursor in match_str only advances over non-NUL
J2  validated-then-decoded: an unchecked `strchr(tbl, in[k]) - tbl` is dominated
    by a loop that rejected NUL and non-members; table indices are masked or
    shifted below the table size
J3  bounded copies: every copy-like call into a fixed-size object is bounded by
    a constant that fits or by a dominating length test; the serialised-address
    decoder reads only what the length tests established
J4  `X[strlen(X) - 1]` only where X is known non-empty; constant indices fit
"""
from .. import cdb, ir, report, cursor, mem
from ..ir import norm, show, root_var, subterms
from ..dataflow import cond_atoms
from ..facts import Facts, lin

UNITS = ["util/json.c", "util/b64encode.c", "util/hexify.c", "util/humansize.c", "util/sock.c", "util/sock_util.c",
         "aws/aws_readkeys.c", "util/readpass_file.c", "util/getopt.c", "aws/aws_sign.c"]
# destination argument, length argument (None: see handler), kind
COPY = {"memcpy": (0, 2, "len"), "memmove": (0, 2, "len"), "memset": (0, 2, "len"), "fgets": (0, 1, "len"), "strftime": (0, 1, "len"),
        "snprintf": (0, 1, "len"), "inet_ntop": (2, 3, "len"), "strcpy": (0, None, "str"), "hexify": (1, 2, "hex"),
        "strncpy": (0, 2, "len"), "read": (1, 2, "len"), "recv": (1, 2, "len"), "fread": (0, None, "fread"), "insecure_memzero": (0, 1, "len")}



STRING_READERS = {"strlen": (0,), "strcmp": (0, 1), "strncmp": (0, 1), "strstr": (0, 1), "strchr": (0,), "strrchr": (0,), "strcspn": (0, 1), "strspn": (0, 1),
                  "strdup": (0,), "strcpy": (1,), "stpcpy": (1,), "sscanf": (0,), "atoi": (0,), "strtol": (0,), "strtoul": (0,), "strtoimax": (0,),
                  "strtoumax": (0,), "strtod": (0,), "puts": (0,), "fputs": (0,), "inet_pton": (1,), "getaddrinfo": (0, 1)}
STRING_WRITERS = {"snprintf": 0, "sprintf": 0, "strcpy": 0, "stpcpy": 0, "strncpy": 0, "memcpy": 0, "memmove": 0, "memset": 0, "strftime": 0, "hexify": 1,
                  "inet_ntop": 2, "read": 1, "fread": 0}


def j5(prog, rep):
    """A local character array handed to a string function holds a string on every path: it was filled by a writer
    (snprintf, strcpy, memcpy, ...), by fgets on its non-NULL edge (at end-of-file fgets leaves the array untouched), or
    terminated explicitly at index 0 -- otherwise the string function walks whatever the stack held, beyond the array."""
    from ..dataflow import Solver
    n = 0
    for up in UNITS:
        u = prog.unit(up)
        for f in u.funcs:
            if f.file != up:
                continue
            arrays = {}
            for e in f.all_elems():
                if e.cls == "DeclStmt" and e.decls:
                    for d in e.decls:
                        t = u.types.get(d.get("ty", "")) or {}
                        if t.get("kind") == "array" and (u.types.get(t.get("elem", "")) or {}).get("size") == 1 and not d.get("init"):
                            arrays[("v", d["name"], d["id"])] = d
            if not arrays:
                continue

            def arr_of(a):
                if a is None:
                    return None
                x = norm(a)
                if x in arrays:
                    return x
                if x[0] == "&" and x[1][0] == "[]" and x[1][1] in arrays and x[1][2] == ("c", 0):
                    return x[1][1]
                return None

            def transfer(st, e):
                if e.cls == "CallExpr" and e.callee in STRING_WRITERS:
                    x = arr_of(e.arg(STRING_WRITERS[e.callee]))
                    if x is not None:
                        return st | {x}
                if e.is_assign and e.op == "=":
                    l = norm(e.kid(0))
                    if l[0] == "[]" and l[1] in arrays and l[2] == ("c", 0) and norm(e.kid(1)) == ("c", 0):
                        return st | {l[1]}
                return st

            def refine(st, cond, kind):
                if kind in (True, False):
                    for op, L, R, Le, _ in cond_atoms(cond, kind):
                        ce = Le.strip() if Le is not None else None
                        if ce is not None and ce.cls == "CallExpr" and ce.callee == "fgets" and R == ("c", 0) and op == "!=":
                            x = arr_of(ce.arg(0))
                            if x is not None:
                                st = st | {x}
                return st
            sv = Solver(f, frozenset(), transfer, refine, lambda a, b: a & b).run()
            sites = []

            def visit(e, st):
                if e.cls == "CallExpr" and e.callee in STRING_READERS:
                    for k in STRING_READERS[e.callee]:
                        x = arr_of(e.arg(k))
                        if x is not None:
                            sites.append((e, x, x in st))
            sv.visit(visit)
            for e, x, ok in sites:
                n += 1
                rep.check(ok, "J5-defined", "%s reads the local array %s in %s" % (e.callee, x[1], f.name), e.where,
                          "on some path nothing has been written into %s[%s] before this call (fgets leaves the array untouched when it returns NULL): "
                          "the string function reads indeterminate stack bytes, possibly past the array" % (x[1], arrays[x].get("ty", "")), function=f.name, construct="defined:" + x[1])
    if n < 3:
        rep.defer_broken("J5: fewer than 3 local character arrays handed to string functions found")



def j4_wrap(prog, rep):
    """An array index computed with an unsigned subtraction (`a[n - 1]`) wraps to a huge value when the subtrahend is
    larger: the subtraction must be provably non-wrapping where it is used (relational domain, sa/poly.py).  Indices of
    the form strlen(X) - 1 are J4-index's (they need a non-empty witness, not arithmetic)."""
    from .. import poly
    n = 0
    for up in UNITS:
        u = prog.unit(up)
        for f in u.funcs:
            if f.file != up:
                continue
            cand = []
            for e in f.all_elems():
                if e.cls != "ArraySubscriptExpr":
                    continue
                stack = [e.kid(1)]
                while stack:
                    x = stack.pop()
                    if x is None:
                        continue
                    if x.cls == "BinaryOperator" and x.op == "-" and (u.types.get(x.ty) or {}).get("signed") is False:
                        m = x.kid(0).strip() if x.kid(0) is not None else None
                        mt = norm(x.kid(0)) if x.kid(0) is not None else ("?",)       # read through a new local that holds the length
                        if not ((m is not None and m.cls == "CallExpr" and m.callee == "strlen") or (mt[0] == "call" and mt[1] == "strlen")):
                            cand.append((e, x))
                    stack.extend(x.kids)
            if not cand:
                continue
            # slice: only the variables the candidate indices are made of are tracked
            roots = set()
            for e, sub in cand:
                for t in subterms(norm(sub)):
                    if isinstance(t, tuple) and t and t[0] == "v":
                        roots.add(t[1])
            A = poly.Analysis(f, quiet={None}, track=lambda v: any(isinstance(t, tuple) and t and t[0] == "v" and t[1] in roots for t in subterms(v))).run()
            for e, sub in cand:
                n += 1
                st = A.state_before(e)
                rep.check(A.lin(sub, st) is not None, "J4-wrap", "%s in %s" % (e.text[:40], f.name), e.where,
                          "the index contains the unsigned subtraction %s, and nothing on the paths to it establishes that it cannot wrap: with the subtrahend "
                          "larger the index is close to SIZE_MAX and the access lands far outside the object" % sub.text[:40], function=f.name, construct="index-wrap")
    return n


_poly_cache = {}


def j1(prog, rep):
    C = cursor.CursorAnalysis(prog, "util/json.c")
    if len(C.funcs) < 9:
        rep.defer_broken("J1: fewer than 9 (cursor, end) functions in json.c")
    pre = C.infer()
    pub = [n for n, v in C.funcs.items() if not v[0].static]
    for n in pub:
        rep.check(pre[n] == 0, "J1-pre", "%s callable with buf <= end" % n, C.funcs[n][0].loc,
                  "the public entry point must be safe for an empty input (inferred requirement end - buf >= %d)" % pre[n],
                  function=n, construct="public-pre")
    for n in sorted(C.funcs):
        ps, ss = C.check(n)
        bad = {}
        for e, k, K, what in ps:
            bad[(e.pos, what)] = (e, k, K, what)
        for e, k, K, what in ss:
            inst = "%s: %s" % (n, what)
            if (e.pos, what) in bad:
                have = "nothing is known" if K < -1000 else "only end - buf >= %d is known" % K
                rep.bad("J1-cursor", inst, e.where,
                        "needs end - buf >= %d here but %s on some path (entry requirement of %s: end - buf >= %d)" % (k, have, n, pre[n]),
                        function=n, construct="cursor:" + what.split(" needs")[0][:40])
            else:
                rep.ok("J1-cursor", inst, e.where, "end - buf >= %d known, %d needed" % (K, k))
    # the NUL-terminated key cursor in match_str
    f = prog.func("util/json.c", "match_str")
    sp = [p for p in f.params if p["name"] == "s"]
    if sp:
        S = ("v", "s", sp[0]["id"])
        for e in f.all_elems():
            if (e.is_incdec or (e.is_assign and e.op == "+=")) and norm(e.kid(0)) == S:
                ok = False
                for cond, truth in f.edge_conds(e):
                    for op, L, R, _, _ in cond_atoms(cond, truth):
                        if L in (("*", S), ("[]", S, ("c", 0))) and op == "!=" and R == ("c", 0):
                            ok = True
                rep.check(ok, "J1-key", "match_str advances the key only over a non-NUL byte", e.where,
                          "s++ must be dominated by the true edge of a test of *s", function="match_str", construct="key-advance")
    else:
        rep.defer_broken("J1: match_str has no parameter s")


def _bound(e, unit):
    """Upper bound of an index expression, or None."""
    s = e.strip()
    if s is None:
        return None
    if s.val is not None:
        return s.val
    if s.cls == "BinaryOperator":
        if s.op == "&":
            a, b = _bound(s.kid(0), unit), _bound(s.kid(1), unit)
            c = [x for x in (a, b) if x is not None]
            return min(c) if c else None
        if s.op == ">>":
            a, b = _bound(s.kid(0), unit), s.kid(1).strip().val
            if a is not None and b is not None:
                return a >> b
        if s.op == "%":
            b = _bound(s.kid(1), unit)
            return b - 1 if b else None
    t = unit.types.get(s.ty) or {}
    if t.get("kind") == "int" and t.get("size") == 1 and not t.get("signed"):
        return 255
    if s.cls in ("ImplicitCastExpr", "CStyleCastExpr"):
        return _bound(s.kid(0), unit)
    return None


def j2(prog, rep):
    n = 0
    for up in ("util/b64encode.c", "util/hexify.c"):
        u = prog.unit(up)
        tables = {g["name"]: g for g in u.globals if g.get("init") and "str" in (g.get("init") or {})}
        for f in u.funcs:
            if f.file != up:
                continue
            # (a) unchecked differences strchr(tbl, X) - tbl
            for e in f.all_elems():
                if e.cls == "BinaryOperator" and e.op == "-":
                    l = e.kid(0).strip() if e.kid(0) is not None else None
                    if l is None or l.cls != "CallExpr" or l.callee != "strchr":
                        continue
                    tbl = norm(l.arg(0))
                    x = norm(l.arg(1))
                    inbase = None
                    for t in subterms(x):
                        if t[0] == "[]":
                            inbase = t[1]
                    n += 1
                    # the validating tests: NUL rejected and non-members rejected, on the same input array, dominating this use
                    nul = member = False
                    dom = f.dominators()
                    for b in f.blocks.values():
                        if b.cond is None or b.id not in dom.get(e.block.id, ()):
                            pass
                        if b.cond is None:
                            continue
                        for op, L, R, _, _ in cond_atoms(b.cond, True):
                            if op == "==" and R == ("c", 0) and L[0] == "[]" and L[1] == inbase:
                                if _rejects(f, b, 0) and _loop_before(f, b, e):
                                    nul = True
                            if op == "==" and R == ("c", 0) and L[0] == "call" and L[1] == "strchr" and L[2] == tbl and any(t[0] == "[]" and t[1] == inbase for t in subterms(L[3])):
                                if _rejects(f, b, 0) and _loop_before(f, b, e):
                                    member = True
                    rep.check(nul and member, "J2-validated", "%s in %s" % (e.text[:50], f.name), e.where,
                              "the unchecked table position must be preceded by a pass over the same input that rejects NUL (%s) and non-members (%s); "
                              "strchr() finds the table's own terminator for a NUL input byte, after which the decoder reads past the end of the string" % (nul, member),
                              function=f.name, construct="unchecked-strchr")
            # (b) table indices
            for e in f.all_elems():
                if e.cls == "ArraySubscriptExpr":
                    b = norm(e.kid(0))
                    if b[0] == "v" and b[1] in tables:
                        n += 1
                        size = len(bytes.fromhex(tables[b[1]]["init"]["str"]))
                        bd = _bound(e.kid(1), u)
                        rep.check(bd is not None and bd < size, "J2-index", "%s in %s" % (e.text[:40], f.name), e.where,
                                  "table of %d bytes indexed by a value bounded by %s" % (size, bd), function=f.name, construct="table-index:" + b[1])
    if n < 6:
        rep.defer_broken("J2: fewer than 6 table look-ups found in b64encode.c/hexify.c")


def _rejects(f, b, edge):
    """The given edge of block b leads to a failure return (non-zero constant)."""
    t = b.succs[edge]
    if t is None:
        return False
    seen = set()
    work = [t]
    hops = 0
    while work and hops < 12:
        nb = f.blocks[work.pop()]
        hops += 1
        for e in nb.elems:
            if e.cls == "ReturnStmt" and e.kids:
                v = norm(e.kid(0))
                return v[0] == "c" and v[1] != 0
        if len(nb.succs) == 1 and nb.succs[0] is not None and nb.id not in seen:
            seen.add(nb.id)
            work.append(nb.succs[0])
    return False


def _loop_before(f, b, use):
    """Block b lies in a loop all of whose exits precede the use (the use is not inside that loop)."""
    inloop = b.id in f.reach_from(b.id)
    use_after = use.block.id in f.reach_from(b.id)
    use_in_same_loop = b.id in f.reach_from(use.block.id)
    return inloop and use_after and not use_in_same_loop


def _dest_size(f, u, d, aliases):
    """(size in bytes, description) of the object a destination pointer designates, when fixed."""
    e = d
    while e is not None and e.cls in ("ImplicitCastExpr", "CStyleCastExpr"):
        if e.op == "ArrayToPointerDecay":
            t = u.types.get(e.kid(0).ty) or {}
            if t.get("size"):
                return t["size"], "array %s" % show(norm(e.kid(0)))
            return None, None
        e = e.kid(0)
    if e is not None and e.cls == "UnaryOperator" and e.op == "&":
        k = e.kid(0)
        t = u.types.get(k.ty) or {}
        if k.cls == "ArraySubscriptExpr":
            # &arr[c]: remaining bytes of the array
            base = k.kid(0)
            be = base
            while be is not None and be.cls in ("ImplicitCastExpr", "CStyleCastExpr"):
                if be.op == "ArrayToPointerDecay":
                    at = u.types.get(be.kid(0).ty) or {}
                    idx = k.kid(1).strip().val
                    if at.get("size") and idx is not None and t.get("size"):
                        return at["size"] - idx * t["size"], "tail of array %s" % show(norm(be.kid(0)))
                be = be.kid(0)
            return None, None
        if t.get("size"):
            return t["size"], "object %s" % show(norm(k))
    return None, None


def j3(prog, rep, units=None):
    n = 0
    for up in (units or UNITS):
        u = prog.unit(up)
        for f in u.funcs:
            if f.file != up:
                continue
            calls = [c for c in f.calls() if c.callee in COPY]
            if not calls:
                continue
            fx = None
            aliases = mem.local_aliases(f, u)
            mallocs = {}
            for e in f.all_elems():
                if e.is_assign and e.op == "=" and e.kid(1) is not None:
                    r = e.kid(1).strip()
                    while r is not None and r.cls == "BinaryOperator" and r.op == "=":
                        r = r.kid(1).strip()
                    if r is not None and r.cls == "CallExpr" and r.callee in ("malloc", "calloc"):
                        sz = norm(r.arg(0)) if r.callee == "malloc" else ("*", norm(r.arg(0)), norm(r.arg(1)))
                        mallocs[norm(e.kid(0))] = (sz, r)
                        e2 = e.kid(1).strip()
                        if e2 is not None and e2.cls == "BinaryOperator" and e2.op == "=":
                            mallocs[norm(e2.kid(0))] = (sz, r)
            for c in calls:
                di, li, kind = COPY[c.callee]
                d = c.arg(di)
                if d is None:
                    continue
                size, desc = _dest_size(f, u, d, aliases)
                inst = "%s in %s" % (c.text[:60], f.name)
                if size is None:
                    # dynamic destination: allocated in this function with the same size expression
                    dn = norm(d)
                    moved = [x for x in f.all_elems() if ((x.is_assign and x.op != "=") or x.is_incdec) and norm(x.kid(0)) == dn]
                    if dn in mallocs and moved:
                        # a cursor advanced through a buffer allocated here: decided relationally -- at the copy, the cursor lies at
                        # or after the start of the allocation and cursor + length does not pass allocation start + allocation size
                        from .. import poly
                        from ..poly import Lin
                        if f.name not in _poly_cache:
                            _poly_cache[f.name] = poly.Analysis(f, quiet={"memcpy", "memmove", "memset", "malloc", "calloc", None}).run()
                        A = _poly_cache[f.name]
                        st = A.state_before(c)
                        m = mallocs[dn][1]
                        base = Lin.var(("$ret", f.name, m.pos))
                        size = A.lin(m.arg(0), st) if m.callee == "malloc" else None
                        dl, nl = A.lin(d, st), A.lin(c.arg(li), st) if li is not None else None
                        ok = size is not None and dl is not None and nl is not None and A.holds(st, ">=", dl, base) and A.holds(st, "<=", dl + nl, base + size)
                        rep.check(ok, "J3-bounded", inst, c.where,
                                  "the destination is a cursor moved through the buffer allocated at %s; cursor >= start and cursor + length <= start + allocated size "
                                  "do not follow here (cursor %s, length %s, size %s)" % (m.loc, dl, nl, size), function=f.name, construct="cursor-copy")
                        continue
                    if dn in mallocs and kind == "len" and li is not None:
                        n += 1
                        sz, site = mallocs[dn]
                        ln = norm(c.arg(li))
                        same = sz == ln
                        if not same:
                            if fx is None:
                                fx = Facts(f).solve()
                            same = fx.holds_before(c, "<=", ln, sz)
                        rep.check(same, "J3-bounded", inst, c.where,
                                  "destination allocated with %s, %s bytes written" % (show(sz), show(ln)), function=f.name, construct="copy:" + c.callee)
                    continue
                n += 1
                if kind == "len":
                    la = c.arg(li)
                    if la is not None and la.val is not None:
                        rep.check(la.val <= size, "J3-bounded", inst, c.where, "%d bytes into %s of %d bytes" % (la.val, desc, size),
                                  function=f.name, construct="copy:" + c.callee)
                    else:
                        if fx is None:
                            fx = Facts(f).solve()
                        k = fx.best_bound(c, norm(la), ("c", size))
                        # a copy of strlen(s) bytes of s leaves the terminator behind: a character array that is to hold the string
                        # needs one byte more than the copy fills
                        ln = norm(la)
                        is_strlen = ln[0] == "call" and ln[1] == "strlen"
                        if ln[0] == "v":
                            defs = [x for x in f.all_elems() if x.is_assign and x.op == "=" and norm(x.kid(0)) == ln]
                            is_strlen = bool(defs) and all(norm(x.kid(1))[0] == "call" and norm(x.kid(1))[1] == "strlen" and norm(x.kid(1))[2] == norm(c.arg(1)) for x in defs)
                        need = -1 if (is_strlen and c.callee in ("memcpy", "memmove") and "[" in ((d.strip().ty if d.strip() is not None else "") or "")) else 0
                        rep.check(k is not None and k <= need, "J3-bounded", inst, c.where,
                                  "%s bytes into %s of %d bytes: %s (known: %s)" % (show(norm(la)), desc, size,
                                  "the copy is the string without its terminator, so the array must keep one byte for it (length <= size - 1)" if need else "no dominating test bounds the length",
                                  "length <= %d%+d" % (size, k) if k is not None else "nothing"), function=f.name, construct="copy:" + c.callee)
                elif kind == "str":
                    if fx is None:
                        fx = Facts(f).solve()
                    src = norm(c.arg(1))
                    k = fx.best_bound(c, ("call", "strlen", src), ("c", size))
                    rep.check(k is not None and k <= -1, "J3-bounded", inst, c.where,
                              "strcpy into %s of %d bytes needs strlen(%s) < %d on every path (known: %s)" % (desc, size, show(src), size, k),
                              function=f.name, construct="copy:strcpy")
                elif kind == "hex":
                    la = c.arg(li)
                    ok = la is not None and la.val is not None and 2 * la.val + 1 <= size
                    rep.check(ok, "J3-bounded", inst, c.where, "hexify writes 2*len+1 = %s bytes into %s of %d bytes" % (2 * la.val + 1 if la is not None and la.val is not None else "?", desc, size),
                              function=f.name, construct="copy:hexify")
                elif kind == "fread":
                    a, b = c.arg(1), c.arg(2)
                    ok = a is not None and b is not None and a.val is not None and b.val is not None and a.val * b.val <= size
                    rep.check(ok, "J3-bounded", inst, c.where, "fread of %s*%s bytes into %d" % (a.val if a else "?", b.val if b else "?", size), function=f.name, construct="copy:fread")
    if units is None and n < 25:
        rep.defer_broken("J3: only %d bounded-copy sites found (>= 25 confirmed)" % n)
    # the serialised-address decoder: reads from the input are covered by the length tests
    if "util/sock_util.c" not in prog.units or (units is not None and "util/sock_util.c" not in units):
        return n
    f = prog.func("util/sock_util.c", "sock_addr_deserialize")
    fx = Facts(f).solve()
    B = ("v", f.params[0]["name"], f.params[0]["id"])
    LEN = ("v", f.params[1]["name"], f.params[1]["id"])
    off = 0
    nread = 0
    # straight-line order by source position
    evs = []
    for e in f.all_elems():
        if e.is_assign and e.op == "+=" and norm(e.kid(0)) == B:
            evs.append((e.line, "adv", e))
        if e.cls == "CallExpr" and e.callee == "memcpy" and norm(e.arg(1)) == B:
            evs.append((e.line, "read", e))
    for _, kind, e in sorted(evs, key=lambda x: (x[0], x[2].i)):
        if kind == "adv":
            v = norm(e.kid(1))
            if v[0] != "c":
                rep.bad("J3-readbound", "cursor advance by a non-constant in sock_addr_deserialize", e.where, show(v), function=f.name, construct="adv")
            else:
                off += v[1]
        else:
            nread += 1
            ln = norm(e.arg(2))
            # need off + ln <= buflen
            k = fx.best_bound(e, ("+", ln, ("c", off)) if ln[0] != "c" else ("c", ln[1] + off), LEN)
            rep.check(k is not None and k <= 0, "J3-readbound", "read of %s bytes at offset %d of the serialised address" % (show(ln), off), e.where,
                      "the dominating length tests must establish offset + length <= buflen (known slack: %s)" % k, function=f.name, construct="deser-read:%d" % off)
    if nread < 4:
        rep.defer_broken("J3: fewer than 4 reads from the serialised buffer in sock_addr_deserialize")


def j4(prog, rep):
    n = 0
    for up in UNITS:
        u = prog.unit(up)
        for f in u.funcs:
            if f.file != up:
                continue
            for e in f.all_elems():
                if e.cls != "ArraySubscriptExpr":
                    continue
                idx = norm(e.kid(1))
                base = norm(e.kid(0))
                if idx[0] == "-" and idx[1][0] == "call" and idx[1][1] == "strlen" and idx[2] == ("c", 1) and idx[1][2] == base:
                    n += 1
                    ok = _nonempty(f, e, base)
                    rep.check(ok, "J4-index", "%s in %s" % (e.text[:40], f.name), e.where,
                              "indexing with strlen(X) - 1 reads before the string when X is empty: a dominating test must establish that X is not empty",
                              function=f.name, construct="strlen-1:" + show(base))
                # constant index into a fixed array
                be = e.kid(0)
                while be is not None and be.cls in ("ImplicitCastExpr", "CStyleCastExpr"):
                    if be.op == "ArrayToPointerDecay":
                        t = u.types.get(be.kid(0).ty) or {}
                        iv = e.kid(1).strip().val if e.kid(1) is not None else None
                        if t.get("count") is not None and iv is not None:
                            n += 1
                            rep.check(0 <= iv < t["count"] or (iv == t["count"] and False), "J4-const", "%s in %s" % (e.text[:40], f.name), e.where,
                                      "constant index %d into an array of %d elements" % (iv, t["count"]), function=f.name, construct="const-index")
                        break
                    be = be.kid(0)
    if n < 6:
        rep.defer_broken("J4: fewer than 6 index sites found")


def _nonempty(f, e, X):
    first = ("[]", X, ("c", 0))
    conds = f.edge_conds(e)
    for cond, truth in conds:
        for op, L, R, _, _ in cond_atoms(cond, truth):
            if L in (first, ("*", X)) and ((op == "==" and R[0] == "c" and R[1] != 0) or (op == "!=" and R == ("c", 0))):
                return True
    # X = &Y[1] where Y[0] == c1 and Y[strlen(Y) - 1] == c2 != c1 are known: Y has at least two characters
    for d in f.all_elems():
        if d.is_assign and d.op == "=" and norm(d.kid(0)) == X and f.dominates(d, e):
            r = norm(d.kid(1))
            if r[0] == "&" and r[1][0] == "[]" and r[1][2] == ("c", 1):
                Y = r[1][1]
                c1 = c2 = None
                for cond, truth in conds:
                    for op, L, R, _, _ in cond_atoms(cond, truth):
                        if op == "==" and R[0] == "c":
                            if L == ("[]", Y, ("c", 0)):
                                c1 = R[1]
                            if L == ("[]", Y, ("-", ("call", "strlen", Y), ("c", 1))):
                                c2 = R[1]
                if c1 is not None and c2 is not None and c1 != c2 and c1 != 0:
                    return True
    return False


STREAM_READERS = {"fgetc": -1, "getc": -1, "getchar": -1, "fgets": 0, "getline": -1, "getdelim": -1}


def j6_eof(prog, rep):
    """Termination at end of input: a loop that reads from a stream stops when the stream has nothing more to give.  For every
    call of a stream reader that lies on a cycle of its function: supposing the call answers its end-of-input value
    (EOF, or NULL for fgets), no path leads back to the call -- every way round the loop passes an edge that this answer
    rules out (a test of the value read, or the pair feof()/ferror() both found false).  Path search over the CFG; the
    loop shape is free."""
    n = 0
    for up in UNITS:
        u = prog.unit(up)
        for f in u.funcs:
            if f.file != up:
                continue
            for c in f.calls():
                if c.callee not in STREAM_READERS:
                    continue
                n += 1
                eof = STREAM_READERS[c.callee]
                b0 = c.block.id
                if b0 not in f.reach_from(b0):
                    rep.ok("J6-eof", "%s in %s" % (c.text[:40], f.name), c.where, "not in a loop")
                    continue
                # names an answer is known by: the call expression itself and the variable it is assigned to.  End of input is
                # sticky: once this call has answered EOF, every reader of the same stream met on the way round answers its own
                # end-of-input value too
                def stream(call):
                    i = {"fgets": 2, "getline": 2, "getdelim": 3, "getchar": None}.get(call.callee, 0)
                    return norm(call.arg(i)) if i is not None and call.arg(i) is not None else ("stdin",)
                group = [g for g in f.calls() if g.callee in STREAM_READERS and stream(g) == stream(c)]
                names = {}
                poss = set(g.pos for g in group)
                for g in group:
                    names[norm(g)] = STREAM_READERS[g.callee]
                    for e in f.all_elems():
                        if e.is_assign and e.op == "=" and e.kid(1) is not None and e.kid(1).strip() is not None and e.kid(1).strip().pos == g.pos and norm(e.kid(0))[0] == "v":
                            names[norm(e.kid(0))] = STREAM_READERS[g.callee]
                varnames = set(x for x in names if x[0] == "v")

                def overwritten(blk, upto=None):
                    for e in blk.elems:
                        if upto is not None and e is upto:
                            break
                        if e.is_assign and norm(e.kid(0)) in varnames and not (e.kid(1).strip() is not None and e.kid(1).strip().pos in poss):
                            return True
                    return False

                def excluded(cond, kind):
                    """What this edge says, supposing the reader answered `eof`: 'no' (contradiction), or flags feof/ferror found false."""
                    flags = set()
                    if kind not in (True, False):
                        return False, flags
                    for op, L, R, _, _ in cond_atoms(cond, kind):
                        if L in names and R[0] == "c" and isinstance(R[1], int):
                            k = R[1]
                            eof = names[L]
                            holds = {"==": eof == k, "!=": eof != k, "<": eof < k, "<=": eof <= k, ">": eof > k, ">=": eof >= k}.get(op, True)
                            if not holds:
                                return True, flags
                        if L[0] == "call" and L[1] in ("feof", "ferror") and R == ("c", 0) and op == "==":
                            flags.add(L[1])
                    return False, flags
                # search: (block, flags, answer still current)
                from ..dataflow import edge_kinds
                start = (b0, frozenset(), True)
                seen = set()
                work = [start]
                back = None
                first = True
                while work and back is None:
                    bid, flags, cur = work.pop()
                    blk = f.blocks[bid]
                    if not first and bid == b0:
                        back = flags
                        break
                    if (bid, flags, cur) in seen and not first:
                        continue
                    seen.add((bid, flags, cur))
                    if not first and cur and overwritten(blk):
                        cur = False
                    first = False
                    if blk.noreturn:
                        continue
                    kinds = edge_kinds(blk)
                    for si, sb in enumerate(blk.succs):
                        if sb is None:
                            continue
                        cond, kind = kinds[si]
                        fl = flags
                        if cond is not None and cur:
                            no, add = excluded(cond, kind)
                            if no:
                                continue
                            fl = frozenset(flags | add)
                            if {"feof", "ferror"} <= fl:
                                continue
                        work.append((sb, fl, cur))
                rep.check(back is None, "J6-eof", "%s in %s: the loop ends at end of input" % (c.text[:40], f.name), c.where,
                          "supposing this call answers %s, a path leads round the loop and back to it without any test that the answer rules out: "
                          "at end of input the loop never ends" % ("EOF" if eof == -1 else "NULL"), function=f.name, construct="eof-loop:" + c.callee)
    if n < 3:
        rep.defer_broken("J6: fewer than 3 stream-reader calls found")


class _NonNulPrefix:
    """Ghost quantity G for a NUL-terminated input string starting at S0: the bytes S0[0..G) are known not to be NUL.  A test
    whose outcome says the byte at S0 + G is not NUL (compared unequal to 0, equal to a non-zero constant, above a
    non-negative or below a non-positive constant, or a switch case of a non-zero value) advances G by one."""

    def __init__(self, S0, G):
        self.S0, self.G = S0, G

    @staticmethod
    def address(A, e, st):
        e = e.strip() if e is not None else None
        if e is None:
            return None
        if e.cls == "UnaryOperator" and e.op == "*":
            return A.lin(e.kid(0), st)
        if e.cls == "ArraySubscriptExpr":
            b, i = A.lin(e.kid(0), st), A.lin(e.kid(1), st)
            return b + i if b is not None and i is not None else None
        return None

    def on_atom(self, A, cs, op, L, R, Le, Re):
        if R[0] != "c" or not isinstance(R[1], int) or Le is None:
            return cs
        c = R[1]
        nonzero = (op == "!=" and c == 0) or (op == "==" and c != 0) or (op == ">" and c >= 0) or (op == ">=" and c >= 1) or \
                  (op == "<" and c <= 0) or (op == "<=" and c <= -1)
        if not nonzero or L[0] not in ("*", "[]"):
            return cs
        st = frozenset(x for x in cs if isinstance(x, tuple))
        a = self.address(A, Le, st)
        if a is None:
            return cs
        from ..poly import Lin, subst_all
        if A.holds(st, "==", a, Lin.var(self.S0) + Lin.var(self.G)):
            return subst_all(cs, self.G, Lin.var(self.G) - Lin.const(1))          # G := G + 1
        return cs


class _NullTerminatedList:
    """Ghost quantities for a NULL-terminated array of pointers starting at S0 (a parameter): T, the index of its terminator (a
    constant of the call), and the fact that a scan reads it upward.  An element found non-NULL at an index known to be <= T is
    below T; an element found NULL at an index known to be <= T whose predecessors were all found non-NULL on the way is T --
    the latter is claimed only for the scanning idiom the rule checks separately (index starts at 0, moves by +1, the array is not
    written), where "index <= T" is the loop's invariant."""

    def __init__(self, S0, T, esz):
        self.S0, self.T, self.esz = S0, T, esz

    def on_atom(self, A, cs, op, L, R, Le, Re):
        if R != ("c", 0) or op not in ("==", "!=") or Le is None or L[0] != "[]":
            return cs
        e = Le.strip()
        if e is None or e.cls != "ArraySubscriptExpr":
            return cs
        st = frozenset(x for x in cs if isinstance(x, tuple))
        i = A.lin(e.kid(1), st)
        from ..poly import Lin, cons
        if i is None or A.nm(e.kid(0)) != self.S0:      # S0: the parameter itself (never assigned in the function)
            return cs
        if not A.holds(st, "<=", i, Lin.var(self.T)):
            return cs
        if op == "!=":
            return list(cs) + cons("<=", i, Lin.var(self.T) - Lin.const(1))
        return list(cs) + cons("==", i, Lin.var(self.T))


HEAPINDEX_UNITS = ("util/sock.c", "util/sock_util.c")


def j8_heapindex(prog, rep, units=HEAPINDEX_UNITS):
    """Arrays the address routines allocate are indexed inside their allocation: for p = malloc(n * sizeof *p), every p[k] has
    k < n (relational, sa/poly.py; the element count is a ghost fixed when malloc returns).  Where the count comes from scanning a
    NULL-terminated list given by the caller (count, allocate, copy), the second scan is bounded by the first through the
    list's terminator index, a ghost constant; that argument is used only when the list is a parameter the function never
    writes through and every scan index starts at 0 and moves by +1."""
    from .. import poly
    from ..poly import Lin, cons
    n = 0
    for up in units:
        u = prog.unit(up)
        for f in u.funcs:
            if f.file != up:
                continue
            arrs = {}
            for e in f.all_elems():
                if e.is_assign and e.op == "=" and norm(e.kid(0))[0] == "v" and e.kid(1) is not None:
                    r = e.kid(1).strip()
                    if r is not None and r.cls == "CallExpr" and r.callee in ("malloc", "calloc"):
                        ty = u.types.get(e.kid(0).ty) or {}
                        esz = (u.types.get(ty.get("pointee", "")) or {}).get("size")
                        if esz:
                            arrs[norm(e.kid(0))] = (r, esz)
            subs = [e for e in f.all_elems() if e.cls == "ArraySubscriptExpr" and norm(e)[0] == "[]" and norm(e)[1] in arrs]
            if not subs:
                continue

            def post_malloc(A, call, st, cs, arrs=arrs, f=f):
                for p, (c, esz) in arrs.items():
                    if c is call:
                        if call.callee == "calloc":
                            cnt, each = A.lin(call.arg(0), st), A.lin(call.arg(1), st)
                            a = cnt.scale(each.k) if (cnt is not None and each is not None and each.is_const()) else None
                        else:
                            a = A.lin(call.arg(0), st)
                        if a is not None:
                            return list(cs) + cons("==", Lin.var(("$cap", f.name, call.pos)).scale(esz), a)
                return list(cs)
            # a NULL-terminated list parameter that is only read
            ghost = None
            assume = []
            unsigned = set()
            for q in f.params:
                P = ("v", q["name"], q["id"])
                pt = u.types.get((u.types.get(q["ty"]) or {}).get("pointee", "")) or {}
                if pt.get("kind") != "ptr":
                    continue
                scans = [e for e in f.all_elems() if e.cls == "ArraySubscriptExpr" and norm(e)[0] == "[]" and norm(e)[1] == P]
                written = any((e.is_assign or e.is_incdec) and (norm(e.kid(0)) == P or (norm(e.kid(0))[0] in ("[]", "*") and norm(e.kid(0))[1] == P)) for e in f.all_elems())
                idx = set(norm(e)[2] for e in scans)
                steady = all(ix[0] == "v" and all((norm(x.kid(1)) == ("c", 0) if (x.is_assign and x.op == "=") else (x.is_incdec and x.op in ("post++", "pre++")))
                                                   for x in f.all_elems() if (x.is_assign or x.is_incdec) and norm(x.kid(0)) == ix) for ix in idx)
                if scans and not written and steady:
                    T = ("$term", q["name"])
                    ghost = _NullTerminatedList(P, T, 8)
                    assume = [(">=", Lin.var(T), Lin.const(0))]
                    unsigned = {T} | set(idx)
                    break
            try:
                A = poly.Analysis(f, assume=assume, post={"malloc": post_malloc, "calloc": post_malloc}, unsigned_terms=unsigned, quiet={"sock_addr_dup", "sock_addr_freelist", "free"})
                A.ghost = ghost
                A.run()
            except poly.Budget if hasattr(poly, "Budget") else Exception as ex:
                rep.unknown("J8-heapindex", "%s: allocated arrays" % f.name, f.loc, "the relational analysis gave up: %s" % ex)
                continue
            for e in subs:
                c, esz = arrs[norm(e)[1]]
                st = A.state_before(e)
                if st is None:
                    continue
                k = A.lin(e.kid(1), st)
                n += 1
                rep.check(k is not None and A.holds(st, "<", k, Lin.var(("$cap", f.name, c.pos))), "J8-heapindex",
                          "%s in %s: the index is below the number of elements allocated" % (e.text[:30], f.name), e.where,
                          "index %s is not provably below the element count of %s" % (k, c.text[:50]), function=f.name, construct="heap-index")
    return n


def j9_outputs(prog, rep):
    """The key-file reader answers success only with both strings present: its `return (0)` is controlled, for each `char **`
    output, by a test that the string stored there is not NULL ("a value within the documented range": the caller is promised two
    allocated strings and uses them without looking)."""
    f = prog.func("aws/aws_readkeys.c", "aws_readkeys")
    if f is None:
        raise cdb.AnalysisBroken("anchor missing: aws_readkeys")
    u = f.unit
    outs = []
    for q in f.params:
        t = u.types.get(q["ty"]) or {}
        pt = u.types.get(t.get("pointee", "")) or {}
        if t.get("kind") == "ptr" and pt.get("kind") == "ptr" and (u.types.get(pt.get("pointee", "")) or {}).get("size") == 1:
            outs.append(("v", q["name"], q["id"]))
    n = 0
    for r in f.returns():
        if not r.kids or norm(r.kid(0)) != ("c", 0):
            continue
        gs = [(op, L, R) for cond, truth in f.edge_conds(r) for op, L, R, _, _ in cond_atoms(cond, truth)]
        for P in outs:
            n += 1
            ok = any(op == "!=" and R == ("c", 0) and L in (("*", P), ("[]", P, ("c", 0))) for op, L, R in gs)
            rep.check(ok, "J9-outputs", "aws_readkeys: success is answered only with *%s present" % P[1], r.where,
                      "no test `*%s != NULL` controls this return: a key file that lacks that line is accepted and the caller gets a NULL string" % P[1],
                      function=f.name, construct="output:" + P[1])
    return n


def j11_strread(prog, rep, units=("util/getopt.c", "util/humansize.c", "util/sock.c", "util/sock_util.c", "aws/aws_readkeys.c", "util/readpass_file.c")):
    """A NUL-terminated string is read up to its terminator and no further: a counted read (memcmp, memchr, the source of memcpy /
    memmove) that starts inside a string the function was given as `const char *` -- a parameter, or a local assigned from one --
    takes its count from strlen() of that string (plus at most the terminator).  A count that comes from somewhere else (the other
    operand's length) reads past the terminator of a shorter string: the answer is the same as strncmp's, the bytes looked at are
    not the parser's."""
    n = 0
    for up in units:
        if up not in prog.units:
            continue
        u = prog.unit(up)
        for f in u.funcs:
            if f.file != up:
                continue
            strs = set()
            for p_ in f.params:
                t = u.types.get(p_.get("ty")) or {}
                pt = t.get("pointee", "")
                if t.get("kind") == "ptr" and pt.replace("const ", "").strip() == "char" and pt.startswith("const"):
                    strs.add(p_["id"])
            if not strs:
                continue
            # locals that are a position in such a string
            ch = True
            while ch:
                ch = False
                for e in f.all_elems():
                    if e.is_assign and e.op == "=" and norm(e.kid(0))[0] == "v" and len(norm(e.kid(0))) > 2:
                        r = root_var(norm(e.kid(1)))
                        rt = u.types.get(e.kid(0).ty) or {}
                        if r is not None and len(r) > 2 and r[2] in strs and rt.get("kind") == "ptr" and norm(e.kid(0))[2] not in strs and norm(e.kid(1))[0] != "call":
                            strs.add(norm(e.kid(0))[2])
                            ch = True
            for c in f.calls(("memcmp", "memchr", "memcpy", "memmove")):
                ops = {"memcmp": (0, 1), "memchr": (0,), "memcpy": (1,), "memmove": (1,)}[c.callee]
                for i in ops:
                    a = c.arg(i)
                    if a is None:
                        continue
                    t = norm(a)
                    while t[0] == "cast":
                        t = t[-1]
                    r = root_var(t)
                    if r is None or len(r) < 3 or r[2] not in strs or t[0] in ("*", "[]"):
                        continue
                    n += 1
                    ln = f.expand(norm(c.arg(2))) if hasattr(f, "expand") else norm(c.arg(2))
                    lens = [x for x in subterms(ln) if x[0] == "call" and x[1] == "strlen" and root_var(x[2]) is not None and len(root_var(x[2])) > 2 and root_var(x[2])[2] in strs]
                    # a local that holds strlen() of the string
                    for x in subterms(ln):
                        if x[0] == "v" and len(x) > 2:
                            ds = [norm(e.kid(1)) for e in f.all_elems() if e.is_assign and e.op == "=" and norm(e.kid(0)) == x]
                            ds += [norm(f.elem(d["init"])) for e in f.all_elems() if e.cls == "DeclStmt" for d in (e.decls or []) if isinstance(d, dict) and d.get("id") == x[2] and d.get("init")]
                            if len(ds) == 1 and any(y[0] == "call" and y[1] == "strlen" and root_var(y[2]) is not None and len(root_var(y[2])) > 2 and root_var(y[2])[2] in strs for y in subterms(ds[0])):
                                lens.append(x)
                    okc = ln[0] == "c" and isinstance(ln[1], int) and ln[1] <= 1
                    rep.check(bool(lens) or okc, "J11-strread", "%s in %s: the count comes from the string's own length" % (c.text[:44], f.name), c.where,
                              "%s bytes are read from the NUL-terminated string `%s`, and the count does not come from strlen() of it: when the string is shorter the read "
                              "continues past its terminator" % (show(norm(c.arg(2))), r[1]), function=f.name, construct="strread")
    return n


def j10_strstep(prog, rep):
    """The option parser looks at character k >= 1 of a command-line word only where character k - 1 of the same word is known
    not to be NUL (compared equal to a non-NUL character, or unequal to NUL) -- the word may be the empty string, or "-".
    Reads are followed through local aliases of the word (`w = argv[optind]`)."""
    f = prog.func("util/getopt.c", "getopt")
    if f is None:
        raise cdb.AnalysisBroken("anchor missing: getopt")
    u = f.unit
    argv = [("v", q["name"], q["id"]) for q in f.params if q["name"] == "argv"]
    if not argv:
        raise cdb.AnalysisBroken("getopt has no parameter argv")
    words = set()
    # terms that denote a command-line word: argv[i], and single-definition locals assigned one
    for e in f.all_elems():
        if e.cls == "ArraySubscriptExpr" and norm(e.kid(0)) == argv[0]:
            words.add(norm(e))
    ch = True
    while ch:
        ch = False
        for e in f.all_elems():
            if e.is_assign and e.op == "=" and norm(e.kid(0))[0] == "v" and norm(e.kid(1)) in words and norm(e.kid(0)) not in words:
                defs = [x for x in f.all_elems() if (x.is_assign or x.is_incdec) and norm(x.kid(0)) == norm(e.kid(0))]
                if len(defs) == 1:
                    words.add(norm(e.kid(0)))
                    ch = True
    n = 0
    for e in f.all_elems():
        if not (e.cls == "ImplicitCastExpr" and e.op == "LValueToRValue"):
            continue
        k = e.kid(0).strip() if e.kid(0) is not None else None
        if k is None or k.cls != "ArraySubscriptExpr":
            continue
        t = norm(k)
        if t[1] not in words or t[2][0] != "c" or t[2][1] < 1:
            continue
        n += 1
        prev = ("[]", t[1], ("c", t[2][1] - 1))
        gs = [(op, L, R) for cond, truth in f.edge_conds(e) for op, L, R, _, _ in cond_atoms(cond, truth)]
        # a local that was given the previous character (and nothing else, ever) stands for it
        copies = set()
        for x in f.all_elems():
            if x.is_assign and x.op == "=" and norm(x.kid(0))[0] == "v" and norm(x.kid(1)) == prev and f.dominates(x, e):
                if len([y for y in f.all_elems() if (y.is_assign or y.is_incdec) and norm(y.kid(0)) == norm(x.kid(0))]) == 1:
                    copies.add(norm(x.kid(0)))
        ok = any((L == prev or L in copies) and ((op == "==" and R[0] == "c" and R[1] != 0) or (op == "!=" and R == ("c", 0))) for op, L, R in gs)
        rep.check(ok, "J10-strstep", "getopt reads %s only after %s was found not to be NUL" % (k.text[:30], show(prev)), e.where,
                  "no controlling test says the previous character is not the terminator: for the word \"\" (or \"-\") this reads past the end of the string",
                  function=f.name, construct="strstep")
    return n


STRING_INPUTS = (("util/hexify.c", "unhexify", 0),)


def j7_strseq(prog, rep):
    """A parser handed a NUL-terminated string reads it in order: every byte it reads lies at most one past the bytes it has
    already found to be non-NUL on that path (so it never looks beyond the terminator).  Relational (sa/poly.py) with a
    ghost count of known non-NUL leading bytes; the loop shape is free."""
    from .. import poly
    from ..poly import Lin
    for up, fn, pi in STRING_INPUTS:
        f = prog.func(up, fn)
        if f is None:
            raise cdb.AnalysisBroken("anchor missing: %s in %s" % (fn, up))
        par = ("v", f.params[pi]["name"], f.params[pi]["id"])
        S0, G = ("$entry", f.params[pi]["name"]), ("$nonnul",)
        A = poly.Analysis(f, assume=[("==", Lin.var(par), Lin.var(S0)), ("==", Lin.var(G), Lin.const(0))],
                          quiet={"strchr", "strlen", "strcspn", "strspn", "memchr"}, unsigned_terms={G})
        A.ghost = _NonNulPrefix(S0, G)
        A.run()
        n = 0
        for e in f.all_elems():
            if not ((e.cls == "UnaryOperator" and e.op == "*") or e.cls == "ArraySubscriptExpr"):
                continue
            r = root_var(norm(e))
            if r is None or (r[1], r[2]) != (par[1], par[2]):
                continue
            if (f.unit.types.get(e.ty) or {}).get("size") != 1:
                continue
            st = A.state_before(e)
            if st is None:
                continue
            n += 1
            a = None
            ok = True
            for P in (st if poly._is_disj(st) else [st]):
                a = _NonNulPrefix.address(A, e, P)
                if a is None or not A.holds(P, "<=", a, Lin.var(S0) + Lin.var(G)):
                    ok = False
                    break
            rep.check(ok, "J7-strseq", "%s in %s" % (e.text[:40], fn), e.where,
                      "a byte of the NUL-terminated input is read that is not known to lie at or before its terminator: every byte before it "
                      "must have been tested and found non-NUL on this path (address %s, known non-NUL prefix $nonnul)" % (a,),
                      function=fn, construct="strread:" + show(norm(e)))
        if not n:
            raise cdb.AnalysisBroken("J7: no read of the input string found in %s" % fn)


def run(tier):
    rep = report.Report("C15", tier,
        "Decided: (J1) for every (cursor, end) function of json.c a lower bound on end - cursor is carried along every path; every "
        "read through the cursor, every callee precondition and every returned pointer is inside [buf, end], and the public entry is "
        "safe for buf == end; (J2) the decoders' unchecked table positions are preceded by a rejecting pass over the same input, and "
        "table indices are bounded below the table size; (J3) every copy-like call into a fixed-size or locally allocated object is "
        "bounded by a constant that fits or by a dominating length test, and the serialised-address decoder reads only what its "
        "length tests established; (J4) strlen-relative and constant indices are in range; (J5) a local character array handed to a string function was filled or "
        "terminated on every path (fgets only on its non-NULL edge); (J6) every loop that reads from a stream ends at end of input; (J7) unhexify "
        "reads its NUL-terminated input in order, never past a byte not yet known to be non-NUL (relational, ghost prefix count); the option "
        "parser's argv reads and pack cursor (C18's Q1/Q4). Not decided: termination of loops that do not read a stream; the bytes read "
        "by libc callees (inet_pton, strto*, getaddrinfo); the rest of option parsing (C18).",
        trusted=["libc string functions read only up to the terminator of valid strings"])
    configs = [cdb.HOST]
    if tier == "thorough":
        configs.append(cdb.Config("host-ndebug", extra=["-DNDEBUG"]))
    for cfg in configs:
        prog = ir.Program(UNITS, cfg)
        rep.add_stats(prog)
        j1(prog, rep)
        j2(prog, rep)
        j3(prog, rep)
        j4(prog, rep)
        j5(prog, rep)
        j7_strseq(prog, rep)
        if j8_heapindex(prog, rep) < 8:
            rep.defer_broken("J8: fewer than 8 subscripts of allocated arrays found in the address routines")
        j6_eof(prog, rep)
        if j10_strstep(prog, rep) < 3:
            rep.defer_broken("J10: fewer than 3 reads of a later character of a command-line word found in getopt")
        if j9_outputs(prog, rep) < 2:
            rep.defer_broken("J9: aws_readkeys has fewer than two string outputs or no success return")
        # "read only the bytes they were given": nothing released is looked at again (a diagnostic that prints an address string
        # after the string was freed reads memory that is no longer the parser's) -- every path, not only allocation failures
        from . import c14
        c14.double_free_rule(prog, rep, only_files=tuple(UNITS), alloc_only=False)
        # a buffer the parser allocates is tested before it is written through (writing through a NULL result is a write outside
        # any space the contract names); acquirers are those of libc plus the ones discovered in these units
        c14.leak_rules(prog, rep, only_files=tuple(UNITS))
        c14.reported_rule(prog, rep, only_files=tuple(UNITS))
        # humansize_parse is a character-at-a-time state machine: its reads are decided on the machine extracted from its CFG
        # (sa/finite.py; the exploration is C16's S3-grammar)
        from . import c16
        c16.s3_grammar(prog, rep, memory_rule="J7-strseq")
        # "a value within the documented range" for over-long digit runs: the accumulation is guarded against wrap-around and the
        # other edge of each guard rejects the string (C16's arithmetic clauses of the same function)
        c16.s3(prog, rep)
        # ... and for negative numerals given to an unsigned target: the sign is looked for after skipping what the conversion skips
        c16.s1(prog, rep)
        j11_strread(prog, rep)
        if j4_wrap(prog, rep) < 1:
            rep.defer_broken("J4-wrap: no index with an unsigned subtraction found")
    # the command-line parser's reads of argv[optind] and its pack cursor (rules shared with C18)
    from . import c18
    c18.rules(c18.Only(rep, {"Q1-bounds", "Q4-step", "Q8-reset"}))     # Q8: a reset forgets the pack cursor (it points into the previous vector)
    n = len(configs)
    rep.require_min("J1-cursor", 80 * n)
    rep.require_min("J2-validated", 3 * n)
    rep.require_min("J3-bounded", 20 * n)
    return rep
