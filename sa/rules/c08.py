"""C08 — HTTP client: memory-safe, terminates cleanly, limits respected."""
from .. import cdb, ir, report
from . import http_rules as H


ANCHORED = ("http/http.c", "netbuf/netbuf_read.c", "netbuf/netbuf_write.c", "network/network_connect.c")


def run(tier):
    rep = report.Report("C08", tier,
        "Decided on every path of http.c: exactly one disposition per handler path and no use of the request after release (LIN); "
        "no length-delimited window pointer reaches a NUL-terminated-string consumer without the guards that bound it (STRSAFE); the body "
        "budget invariant bodylen + readlen <= limit at every store of readlen and every addbody call, with the accounting pair and "
        "toobig's free/clear/mark sequence (B1); every completion with a response and every body handler is behind the 100..599 status "
        "test (B2); freed request fields are cleared before the request is passed on, and the body is handed to the caller before the "
        "request is released (FREENULL); in http.c, netbuf_read.c, netbuf_write.c and network_connect.c every acquisition is tested before "
        "use and released on every failure path, and realloc never overwrites its argument (NULLCHK, LEAK, REALLOC, shared with C14). Not decided: the header line-splitting assertions (a counting argument over header bytes), "
        "termination, leaks on success paths beyond the single release point.",
        trusted=["netbuf_read_peek returns a window of exactly buflen readable bytes", "strto*/sscanf semantics of libc"])
    configs = [cdb.HOST]
    if tier == "thorough":
        configs.append(cdb.Config("host-ndebug", extra=["-DNDEBUG"]))
    for cfg in configs:
        prog = ir.Program([H.UNIT, "netbuf/netbuf_write.c"], cfg)
        rep.add_stats(prog)
        L = H.lin_rule(prog, rep)
        nraw = H.strsafe(prog, rep)
        if nraw < 2:
            raise cdb.AnalysisBroken("STRSAFE: fewer than 2 uses of the raw window by string consumers/printf found")
        H.budget(prog, rep, L)
        if H.span_rule(prog, rep) < 1:
            raise cdb.AnalysisBroken("STRSAFE: the header/value split (span + 1) was not found in http.c")
        H.status_gate(prog, rep, L)
        H.freenull(prog, rep)
        H.cookie_init(prog, rep, L)
        H.eol_scan(prog, rep)
        if H.header_index(prog, rep) < 2:      # "never reads or writes outside its own buffers": the parsed-header array
            rep.defer_broken("W9-index: fewer than 2 subscripts of the parsed-header array found")
        H.chunk_framing(prog, rep)     # "never aborts": a consume of more than the line and its CRLF trips the reader's assertion
        if H.window_reads(prog, rep) < 2:
            rep.defer_broken("W11-inwindow: fewer than 2 reads of the window found in http.c")
        H.terminator_found(prog, rep)  # "never aborts": the parser is run only on a block whose blank line was seen
        H.header_count(prog, rep)      # "never aborts": lines are counted by the tokenizer that extracts them
        if H.announced_sizes(prog, rep) < 3:   # "ends with exactly one invocation of the callback": whatever length the server announces
            rep.defer_broken("W12: fewer than 3 allocations found in http.c")
        H.borrow_rule(prog, rep)       # nothing of the caller's request description is read after http_request() returns, except the body
        from . import c07, c14
        c07.orphan_rule(prog, rep)     # "leaks nothing": the request's writer must not orphan a queued buffer
        c07.reserve_room_rule(prog, rep)   # "never writes outside its own buffers": the space a reservation hands out is inside its buffer
        c07.writer(prog, rep)          # the request goes out through the buffered writer: its failure/in-flight discipline (F1-F3, SLOT; shared with C07)
        # "leaks nothing", "never reads or writes outside its own buffers": the allocation discipline of the anchored units
        # (acquisitions tested before use, released on every failure path, realloc never over its argument; rules shared with C14)
        wprog = ir.Program(None, cfg)
        c14.leak_rules(wprog, rep, only_files=ANCHORED)
        c14.double_free_rule(wprog, rep, only_files=tuple(ANCHORED) + ("http/https.c",), alloc_only=False)     # every path: "never reads outside its own (live) buffers"
        c14.realloc_nonzero_rule(wprog, rep, only_files=ANCHORED)
        # "never aborts, never reads or writes outside its buffers": the reader's window invariant and launch preconditions (shared with C07)
        c07.reader_window(wprog, rep)
        # the connection under the request: a descriptor that was closed is never reported as the connected socket (shared with C06)
        from . import c06
        c06.closed_fd_rule(wprog, rep)
        c06.close_registered_rule(wprog, rep)
        c06.borrow_ref_rule(wprog, rep, list(ANCHORED))
        # "exactly one invocation of the caller's callback": never from inside the call that creates the request, at any layer under it
        # (a synchronous completion from network_connect frees the HTTP request while http_request() is still filling it in)
        ns = c06.sync_callback_rule(wprog, rep, "network/network_connect.c", (c06.UNITS["network/network_connect.c"][2],))
        ns += c06.sync_callback_rule(wprog, rep, "http/http.c", ("http_request", "http_request2"))
        if ns < 2:
            raise cdb.AnalysisBroken("N7: the creating functions of network_connect.c / http.c were not found")
        # a completed operation's handle is dropped before the failure path can cancel through it (shared with C06/C07)
        if c06.handle_clear_rule(wprog, rep, list(ANCHORED)) < 5:
            raise cdb.AnalysisBroken("SLOT: fewer than 5 (handle field, completion callback) pairs found in the anchored units")
    n = len(configs)
    rep.require_min("LIN", 11 * n)
    rep.require_min("B1-store", 2 * n)
    rep.require_min("B2-status", 5 * n)
    rep.require_min("LEAK", 15 * n)
    rep.require_min("NULLCHK", 12 * n)
    return rep
