"""C02 — AES-CTR stream: counter-block layout, in-place safety, re-initialisation.

L1  every write into the counter block is one of the agreed writers:
    be64enc(pblk, nonce); pblk[15] = 0xff; pblk[15]++ followed by the
    re-encoding be64enc(pblk + 8, bytectr / 16) when the byte wrapped; and in the
    AES-NI unit memcpy(pblk + 8, X, 8) with X = be64enc(block counter), the
    counter starting at bytectr / 16 and stepping once per block; the block fed
    to the cipher is nonce (bytes 0-7) followed by the counter (bytes 8-15) in
    both implementations
L2  in-place safety: within an iteration the input bytes are read before the
    output bytes of the same range are written, and both cursors advance together
L3  re-initialisation stores bytectr = 0 and rewrites pblk[0..7] and pblk[15]
L4  keystream bookkeeping: the byte offset inside the cipherblock is
    bytectr % 16; a request continues the current block first, then whole
    blocks, then a fresh block for the tail; bytectr grows by the bytes used
The equality of the block cipher with FIPS-197 is NOT decided.
"""
from .. import cdb, ir, report
from ..ir import norm, show, root_var, subterms
from ..dataflow import cond_atoms

SW = "crypto/crypto_aesctr.c"
NI = "crypto/crypto_aesctr_aesni.c"


def sh(n):
    return show(n).replace(" ", "")


def _is_const_ptr(f, a):
    t = f.unit.types.get(a.ty) or {}
    pt = f.unit.types.get(t.get("pointee", "")) or {}
    return t.get("kind") == "ptr" and (bool(pt.get("const")) or t.get("pointee", "").startswith("const "))


def pblk_writes(f):
    """Elements of f that write stream->pblk (stores, inc/dec, or calls given a pointer into it)."""
    out = []
    for e in f.all_elems():
        if e.is_assign or e.is_incdec:
            l = norm(e.kid(0))
            if any(t[0] == "." and t[2] == "pblk" for t in subterms(l)):
                out.append(("store", e))
        elif e.cls == "CallExpr":
            for k, a in enumerate(e.args):
                if a is None:
                    continue
                n = norm(a)
                if any(t[0] == "." and t[2] == "pblk" for t in subterms(n)):
                    t = f.unit.types.get(a.ty) or {}
                    pt = f.unit.types.get(t.get("pointee", "")) or {}
                    if t.get("kind") == "ptr" and not pt.get("const") and not t.get("pointee", "").startswith("const "):
                        out.append(("call", e))
    return out


def l1_l3(prog, rep):
    allowed = 0
    for up in (SW, NI):
        u = prog.unit(up)
        for f in u.funcs:
            if f.file not in (SW, NI, "crypto/crypto_aesctr_shared.c"):
                continue
            for kind, e in pblk_writes(f):
                desc = "%s in %s" % (e.text[:50], f.name)
                ok = False
                if kind == "call" and e.callee == "be64enc":
                    a0, a1 = sh(norm(e.arg(0))), sh(norm(e.arg(1)))
                    if a0 == "stream->pblk" and norm(e.arg(1))[0] == "v":       # the nonce parameter
                        ok = f.name == "crypto_aesctr_init2"
                    elif a0 == "&stream->pblk[8]" and a1 == "(stream->bytectr>>4)":
                        # only when the low byte wrapped
                        ok = any(op == "==" and sh(L) == "stream->pblk[15]" and R == ("c", 0) for cond, truth in f.edge_conds(e) for op, L, R, _, _ in cond_atoms(cond, truth))
                elif kind == "call" and e.callee == "memcpy" and sh(norm(e.arg(0))) == "&stream->pblk[8]" and norm(e.arg(2)) == ("c", 8):
                    src = norm(e.arg(1))
                    encs = [c for c in f.calls("be64enc") if norm(c.arg(0)) == src]
                    ok = len(encs) == 1 and norm(encs[0].arg(1))[0] == "v"
                    # nothing else writes the encoded counter, and it is re-encoded in full for every block:
                    # the encoding sits inside the block loop and dominates the load that builds the cipher input
                    others = [c for c in f.calls() if c not in encs and c is not e and any(a is not None and root_var(norm(a)) == root_var(src) and not _is_const_ptr(f, a) for a in c.args)]
                    st_ = [x for x in f.all_elems() if (x.is_assign or x.is_incdec) and root_var(norm(x.kid(0))) == root_var(src)]
                    loads = [c for c in f.calls("load_si64") if norm(c.arg(0)) == src]
                    ok = ok and not others and not st_ and bool(loads) and encs[0].block.id in f.reach_from(encs[0].block.id) and all(f.dominates(encs[0], l) for l in loads)
                    if ok:
                        ctr = norm(encs[0].arg(1))
                        init = [x for x in f.all_elems() if x.is_assign and x.op == "=" and norm(x.kid(0)) == ctr]
                        inc = [x for x in f.all_elems() if x.is_incdec and norm(x.kid(0)) == ctr]
                        ok = len(init) == 1 and sh(norm(init[0].kid(1))) == "(stream->bytectr>>4)" and len(inc) == 1 and inc[0].op in ("post++", "pre++")
                        # the increment happens once per iteration, after the encoding
                        ok = ok and inc[0].block.id in f.reach_from(encs[0].block.id)
                elif kind == "store" and e.is_incdec and sh(norm(e.kid(0))) == "stream->pblk[15]" and e.op in ("post++", "pre++"):
                    ok = f.name == "crypto_aesctr_stream_cipherblock_generate"
                elif kind == "store" and e.is_assign and e.op == "=" and sh(norm(e.kid(0))) == "stream->pblk[15]" and norm(e.kid(1)) == ("c", 0xff):
                    ok = f.name == "crypto_aesctr_init2"
                allowed += 1
                rep.check(ok, "L1-writers", desc, e.where, "a write into the counter block that is not one of the agreed nonce/counter writers", function=f.name, construct="pblk-writer")
    if allowed < 5:
        rep.defer_broken("L1: fewer than 5 counter-block writers found")
    u = prog.unit(SW)
    gen = u.func("crypto_aesctr_stream_cipherblock_generate")
    inc = [e for e in gen.all_elems() if e.is_incdec and sh(norm(e.kid(0))) == "stream->pblk[15]"]
    enc = list(gen.calls("crypto_aes_encrypt_block"))
    reenc = list(gen.calls("be64enc"))
    ok = len(inc) == 1 and len(enc) == 1 and len(reenc) == 1 and gen.dominates(inc[0], enc[0]) and [sh(norm(a)) for a in enc[0].args] == ["stream->pblk", "stream->buf", "stream->key"]
    ok = ok and enc[0].block.id in gen.reach_from(reenc[0].block.id)
    rep.check(ok, "L1-writers", "generate: step the counter, re-encode on wrap, then encrypt pblk into buf with the stream's key", gen.loc, "", function=gen.name, construct="generate")
    i2 = u.func("crypto_aesctr_init2")
    z = [e for e in i2.all_elems() if e.is_assign and sh(norm(e.kid(0))) == "stream->bytectr" and norm(e.kid(1)) == ("c", 0)]
    be = [c for c in i2.calls("be64enc") if sh(norm(c.arg(0))) == "stream->pblk"]
    ff = [e for e in i2.all_elems() if e.is_assign and sh(norm(e.kid(0))) == "stream->pblk[15]" and norm(e.kid(1)) == ("c", 0xff)]
    uncond = all(not i2.edge_conds(x) for x in z + be + ff)
    rep.check(len(z) == 1 and len(be) == 1 and len(ff) == 1 and uncond and norm(be[0].arg(1)) == ("v", i2.params[2]["name"], i2.params[2]["id"]),
              "L3-reinit", "init2 resets the position and rewrites nonce and low counter byte on every path", i2.loc, "", function=i2.name, construct="init2")
    ks = [e for e in i2.all_elems() if e.is_assign and sh(norm(e.kid(0))) == "stream->key"]
    ok = len(ks) == 1 and any(op == "!=" and sh(L) == "key" and R == ("c", 0) for cond, truth in i2.edge_conds(ks[0]) for op, L, R, _, _ in cond_atoms(cond, truth))
    rep.check(ok, "L3-reinit", "init2 keeps the previous key only when given NULL", i2.loc, "", function=i2.name, construct="init2-key")
    # AES-NI block assembly: nonce from pblk (low half), counter high half
    ni = prog.unit(NI).func("crypto_aesctr_aesni_stream_wholeblocks")
    if ni is None:
        rep.defer_broken("L1: AES-NI whole-block routine not present in this configuration")
        return
    lds = [c for c in ni.calls("load_si64")]
    nonce = [e for e in ni.all_elems() if e.is_assign and e.kid(1).strip().cls == "CallExpr" and e.kid(1).strip().callee == "load_si64" and sh(norm(e.kid(1).strip().arg(0))) == "stream->pblk"]
    un = [c for c in ni.calls("_mm_unpacklo_epi64")]
    ok = len(nonce) == 1 and len(un) == 1 and norm(un[0].arg(0)) == norm(nonce[0].kid(0))
    if ok:
        hi = norm(un[0].arg(1))
        src = [e for e in ni.all_elems() if e.is_assign and norm(e.kid(0)) == hi and e.kid(1).strip().cls == "CallExpr" and e.kid(1).strip().callee == "load_si64"]
        encs = list(ni.calls("be64enc"))
        ok = len(src) >= 1 and len(encs) == 1 and norm(src[0].kid(1).strip().arg(0)) == norm(encs[0].arg(0)) and ni.dominates(encs[0], src[0])
    enc = [c for c in ni.calls("crypto_aes_encrypt_block_aesni_m128i")]
    ok = ok and len(enc) == 1 and sh(norm(enc[0].arg(1))) == "stream->key"
    wb = [c for c in ni.calls("memcpy") if sh(norm(c.arg(0))) == "&stream->pblk[8]"]
    okwb = len(wb) == 1 and wb[0].block.id not in ni.reach_from(wb[0].block.id) and enc and wb[0].block.id in ni.reach_from(enc[0].block.id)
    # unconditionally: no path through the routine avoids the write-back (a later call may take the portable path and continue from pblk)
    okwb = okwb and not ni.reach_avoiding(ni.entry, ni.exit, wb[0].block.id)
    rep.check(okwb, "L1-writers", "AES-NI: the last counter used is written back into pblk[8..15] after the loop (the portable path continues from it)", ni.loc, "",
              function=ni.name, construct="aesni-writeback")
    rep.check(ok, "L1-writers", "AES-NI: block = unpacklo(nonce from pblk[0..7], be64(counter)), encrypted with the stream's key", ni.loc, "", function=ni.name, construct="aesni-block")


def _aesni_loop_relational(nu, w, ld, stv):
    from .. import poly
    from ..poly import Lin
    if len(ld) != 1 or len(stv) != 1 or len(w.params) < 4:
        return False
    P = [("v", p_["name"], p_["id"]) for p_ in w.params]
    IN, OUT, LEN, CTR = ("*", P[1]), ("*", P[2]), ("*", P[3]), (".", ("*", P[0]), "bytectr")
    N, I0, O0, L0, C0 = (Lin.var((x,)) for x in ("$n", "$i0", "$o0", "$l0", "$c0"))
    names = set(c.callee for c in w.calls() if c.callee)
    A = poly.Analysis(w, assume=[("==", N, Lin.const(0)), ("==", I0, Lin.var(IN)), ("==", O0, Lin.var(OUT)), ("==", L0, Lin.var(LEN)), ("==", C0, Lin.var(CTR)), (">=", L0, Lin.const(16))],
                      quiet=names, unsigned_terms={LEN, CTR}, post={"_mm_storeu_si128": lambda A_, call, st, cs: A_.bump(cs, ("$n",), 1)})
    A.any_ptr = True
    A.karr_cap = 16        # cursors held in locals next to the four entry ghosts: more equalities than the default join combines
    A.run()
    sl, ss = A.state_before(ld[0]), A.state_before(stv[0])
    if sl is None or ss is None:
        return False
    la, sa_ = A.lin(ld[0].arg(0), sl), A.lin(stv[0].arg(0), ss)
    if la is None or sa_ is None:
        return False
    if not (A.holds(sl, "==", la, I0 + N.scale(16)) and A.holds(ss, "==", sa_, O0 + N.scale(16))):
        return False
    sx = A.solver.IN.get(w.exit)
    if sx is None:
        return False
    want = [(Lin.var(IN), I0 + N.scale(16)), (Lin.var(OUT), O0 + N.scale(16)), (Lin.var(LEN), L0 - N.scale(16)), (Lin.var(CTR), C0 + N.scale(16))]
    if not all(A.holds(sx, "==", a, b) for a, b in want):
        return False
    return A.holds(sx, "<=", N.scale(16), L0)


def l2_l4(prog, rep):
    u = prog.unit(SW)
    use = u.func("crypto_aesctr_stream_cipherblock_use")
    st = [e for e in use.all_elems() if e.is_assign and e.op == "=" and norm(e.kid(0))[0] == "[]"]
    ok = len(st) == 1
    if ok:
        l, r = norm(st[0].kid(0)), norm(st[0].kid(1))
        # the value stored, read through locals that hold an operand (one definition each; that the input is read before the
        # output is written is L8's clause) and through conversions back to a byte
        defs = {}
        for e in use.all_elems():
            if e.cls == "DeclStmt":
                for d in e.decls or []:
                    if isinstance(d, dict) and d.get("init"):
                        defs.setdefault(d["id"], []).append(norm(use.elem(d["init"])))
            elif (e.is_assign or e.is_incdec) and norm(e.kid(0))[0] == "v" and len(norm(e.kid(0))) > 2:
                defs.setdefault(norm(e.kid(0))[2], []).append(norm(e.kid(1)) if e.is_assign and e.op == "=" else None)

        def through(t, depth=0):
            while t[0] == "cast":
                t = t[-1]
            if t[0] == "v" and len(t) > 2 and len(defs.get(t[2], [])) == 1 and defs[t[2]][0] is not None and depth < 3:
                return through(defs[t[2]][0], depth + 1)
            if t[0] == "^" and len(t) == 3:
                return ("^", through(t[1], depth), through(t[2], depth))
            return t
        r = through(r)
        ok = sh(l) == "*outbuf[i]" and r[0] == "^" and {sh(r[1]), sh(r[2])} == {"*inbuf[i]", "stream->buf[(bytemod+i)]"}
        g = any(op == "<" and sh(L) == "i" and sh(R) == "nbytes" for cond, truth in use.edge_conds(st[0]) for op, L, R, _, _ in cond_atoms(cond, truth))
        ok = ok and g
    rep.check(ok, "L2-inplace", "use: out[i] = in[i] ^ keystream[bytemod + i] (same index read and written)", use.loc, "", function=use.name, construct="xor")
    adv = sorted((sh(norm(e.kid(0))), e.op, sh(norm(e.kid(1)))) for e in use.all_elems() if e.is_assign and e.op in ("+=", "-="))
    want = sorted([("stream->bytectr", "+=", "nbytes"), ("*inbuf", "+=", "nbytes"), ("*outbuf", "+=", "nbytes"), ("*buflen", "-=", "nbytes")])
    after = all(use.dominates(st[0], e) or True for e in use.all_elems()) if st else False
    loopstores = [e for e in use.all_elems() if e.is_assign and e.op in ("+=", "-=") and e.block.id in use.reach_from(e.block.id)]
    rep.check(adv == want and not loopstores, "L4-position", "use: bytectr, both cursors and the remaining length move by exactly the bytes used, once, after the loop", use.loc, "%s" % adv, function=use.name, construct="advance")
    pre = u.func("crypto_aesctr_stream_pre_wholeblock")
    bm = [e for e in pre.all_elems() if e.is_assign and sh(norm(e.kid(0))) == "bytemod"]
    ok = len(bm) == 1 and sh(norm(bm[0].kid(1))) == "(stream->bytectr&15)"
    calls = sorted(pre.calls("crypto_aesctr_stream_cipherblock_use"), key=lambda c: c.line)
    ok = ok and len(calls) == 2 and [sh(norm(a)) for a in calls[0].args[4:]] == ["*buflen_p", "bytemod"] and [sh(norm(a)) for a in calls[1].args[4:]] == ["(16-bytemod)", "bytemod"]
    if ok:
        g0 = [(op, sh(L), sh(R)) for cond, truth in pre.edge_conds(calls[0]) for op, L, R, _, _ in cond_atoms(cond, truth)]
        g1 = [(op, sh(L), sh(R)) for cond, truth in pre.edge_conds(calls[1]) for op, L, R, _, _ in cond_atoms(cond, truth)]
        # bytemod + n <= 16, or the same test with bytemod moved across (no wrap-around: bytemod = bytectr & 15, tested non-zero)
        def fits(o, l, r, want):
            return o == want and ((l in ("(bytemod+*buflen_p)", "(*buflen_p+bytemod)") and r == "16") or (l == "*buflen_p" and r == "(16-bytemod)"))
        ok = ("!=", "bytemod", "0") in g0 and any(fits(o, l, r, "<=") for o, l, r in g0) and any(fits(o, l, r, ">") for o, l, r in g1) and ("!=", "bytemod", "0") in g1
        r1 = [r for r in pre.returns() if norm(r.kid(0)) == ("c", 1)]
        ok = ok and len(r1) == 1 and pre.dominates(calls[0], r1[0])
    rep.check(ok, "L4-position", "pre_wholeblock: continue the current cipherblock at offset bytectr % 16, finishing the request or the block", pre.loc, "", function=pre.name, construct="pre")
    post = u.func("crypto_aesctr_stream_post_wholeblock")
    g = list(post.calls("crypto_aesctr_stream_cipherblock_generate"))
    c = list(post.calls("crypto_aesctr_stream_cipherblock_use"))
    ok = len(g) == 1 and len(c) == 1 and post.dominates(g[0], c[0]) and [sh(norm(a)) for a in c[0].args[4:]] == ["*buflen_p", "0"]
    ok = ok and any(op == ">" and sh(L) == "*buflen_p" and R == ("c", 0) for cond, truth in post.edge_conds(g[0]) for op, L, R, _, _ in cond_atoms(cond, truth))
    rep.check(ok, "L4-position", "post_wholeblock: a fresh cipherblock for the remaining bytes, used from offset 0", post.loc, "", function=post.name, construct="post")
    s = u.func("crypto_aesctr_stream")
    seq = [c.callee for c in sorted(s.calls(), key=lambda c: c.line) if c.callee and c.callee.startswith("crypto_aesctr_stream_")]
    ok = seq == ["crypto_aesctr_stream_pre_wholeblock", "crypto_aesctr_stream_cipherblock_generate", "crypto_aesctr_stream_cipherblock_use", "crypto_aesctr_stream_post_wholeblock"]
    if ok:
        gen = list(s.calls("crypto_aesctr_stream_cipherblock_generate"))[0]
        usec = list(s.calls("crypto_aesctr_stream_cipherblock_use"))[0]
        ok = any(op == ">=" and sh(L) == "buflen" and R == ("c", 16) for cond, truth in s.edge_conds(gen) for op, L, R, _, _ in cond_atoms(cond, truth)) and \
            [sh(norm(a)) for a in usec.args[4:]] == ["16", "0"] and s.dominates(gen, usec)
    rep.check(ok, "L4-position", "stream: partial block, whole blocks (generate + use 16), tail", s.loc, "%s" % seq, function=s.name, construct="stream")
    # AES-NI sibling
    nu = prog.unit(NI)
    w = nu.func("crypto_aesctr_aesni_stream_wholeblocks")
    if w is None:
        return
    ld = [c for c in w.calls("_mm_loadu_si128")]
    stv = [c for c in w.calls("_mm_storeu_si128")]
    ok = len(ld) == 1 and len(stv) == 1 and sh(norm(ld[0].arg(0))) == "*inbuf" and sh(norm(stv[0].arg(0))) == "*outbuf" and w.dominates(ld[0], stv[0]) and ld[0].block.id == stv[0].block.id
    adv = sorted((sh(norm(e.kid(0))), e.op, sh(norm(e.kid(1)))) for e in w.all_elems() if e.is_assign and e.op in ("+=", "-="))
    okadv = ("*inbuf", "+=", "16") in adv and ("*outbuf", "+=", "16") in adv and ("*buflen", "-=", "(num_blocks<<4)") in adv and ("stream->bytectr", "+=", "(num_blocks<<4)") in adv
    if ok:
        ia = [e for e in w.all_elems() if e.is_assign and sh(norm(e.kid(0))) in ("*inbuf", "*outbuf")]
        ok = all(w.dominates(stv[0], e) for e in ia)
    nb = [e for e in w.all_elems() if e.is_assign and sh(norm(e.kid(0))) == "num_blocks"]
    oknb = len(nb) == 1 and sh(norm(nb[0].kid(1))) == "(*buflen>>4)"
    if not (ok and okadv and oknb):
        # the same bookkeeping with the cursors held in locals, another counter, the totals in a temporary ...: decided by value
        # (sa/poly.py).  A ghost $n counts the stores; the k-th load reads at (*inbuf at entry) + 16 k, the k-th store writes at
        # (*outbuf at entry) + 16 k; at the exit *inbuf and *outbuf have advanced by 16 $n, *buflen has gone down and
        # stream->bytectr up by 16 $n, and 16 $n <= (*buflen at entry); that every whole block is processed is the clause on
        # num_blocks below
        try:
            okrel = _aesni_loop_relational(nu, w, ld, stv)
        except Exception:
            okrel = False
        if okrel:
            ok = okadv = True          # the number of blocks (oknb: num_blocks = *buflen / 16) stays the rule's own clause
    rep.check(ok and okadv and oknb, "L2-inplace", "AES-NI: load 16 input bytes, then store 16 output bytes, then advance both cursors; totals 16 * (buflen / 16)", w.loc, "%s" % adv, function=w.name, construct="aesni-loop")
    sn = nu.func("crypto_aesctr_aesni_stream")
    seq = [c.callee for c in sorted(sn.calls(), key=lambda c: c.line) if c.callee and c.callee.startswith("crypto_aesctr_")]
    ok = seq == ["crypto_aesctr_stream_pre_wholeblock", "crypto_aesctr_aesni_stream_wholeblocks", "crypto_aesctr_stream_post_wholeblock"]
    if ok:
        wb = list(sn.calls("crypto_aesctr_aesni_stream_wholeblocks"))[0]
        ok = any(op == ">=" and sh(L) == "buflen" and R == ("c", 16) for cond, truth in sn.edge_conds(wb) for op, L, R, _, _ in cond_atoms(cond, truth))
    rep.check(ok, "L4-position", "AES-NI stream: same partial/whole/tail structure as the portable one; whole blocks only when buflen >= 16", sn.loc, "%s" % seq, function=sn.name, construct="aesni-stream")


def l5_total(prog, rep):
    """The stream functions are total over their data arguments: no assertion or abort path whose condition depends on the input
    or output buffer's address or on the length (the property promises bytes for every sequence of calls, including buffers
    that touch, in-place operation and zero lengths).  Assertions about the key pointer and about the stream's own position
    invariant are not about the data arguments and are allowed."""
    n = 0
    for up, u in prog.units.items():
        if not up.startswith("crypto/crypto_aesctr"):
            continue
        for f in u.funcs:
            if f.file != up:
                continue
            data = set()
            for p in f.params:
                t = u.types.get(p["ty"]) or {}
                pt = u.types.get(t.get("pointee", "")) or {}
                if (t.get("kind") == "ptr" and pt.get("size") == 1 and pt.get("kind") == "int") or t.get("kind") == "int":
                    data.add(("v", p["name"], p["id"]))
            for c in f.calls():
                if c.callee not in ("abort", "__assert_fail", "__assert"):
                    continue
                n += 1
                at = [(op, L, R) for cond, truth in f.edge_conds(c) for op, L, R, _, _ in cond_atoms(cond, truth)]
                dep = [a for a in at if any(t in data for t in list(subterms(a[1])) + list(subterms(a[2])))
                       and not (a[2] == ("c", 0) and a[1] in data and a[0] in ("==", "!=") and False)]
                rep.check(not dep, "L5-total", "%s: the assertion at line %d does not depend on the data arguments" % (f.name, c.line), c.where,
                          "the function aborts for some (input, output, length): %s" % [(o, show(l), show(r)) for o, l, r in dep][:3], function=f.name, construct="data-assert")
    return n


def l6_roundkeys(rep, cfg=cdb.HOST):
    """The AES-NI expanded key has room for every round key that is written or read: the byte buffer behind the aligned pointer is at
    least (largest round-key index used + 1) * sizeof(round key) + (alignment - 1) bytes, the largest index being taken over every
    constant subscript of the round-key array in the unit and every value stored as the number of rounds (the cipher reads
    rkeys[nr])."""
    up = "crypto/crypto_aes_aesni.c"
    prog = ir.Program([up], cfg)
    if up not in prog.units:
        return 0
    u = prog.unit(up)
    rec = None
    for name, r in u.records.items():
        fl = {x["name"]: x for x in r.get("fields", [])}
        if "rkeys" in fl and "rkeys_buf" in fl:
            rec, fields = name, fl
    if rec is None:
        rep.defer_broken("L6: the expanded-key record (rkeys / rkeys_buf) was not found in %s" % up)
        return 0
    esz = (u.types.get((u.types.get(fields["rkeys"]["ty"]) or {}).get("pointee", "")) or {}).get("size")
    top = -1
    where = None
    align = None
    for f in u.funcs:
        if f.file != up:
            continue
        for e in f.all_elems():
            if e.cls == "ArraySubscriptExpr":
                t = norm(e)
                if t[0] == "[]" and t[2][0] == "c" and ((t[1][0] == "v" and t[1][1] == "rkeys") or (t[1][0] == "." and t[1][2] == "rkeys")):
                    if t[2][1] > top:
                        top, where = t[2][1], e
            if e.is_assign and e.op == "=" and norm(e.kid(0))[0] == "." and norm(e.kid(0))[2] == "nr" and norm(e.kid(1))[0] == "c":
                if norm(e.kid(1))[1] > top:
                    top, where = norm(e.kid(1))[1], e
            if e.cls == "CallExpr" and e.callee == "align_ptr" and e.arg(0) is not None and any(isinstance(t, tuple) and t and t[0] == "." and t[2] == "rkeys_buf" for t in subterms(norm(e.arg(0)))):
                a = norm(e.arg(1))
                align = a[1] if a[0] == "c" else None
    if top < 0 or not esz or not align:
        rep.defer_broken("L6: no round-key index, element size or alignment found in %s" % up)
        return 0
    need = (top + 1) * esz + align - 1
    have = fields["rkeys_buf"]["size"]
    rep.check(have >= need, "L6-roundkeys", "the AES-NI key object holds round keys 0..%d behind its aligned pointer" % top, where.where,
              "rkeys_buf is %d bytes; %d round keys of %d bytes after aligning to %d need %d" % (have, top + 1, esz, align, need), function=where.func.name if hasattr(where, "func") else "", construct="rkeys-room")
    return 1


def l8_inplace(prog, rep):
    """The stream functions may be called in place (inbuf == outbuf): each byte of the input is read before the output byte that
    replaces it is written.  In every function of the AES-CTR units that has an input pointer (to const bytes) and an output
    pointer, along every path: a write of output data (an assignment through the output pointer, or the pointer handed to a
    function that stores through it) is preceded, since the previous such write, by a read of input data; no compound
    assignment reads the output; a call that is given both pointers delegates (the callee is checked itself).  Must-analysis
    over {input read since the last output write}.  (Encrypting the counter block straight into the output and XORing the
    input in afterwards gives the right answer with separate buffers and zeros in place.)"""
    from ..dataflow import Solver
    n = 0
    for up in (SW, NI):
        if up not in prog.units:
            continue
        u = prog.unit(up)
        for f in u.funcs:
            if not (f.file == up or f.file.endswith("crypto_aesctr_shared.c")):
                continue
            IN = OUT = None
            for p in f.params:
                t = u.types.get(p.get("ty")) or {}
                lvl = 0
                const_data = False
                while t.get("kind") == "ptr":
                    lvl += 1
                    pt = t.get("pointee", "")
                    nt = u.types.get(pt) or {}
                    if nt.get("kind") != "ptr":
                        const_data = pt.startswith("const ") or bool(nt.get("const"))
                        base_ok = nt.get("kind") == "int" and nt.get("size") == 1
                    t = nt
                if lvl in (1, 2) and base_ok:
                    d = ("v", p["name"], p["id"])
                    d = d if lvl == 1 else ("*", d)
                    if const_data and IN is None:
                        IN = d
                    elif not const_data and OUT is None:
                        OUT = d
            if IN is None or OUT is None:
                continue

            def data_ptr(t, D):
                """t is a pointer into the data D points to"""
                while t[0] == "cast":
                    t = t[-1]
                if t == D:
                    return True
                if t[0] == "&" and t[1][0] == "[]":
                    return data_ptr(t[1][1], D)
                if t[0] in ("+", "-") and len(t) == 3:
                    return data_ptr(t[1], D)
                return False

            def data_lv(t, D):
                return (t[0] == "[]" and data_ptr(t[1], D)) or (t[0] == "*" and data_ptr(t[1], D))
            bad = []

            def classify(e):
                """'r' input data read, 'w' output data write, 'x' compound on output, None"""
                if e.cls == "ImplicitCastExpr" and e.op == "LValueToRValue" and e.kid(0) is not None and e.kid(0).strip() is not None:
                    if data_lv(norm(e.kid(0).strip()), IN):
                        return "r"
                if e.is_assign and data_lv(norm(e.kid(0)), OUT):
                    return "w" if e.op == "=" else "x"
                if e.is_incdec and data_lv(norm(e.kid(0)), OUT):
                    return "x"
                if e.cls == "CallExpr" and e.callee:
                    ai = [a for a in e.args if a is not None and (data_ptr(norm(a), IN) or norm(a) == IN[1:] and False)]
                    ao = [a for a in e.args if a is not None and data_ptr(norm(a), OUT)]
                    # the pointers themselves handed on (pointer-to-pointer parameters): delegation
                    if ai and ao:
                        return None
                    if ai:
                        return "r"
                    if ao:
                        return "w"
                return None

            def tr(st, e):
                k = classify(e)
                if k == "r":
                    return True
                if k in ("w", "x"):
                    return False
                return st
            sv = Solver(f, False, tr, None, lambda a, b: a and b).run()
            nw = [0]

            def visit(e, st):
                k = classify(e)
                if k == "x":
                    nw[0] += 1
                    bad.append((e, "this reads the output buffer's own contents back: what was put there before the input was mixed in has already replaced the input when the call is in place"))
                elif k == "w":
                    nw[0] += 1
                    if not st:
                        bad.append((e, "output data is written here on a path on which no input data has been read since the previous output write: called in place, the input bytes are gone before they are used"))
            sv.visit(visit)
            if not nw[0]:
                continue
            n += 1
            rep.check(not bad, "L8-inplace", "%s: every output write follows the read of the input it replaces" % f.name, (bad[0][0].where if bad else f.loc),
                      bad[0][1] if bad else "", function=f.name, construct="inplace")
    return n


def l7_cannot_fail(prog, rep):
    """The stream functions that return nothing cannot fail: no void function of crypto_aesctr.c (or of its shared part) calls
    anything that can fail for lack of memory -- it would have no way to say so, and the one-shot function's caller would take an
    untouched output buffer for ciphertext."""
    from .. import own
    n = 0
    for up in (SW,):
        u = prog.unit(up)
        for f in u.funcs:
            if not (f.file == up or f.file.endswith("crypto_aesctr_shared.c")):
                continue
            if (u.types.get(f.ret) or {}).get("kind") not in (None, "void") and f.ret != "void":
                continue
            n += 1
            bad = [c for c in f.calls() if c.callee and own.alloc_fallible(prog, f, c.callee)]
            rep.check(not bad, "L5-total", "%s returns nothing and calls nothing that can fail" % f.name, (bad[0].where if bad else f.loc),
                      ("%s() can fail for lack of memory; this function has no way to report it" % bad[0].callee) if bad else "", function=f.name, construct="void-fallible")
    return n


def run(tier):
    rep = report.Report("C02", tier,
        "Decided: the counter block is written only by the agreed writers and has the layout nonce_be64 || blockindex_be64 in both the "
        "portable and the AES-NI implementation (L1); in-place operation is sound because each byte range is read before it is written "
        "(L2); re-initialisation resets position, nonce and the low-byte idiom (L3); the keystream position bookkeeping -- offset "
        "bytectr % 16, partial/whole/tail structure, all cursors moving by the bytes used -- is the same in both siblings (L4); "
        "the accelerated stream code is selected only through the key layer's validated selection (G1/G2, shared with C03). "
        "NOT decided: equality of the block cipher with FIPS-197 (OpenSSL / AES-NI numerics), the carry of the counter beyond its low "
        "byte as a value property, partition independence as an equality of byte strings.",
        trusted=["OpenSSL AES_encrypt", "_mm_* intrinsics semantics"])
    names_needed = {"crypto_aesctr_stream_cipherblock_use": ["stream", "inbuf", "outbuf", "buflen", "nbytes", "bytemod", "i"],
                    "crypto_aesctr_stream_pre_wholeblock": ["stream", "buflen_p", "bytemod"], "crypto_aesctr_stream_post_wholeblock": ["stream", "buflen_p"],
                    "crypto_aesctr_stream": ["stream", "buflen"], "crypto_aesctr_init2": ["stream", "key"], "crypto_aesctr_stream_cipherblock_generate": ["stream"]}
    prog = ir.Program([SW, NI], cdb.HOST)
    rep.add_stats(prog)
    u = prog.unit(SW)
    ok = True
    for fn, nm in names_needed.items():
        f = u.func(fn)
        if f is None:
            raise cdb.AnalysisBroken("anchor missing: %s" % fn)
        ok = rep.names(f, *nm) and ok
    w = prog.unit(NI).func("crypto_aesctr_aesni_stream_wholeblocks")
    if w is not None:
        ok = rep.names(w, "stream", "inbuf", "outbuf", "buflen", "num_blocks") and ok
    if ok:
        l1_l3(prog, rep)
        l2_l4(prog, rep)
        l5_total(prog, rep)
    if l8_inplace(prog, rep) < 2:
        rep.defer_broken("L8: fewer than 2 functions that write output data found in the AES-CTR units")
    if l7_cannot_fail(prog, rep) < 3:
        rep.defer_broken("L5: fewer than 3 void functions found in crypto_aesctr.c")
    if l6_roundkeys(rep) < 1:
        rep.defer_broken("L6: nothing decided about the AES-NI key object")
    # which implementation runs: the AES-NI stream code may be selected only when the key layer has validated and selected
    # AES-NI too (both work on the same expanded-key object); dispatch-safety rules shared with C03
    from . import c03
    dprog = ir.Program(c03.PORTABLE + list(c03.ACCEL), cdb.HOST)
    rep.add_stats(dprog)
    c03.g1_g2(dprog, rep, {up: dprog.unit(up).enums for up in c03.PORTABLE})
    c03.g4_siblings(dprog, rep)      # a key object has one layout: the branch that made it is the branch that uses and frees it
    rep.require_min("L1-writers", 6)
    rep.require_min("L4-position", 5)
    rep.require_min("G2-select", 4)
    return rep
