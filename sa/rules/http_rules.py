"""Rules over http/http.c shared by C08 (safety, termination, limits) and C09
(exact decoding, request verbatim)."""
from .. import cdb, ir, lin, own
from ..ir import norm, show, root_var, subterms, _pure
from ..dataflow import Solver, cond_atoms
from ..facts import Facts

UNIT = "http/http.c"
REC = "http_cookie"
STRING_CONSUMERS = {"strlen": (0,), "strcmp": (0, 1), "strncmp": (0, 1), "strstr": (0, 1), "strchr": (0,), "strrchr": (0,),
                    "strcspn": (0, 1), "strspn": (0, 1), "strdup": (0,), "stpcpy": (1,), "strcpy": (1,), "sscanf": (0,),
                    "atoi": (0,), "strtol": (0,), "strtoul": (0,), "strtoimax": (0,), "strtoumax": (0,), "strtod": (0,),
                    "parsenum_float": (0,), "parsenum_signed": (0,), "parsenum_unsigned": (0,)}
STRTO_FAMILY = {"strtol", "strtoul", "strtoimax", "strtoumax", "strtod", "parsenum_float", "parsenum_signed", "parsenum_unsigned", "atoi"}
PRINTF_LIKE = {"warn0": 0, "warnp": 0, "warn": 0, "warnx": 0, "libcperciva_warn": 0, "libcperciva_warnx": 0, "printf": 0, "fprintf": 1, "snprintf": 2}
RAW_SOURCES = {"netbuf_read_peek": (1,)}     # out-parameters that receive a pointer to length-delimited bytes


def F(prog, name):
    return prog.func(UNIT, name)


# ---------------------------------------------------------------------------
def lin_rule(prog, rep):
    L = lin.Lin(prog, UNIT, REC, ("http_request_cancel",))
    u = prog.unit(UNIT)
    for h in sorted(L.handlers):
        f = u.func(h)
        v = L.analyze(f)
        if v:
            for e, m in v:
                rep.bad("LIN", "%s: %s" % (h, e.text[:50]), e.where, m, function=h, construct="lin:" + m[:40])
        else:
            rep.ok("LIN", h, f.loc, "dispositions of its %d return paths: %s" % (len(L.paths), ",".join(sorted(set(x or "?" for x in L.paths)))))
    return L


# ---------------------------------------------------------------------------
def continuation_graph(prog, L):
    """edges[g] = set of handler-like functions g can pass the request to
    (tail calls and registrations naming a handler)."""
    u = prog.unit(UNIT)
    edges = {}
    for f in u.funcs:
        if f.file != UNIT:
            continue
        out = set()
        for c in f.calls():
            if c.callee in L.handlers:
                out.add(c.callee)
            for a in c.args:
                if a is None:
                    continue
                n = norm(a)
                if n[0] == "fn" and n[1] in L.handlers:
                    out.add(n[1])
        edges[f.name] = out
    return edges


def preds_closure(edges, name):
    """Functions from which `name` is reachable in the continuation graph."""
    res = set()
    work = [name]
    while work:
        n = work.pop()
        for g, outs in edges.items():
            if n in outs and g not in res:
                res.add(g)
                work.append(g)
    return res


# ---------------------------------------------------------------------------
def raw_vars(prog):
    """{function name: set of variable ids holding a pointer to the reader's
    length-delimited window}, propagated through calls inside the unit."""
    u = prog.unit(UNIT)
    raw = {f.name: set() for f in u.funcs}
    for f in u.funcs:
        for c in f.calls():
            if c.callee in RAW_SOURCES:
                for k in RAW_SOURCES[c.callee]:
                    n = norm(c.arg(k)) if c.arg(k) is not None else None
                    if n and n[0] == "&" and n[1][0] == "v":
                        raw[f.name].add(n[1][2])
    changed = True
    while changed:
        changed = False
        for f in u.funcs:
            for c in f.calls():
                g = u.func(c.callee) if c.callee else None
                if g is None or g.file != UNIT:
                    continue
                for k, a in enumerate(c.args):
                    if a is None or k >= len(g.params):
                        continue
                    n = norm(a)
                    if n[0] == "v" and n[2] in raw[f.name] and g.params[k]["id"] not in raw[g.name]:
                        raw[g.name].add(g.params[k]["id"])
                        changed = True
    return raw


def strsafe(prog, rep):
    u = prog.unit(UNIT)
    raw = raw_vars(prog)
    nraw = 0
    nother = 0
    for f in u.funcs:
        if f.file != UNIT:
            continue
        R = raw.get(f.name, set())
        for c in f.calls():
            cal = c.callee
            idxs = ()
            if cal in STRING_CONSUMERS:
                idxs = STRING_CONSUMERS[cal]
            for k in idxs:
                a = c.arg(k)
                if a is None:
                    continue
                n = norm(a)
                r = root_var(n)
                if r is None or r[2] not in R:
                    nother += 1
                    continue
                if cal.startswith("parsenum_") and any(m.startswith("PARSENUM") for m in c.macro):
                    # PARSENUM's run-time type dispatch: only the branch matching the target's type can execute
                    want = _parsenum_branch(f, c)
                    if want is not None and want != cal:
                        continue
                nraw += 1
                inst = "%s(%s) in %s" % (cal, show(n), f.name)
                if cal in STRTO_FAMILY and n[0] == "v":
                    # (i) a terminator is known to lie inside the window; (ii) the first byte was inspected
                    term_ok = _terminator_known(f, c, n)
                    first_ok = _first_byte_checked(f, c, n)
                    rep.check(term_ok and first_ok, "STRSAFE", inst, c.where,
                              "bytes from netbuf_read_peek are not NUL-terminated: a strto*-style conversion may be applied to the start of the window only "
                              "when a terminator inside the window stops it (terminator known: %s) and its leading-whitespace skip cannot run past that "
                              "terminator (first byte inspected: %s)" % (term_ok, first_ok),
                              function=f.name, construct="strsafe:%s" % cal)
                else:
                    rep.bad("STRSAFE", inst, c.where, "length-delimited bytes reach a NUL-terminated-string consumer",
                            function=f.name, construct="strsafe:%s" % cal)
            if cal in PRINTF_LIKE:
                fmt = c.arg(PRINTF_LIKE[cal])
                fs = fmt.strip() if fmt is not None else None
                if fs is not None and fs.strv is not None:
                    specs = _printf_specs(fs.strv.decode("latin1"))
                    ai = PRINTF_LIKE[cal] + 1
                    for spec in specs:
                        for part in spec:
                            a = c.arg(ai)
                            ai += 1
                            if part == "s" and a is not None:
                                r = root_var(norm(a))
                                if r is not None and r[2] in R:
                                    nraw += 1
                                    rep.bad("STRSAFE", "%%s of %s in %s" % (show(norm(a)), f.name), c.where,
                                            "length-delimited bytes printed with %s and no precision", function=f.name, construct="strsafe:%s")
                            elif part == ".*s" and a is not None:
                                r = root_var(norm(a))
                                if r is not None and r[2] in R:
                                    nraw += 1
                                    rep.ok("STRSAFE", "%%.*s of %s in %s" % (show(norm(a)), f.name), c.where, "precision given")
    # sgetline's own guarantee: it stores a NUL inside the bound it asserted
    g = u.func("sgetline")
    if g is None:
        raise cdb.AnalysisBroken("anchor missing: sgetline")
    nul = [e for e in g.all_elems() if e.is_assign and e.op == "=" and norm(e.kid(1)) == ("c", 0) and norm(e.kid(0))[0] == "[]"]
    rep.check(bool(nul), "STRSAFE", "sgetline stores the terminator", g.loc,
              "every other response string reaches its consumers through sgetline, which must NUL-terminate the line",
              function="sgetline", construct="nul-store")
    rep.notes.append("string-consumer arguments not derived from the raw window: %d (via sgetline/request strings/literals)" % nother)
    return nraw


def _parsenum_branch(f, call):
    """Which parsenum_* function PARSENUM dispatches to for this target type."""
    for e in f.all_elems():
        if e.is_assign and e.op == "=" and e.kid(1) is not None and e.kid(1).strip() is call:
            t = f.unit.types.get(e.kid(0).ty) or {}
            if t.get("kind") == "float":
                return "parsenum_float"
            if t.get("kind") == "int":
                return "parsenum_signed" if t.get("signed") else "parsenum_unsigned"
    return None


def _printf_specs(fmt):
    """[[parts]] for each conversion: '*' parts consume an int argument."""
    out = []
    i = 0
    while i < len(fmt):
        if fmt[i] != "%":
            i += 1
            continue
        i += 1
        if i < len(fmt) and fmt[i] == "%":
            i += 1
            continue
        parts = []
        prec = False
        star_prec = False
        while i < len(fmt) and fmt[i] in "-+ #0":
            i += 1
        if i < len(fmt) and fmt[i] == "*":
            parts.append("*")
            i += 1
        while i < len(fmt) and fmt[i].isdigit():
            i += 1
        if i < len(fmt) and fmt[i] == ".":
            prec = True
            i += 1
            if i < len(fmt) and fmt[i] == "*":
                parts.append("*")
                star_prec = True
                i += 1
            while i < len(fmt) and fmt[i].isdigit():
                i += 1
        while i < len(fmt) and fmt[i] in "hlLqjzt":
            i += 1
        if i < len(fmt):
            conv = fmt[i]
            i += 1
            if conv == "s":
                parts.append(".*s" if prec else "s")
            else:
                parts.append(conv)
        # '*' entries stand for int arguments; keep order
        out.append(["int" if p == "*" else p for p in parts])
    return out


def _dominating_conds(f, target):
    """[(cond elem, truth)] for branches whose one edge dominates target."""
    res = []
    dom = f.dominators()
    tb = target.block.id
    for b in f.blocks.values():
        if b.cond is None or len(b.succs) != 2 or b.id not in dom.get(tb, ()):
            continue
        if b.id == tb:
            continue
        t, fl = b.succs
        # which edge leads to target exclusively?
        rt = t is not None and (t == tb or tb in f.reach_from(b.id, stop=()) and _reach_via(f, t, tb, avoid=b.id))
        rf = fl is not None and (fl == tb or _reach_via(f, fl, tb, avoid=b.id))
        if rt and not rf:
            res.append((b.cond, True))
        elif rf and not rt:
            res.append((b.cond, False))
    return res


def _reach_via(f, start, target, avoid):
    seen = set()
    work = [start]
    while work:
        n = work.pop()
        if n == target:
            return True
        if n in seen or n == avoid:
            continue
        seen.add(n)
        work.extend(s for s in f.blocks[n].succs if s is not None)
    return False


def _terminator_known(f, call, rawn):
    """findeol(raw, len) != len on a dominating edge."""
    eolvars = {}
    for e in f.all_elems():
        if e.is_assign and e.op == "=" and e.kid(1) is not None:
            r = e.kid(1).strip()
            if r is not None and r.cls == "CallExpr" and r.callee == "findeol" and norm(r.arg(0)) == rawn:
                eolvars[norm(e.kid(0))] = norm(r.arg(1))
    for cond, truth in _dominating_conds(f, call):
        for op, L, R, _, _ in cond_atoms(cond, truth):
            if op == "!=" and L in eolvars and R == eolvars[L]:
                return True
            if op == "<" and L in eolvars and R == eolvars[L]:
                return True
    return False


def _first_byte_checked(f, call, rawn):
    first = ("[]", rawn, ("c", 0))
    first2 = ("*", rawn)
    for cond, truth in _dominating_conds(f, call):
        n = norm(cond)
        if any(t == first or t == first2 for t in subterms(n)):
            return True
    return False


# ---------------------------------------------------------------------------
def budget(prog, rep, L):
    """B1: res.bodylen + readlen <= res_bodylen_max."""
    u = prog.unit(UNIT)
    edges = continuation_graph(prog, L)

    def isfield(n, name):
        return n[0] == "." and n[2] == name

    def H_of(f):
        V = lin.cookie_vars(f, REC)
        return V

    nstores = 0
    for f in u.funcs:
        if f.file != UNIT:
            continue
        stores = [e for e in f.all_elems() if e.is_assign and e.op == "=" and isfield(norm(e.kid(0)), "readlen")]
        if not stores:
            continue
        fx = Facts(f).solve()
        for s in stores:
            nstores += 1
            lhs = norm(s.kid(0))
            Hn = lhs[1]
            MAX = (".", Hn, "res_bodylen_max")
            BODYLEN = (".", (".", Hn, "res"), "bodylen")
            E = norm(s.kid(1))
            k1 = fx.best_bound(s, E, ("-", MAX, BODYLEN))
            k2 = fx.best_bound(s, E, MAX)
            inst = "H->readlen = %s in %s" % (show(E), f.name)
            if k1 is not None:
                rep.check(k1 <= 0, "B1-store", inst, s.where,
                          "the guards on this path prove only %s <= res_bodylen_max - res.bodylen + %d: the read budget exceeds the limit by %d byte(s) "
                          "for a size at the guard's boundary" % (show(E), k1, k1),
                          function=f.name, construct="readlen-budget")
            elif k2 is not None:
                # guard against the whole limit: sound only if nothing was added to the body before
                pre = preds_closure(edges, f.name) | {f.name}
                dirty = []
                for gname in pre:
                    g = u.func(gname)
                    for c in g.calls("addbody"):
                        dirty.append(c)
                    for e in g.all_elems():
                        if (e.is_assign or e.is_incdec) and isfield(norm(e.kid(0)), "bodylen") and not (e.op == "=" and norm(e.kid(1)) == ("c", 0)):
                            dirty.append(e)
                rep.check(k2 <= 0 and not dirty, "B1-store", inst, s.where,
                          "guard is against the whole limit (%s <= max + %d); functions that can run before (%s) must not have added to the body: %s"
                          % (show(E), k2, ",".join(sorted(pre)), [d.loc for d in dirty]),
                          function=f.name, construct="readlen-budget")
            else:
                rep.bad("B1-store", inst, s.where, "no guard relates %s to the body limit on this path" % show(E),
                        function=f.name, construct="readlen-budget")
    if nstores < 2:
        raise cdb.AnalysisBroken("B1: fewer than 2 stores to readlen found")
    # (ii) addbody call sites: length clamped by readlen or by the remaining budget
    nadd = 0
    for f in u.funcs:
        if f.file != UNIT:
            continue
        calls = list(f.calls("addbody"))
        if not calls:
            continue
        fx = Facts(f).solve()
        for c in calls:
            nadd += 1
            Hn = ("*", norm(c.arg(0)))
            n = norm(c.arg(2))
            READLEN = (".", Hn, "readlen")
            MAX = (".", Hn, "res_bodylen_max")
            BODYLEN = (".", (".", Hn, "res"), "bodylen")
            a = fx.best_bound(c, n, READLEN)
            b = fx.best_bound(c, n, ("-", MAX, BODYLEN))
            ok = (a is not None and a <= 0) or (b is not None and b <= 0)
            rep.check(ok, "B1-add", "addbody(%s) in %s" % (show(n), f.name), c.where,
                      "the appended length must be clamped to readlen or to res_bodylen_max - res.bodylen on every path (bounds known: vs readlen %s, vs remaining %s)" % (a, b),
                      function=f.name, construct="addbody-len")
            # (iii) the budget is decreased by the same amount after a successful append
            if a is not None and a <= 0:
                dec = [e for e in f.all_elems() if e.is_assign and e.op == "-=" and norm(e.kid(0)) == READLEN and norm(e.kid(1)) == n and f.dominates(c, e)]
                rep.check(len(dec) == 1, "B1-pair", "readlen -= %s after addbody in %s" % (show(n), f.name), c.where,
                          "bodylen grows by the appended length inside addbody; readlen must shrink by the same amount exactly once",
                          function=f.name, construct="readlen-dec")
    if nadd < 2:
        raise cdb.AnalysisBroken("B1: fewer than 2 addbody call sites found")
    # addbody itself: bodylen += buflen exactly once, after the copy
    ab = u.func("addbody")
    inc = [e for e in ab.all_elems() if e.is_assign and e.op == "+=" and isfield(norm(e.kid(0)), "bodylen")]
    rep.check(len(inc) == 1 and norm(inc[0].kid(1)) == ("v", ab.params[2]["name"], ab.params[2]["id"]), "B1-pair", "addbody: bodylen += buflen", ab.loc,
              "addbody must account for exactly the bytes it copied", function="addbody", construct="bodylen-inc")
    # nobody else changes bodylen except: = 0 (no body), = (size_t)(-1) in toobig
    for f in u.funcs:
        if f.file != UNIT or f.name == "addbody":
            continue
        for e in f.all_elems():
            if (e.is_assign or e.is_incdec) and isfield(norm(e.kid(0)), "bodylen") and norm(e.kid(0))[1][0] == "." and norm(e.kid(0))[1][2] == "res":
                v = norm(e.kid(1)) if e.is_assign else None
                legit = e.op == "=" and v is not None and v[0] == "c" and (v[1] == 0 or (f.name == "toobig" and v[1] in (-1, 2 ** 64 - 1)))
                rep.check(legit, "B1-pair", "%s in %s" % (e.text[:40], f.name), e.where,
                          "the body length is adjusted outside addbody: appended bytes and accounted bytes no longer agree "
                          "(bytes that are not body were appended, then subtracted)",
                          function=f.name, construct="bodylen-adjust")
    # (v') a response is declared too big only when bytes that are known to be body would not fit: every call of toobig sits on an
    # edge that says "this many more bytes > what the limit leaves" (strictly), never on a mere "the limit has been reached" -- a
    # body of exactly the limit, followed by the last-chunk line or the end of the stream, is within the limit
    for f in [g for g in u.funcs if g.file == UNIT]:
        for c in f.calls("toobig"):
            at = [(op, L, R) for cond, truth in f.edge_conds(c) for op, L, R, _, _ in cond_atoms(cond, truth)]

            def mentions_max(t):
                return any(isinstance(x, tuple) and x and x[0] == "." and x[2] == "res_bodylen_max" for x in subterms(t))
            strict = [a for a in at if (a[0] == ">" and mentions_max(a[2]) and not mentions_max(a[1])) or (a[0] == "<" and mentions_max(a[1]) and not mentions_max(a[2]))]
            loose = [a for a in at if (mentions_max(a[1]) or mentions_max(a[2])) and a not in strict and a[0] in ("==", ">=", "<=")
                     and not any(s[0] in (">", "<") and {s[1], s[2]} == {a[1], a[2]} for s in strict)]
            rep.check(bool(strict) and not loose, "B1-toobig", "toobig in %s: only when more bytes are known to follow than the limit leaves" % f.name, c.where,
                      "guards mentioning the limit: %s" % [(o, show(l), show(r)) for o, l, r in at if mentions_max(l) or mentions_max(r)], function=f.name, construct="toobig-guard")
    # (v) toobig
    tb = u.func("toobig")
    dc = [c for c in tb.calls("docallback")]
    fr = [c for c in tb.calls("free") if isfield(norm(c.arg(0)), "body")]
    nul = [e for e in tb.all_elems() if e.is_assign and isfield(norm(e.kid(0)), "body") and norm(e.kid(1)) == ("c", 0)]
    mx = [e for e in tb.all_elems() if e.is_assign and isfield(norm(e.kid(0)), "bodylen") and norm(e.kid(1))[0] == "c" and norm(e.kid(1))[1] in (-1, 2 ** 64 - 1)]
    ok = bool(dc) and bool(fr) and bool(nul) and bool(mx) and all(tb.dominates(x[0], dc[0]) for x in (fr, nul, mx)) and tb.dominates(fr[0], nul[0])
    rep.check(ok, "B1-toobig", "toobig frees, clears and marks the body before completing", tb.loc,
              "free(res.body); res.body = NULL; res.bodylen = (size_t)(-1) must all precede docallback",
              function="toobig", construct="toobig")


# ---------------------------------------------------------------------------
def status_gate(prog, rep, L):
    u = prog.unit(UNIT)
    g = u.func("gotheaders")
    fx = Facts(g).solve()
    n = 0
    body_handlers = set()
    for c in g.calls():
        if c.callee in L.handlers and c.callee not in ("fail", "die"):
            n += 1
            H = ("*", norm(c.arg(0)))
            ST = (".", (".", H, "res"), "status")
            lo = fx.holds_before(c, ">=", ST, ("c", 100))
            hi = fx.holds_before(c, "<=", ST, ("c", 599))
            rep.check(lo and hi, "B2-status", "%s reached from gotheaders" % c.callee, c.where,
                      "every continuation that can hand a response to the caller must be dominated by the range test 100 <= status <= 599 (lower %s, upper %s)" % (lo, hi),
                      function="gotheaders", construct="status-gate:" + c.callee)
            if c.callee not in ("docallback", "callback_read_header"):
                body_handlers.add(c.callee)
    if n < 5:
        raise cdb.AnalysisBroken("B2: fewer than 5 continuations leave gotheaders")
    # closure of body handlers
    edges = continuation_graph(prog, L)
    work = list(body_handlers)
    while work:
        h = work.pop()
        for k in edges.get(h, ()):
            if k not in body_handlers and k not in ("fail", "die", "docallback", "toobig"):
                body_handlers.add(k)
                work.append(k)
    # entered only from gotheaders or each other; docallback only from these, gotheaders and toobig
    for h in sorted(body_handlers | {"docallback", "toobig"}):
        callers = set(gname for gname, outs in edges.items() if h in outs)
        allowed = body_handlers | {"gotheaders", "toobig"}
        rep.check(callers <= allowed, "B2-entry", "%s entered only after the status gate" % h, u.func(h).loc,
                  "entered from %s; allowed %s" % (sorted(callers), sorted(allowed)), function=h, construct="entry:" + h)
    rep.check("callback_read_header" not in body_handlers and "gotheaders" not in body_handlers, "B2-entry", "body handlers never return to header parsing", g.loc,
              "the body handlers' continuation closure is %s" % sorted(body_handlers), function="gotheaders", construct="no-return")
    return body_handlers


# ---------------------------------------------------------------------------
def freenull(prog, rep):
    """A freed field of the request is cleared before the request is passed on."""
    u = prog.unit(UNIT)
    n = 0
    for f in u.funcs:
        if f.file != UNIT or f.name == "http_request_cancel":
            continue
        V = lin.cookie_vars(f, REC)
        if not V:
            continue

        def transfer(st, e):
            if e.cls == "CallExpr" and e.callee == "free" and e.arg(0) is not None:
                p = norm(e.arg(0))
                r = root_var(p)
                if p[0] == "." and r is not None and r[2] in V:
                    return st | {(p, e.pos)}
            if e.is_assign:
                lhs = norm(e.kid(0))
                return frozenset(x for x in st if x[0] != lhs)
            return st
        s = Solver(f, frozenset(), transfer, None, lambda a, b: a | b).run()
        hits = []

        def visit(e, st):
            if e.cls == "CallExpr" and e.callee != "free" and st:
                if any(a is not None and norm(a)[0] == "v" and norm(a)[2] in V for a in e.args):
                    for p, pos in st:
                        hits.append((f.elem(pos), p, e))
        s.visit(visit)
        frees = [c for c in f.calls("free") if c.arg(0) is not None and norm(c.arg(0))[0] == "." and (root_var(norm(c.arg(0))) or (0, 0, 0))[2] in V]
        bad = {}
        for a, p, e in hits:
            bad.setdefault(a.pos, (a, p, e))
        for c in frees:
            n += 1
            if c.pos in bad:
                a, p, e = bad[c.pos]
                rep.bad("FREENULL", "free(%s) in %s" % (show(p), f.name), c.where,
                        "the request is passed to %s at %s while %s still holds the freed pointer (double free when the request is released)" % (e.callee or "a callback", e.loc, show(p)),
                        function=f.name, construct="freenull:" + show(p))
            else:
                rep.ok("FREENULL", "free(%s) in %s" % (show(norm(c.arg(0))), f.name), c.where, "cleared before the request is passed on")
    if n < 3:
        rep.defer_broken("FREENULL: fewer than 3 frees of request fields outside http_request_cancel")
    # ownership hand-off: docallback clears res.body between the user callback and http_request_cancel
    d = u.func("docallback")
    cb = [c for c in d.calls() if c.callee is None]
    canc = [c for c in d.calls("http_request_cancel")]
    clr = [e for e in d.all_elems() if e.is_assign and norm(e.kid(0))[0] == "." and norm(e.kid(0))[2] == "body" and norm(e.kid(1)) == ("c", 0)]
    ok = len(cb) == 1 and len(canc) == 1 and len(clr) == 1 and d.dominates(cb[0], clr[0]) and d.dominates(clr[0], canc[0])
    rep.check(ok, "FREENULL", "docallback hands the body to the caller", d.loc,
              "res.body = NULL must sit between the user callback and http_request_cancel (the caller owns the body)",
              function="docallback", construct="handoff")


# ---------------------------------------------------------------------------
WINDOW_FIELDS = ("hepos",)


def window_cursor(prog, rep, L):
    """W1: an offset into the reader's window is stale after netbuf_read_consume."""
    u = prog.unit(UNIT)

    def isw(n):
        return n[0] == "." and n[2] in WINDOW_FIELDS

    memo = {}

    def rbw(name, stack=()):
        """May `name` read a window field before writing it (following tail calls and re-arms)?"""
        if name in memo:
            return memo[name]
        if name in stack:
            return False
        f = u.func(name)
        if f is None:
            return False

        # state: True = field known freshly written on all paths
        def transfer(st, e):
            if e.is_assign and isw(norm(e.kid(0))) and e.op == "=":
                return True
            return st
        s = Solver(f, False, transfer, None, lambda a, b: a and b).run()
        res = [False]

        def visit(e, st):
            if st:
                return
            if e.cls == "ImplicitCastExpr" and e.op == "LValueToRValue" and isw(norm(e.kid(0))):
                res[0] = True
            if (e.is_assign and e.op != "=" or e.is_incdec) and isw(norm(e.kid(0))):
                res[0] = True
            if e.cls == "CallExpr":
                tg = []
                if e.callee in L.handlers:
                    tg.append(e.callee)
                for a in e.args:
                    if a is not None and norm(a)[0] == "fn" and norm(a)[1] in L.handlers:
                        tg.append(norm(a)[1])
                for t in tg:
                    if t != name and rbw(t, stack + (name,)):
                        res[0] = True
        s.visit(visit)
        memo[name] = res[0]
        return res[0]

    nsites = 0
    for f in u.funcs:
        if f.file != UNIT:
            continue
        cons = list(f.calls("netbuf_read_consume"))
        if not cons:
            continue

        CLEAN = (-1, -1)
        ZERO = (-2, -2)      # the field holds the constant 0 ("nothing examined yet"), which is valid for any window

        def transfer(st, e):
            if e.cls == "CallExpr" and e.callee == "netbuf_read_consume":
                return ZERO if st == ZERO else e.pos
            if e.is_assign and e.op == "=" and isw(norm(e.kid(0))):
                return ZERO if norm(e.kid(1)) == ("c", 0) else CLEAN
            if (e.is_assign or e.is_incdec) and isw(norm(e.kid(0))) and st == ZERO:
                return CLEAN
            return st

        def join(a, b):
            if a == b:
                return a
            stale = [x for x in (a, b) if x not in (CLEAN, ZERO)]
            return stale[0] if stale else CLEAN
        s = Solver(f, CLEAN, transfer, None, join).run()
        bad = {}

        def visit(e, st):
            if st in (CLEAN, ZERO):
                return
            if e.cls == "ImplicitCastExpr" and e.op == "LValueToRValue" and isw(norm(e.kid(0))):
                bad.setdefault(st, (e, "read here"))
            if e.cls == "CallExpr":
                tg = []
                if e.callee in L.handlers:
                    tg.append(e.callee)
                for a in e.args:
                    if a is not None and norm(a)[0] == "fn" and norm(a)[1] in L.handlers:
                        tg.append(norm(a)[1])
                for t in tg:
                    if rbw(t):
                        bad.setdefault(st, (e, "passed on to %s, which reads it before storing it" % t))
        s.visit(visit)
        for c in cons:
            nsites += 1
            inst = "%s in %s" % (c.text[:50], f.name)
            if c.pos in bad:
                e, why = bad[c.pos]
                rep.bad("W1-cursor", inst, c.where,
                        "H->hepos is an offset into the reader's unconsumed window; after this consume it is stale, yet it is %s (%s) without being reset" % (why, e.loc),
                        function=f.name, construct="stale-hepos")
            else:
                rep.ok("W1-cursor", inst, c.where, "no load of a window-relative field is reachable before it is stored again")
    if nsites < 4:
        raise cdb.AnalysisBroken("W1: fewer than 4 netbuf_read_consume sites in http.c")
    if not rbw("callback_read_header"):
        raise cdb.AnalysisBroken("W1: callback_read_header no longer reads hepos (anchor gone)")




# ---------------------------------------------------------------------------
def span_rule(prog, rep):
    """A position computed as span + 1, where span = strcspn(s, ..) or strlen(s), lies inside the string only if s[span] is
    not the terminator.  Every use of s[span + 1] / &s[span + 1] must be on the `s[span] != 0` edge (header lines without a
    colon: the value would start one byte past the line's NUL, in bytes the response parser never terminated)."""
    u = prog.unit(UNIT)
    n = 0
    for f in u.funcs:
        if f.file != UNIT:
            continue
        spans = {}
        for e in f.all_elems():
            if e.is_assign and e.op == "=" and e.kid(1) is not None and e.kid(1).strip().cls == "CallExpr" and e.kid(1).strip().callee in ("strcspn", "strlen"):
                spans[norm(e.kid(0))] = norm(e.kid(1).strip().arg(0))
        if not spans:
            continue
        for e in f.all_elems():
            # s[span + 1], &s[span + 1] and s + (span + 1) are one position
            if e.cls == "ArraySubscriptExpr":
                base, idx = norm(e.kid(0)), norm(e.kid(1))
            elif e.cls == "BinaryOperator" and e.op == "+" and norm(e)[0] == "&" and norm(e)[1][0] == "[]":
                base, idx = norm(e)[1][1], norm(e)[1][2]
            else:
                continue
            for v, sarg in spans.items():
                if base == sarg and idx == ir.B("+", v, ("c", 1)):
                    n += 1
                    at = [(op, L, R) for cond, truth in f.edge_conds(e) for op, L, R, _, _ in cond_atoms(cond, truth)]
                    ok = any(op == "!=" and L == ("[]", sarg, v) and R == ("c", 0) for op, L, R in at)
                    rep.check(ok, "STRSAFE", "%s[%s + 1] in %s" % (show(sarg), show(v), f.name), e.where,
                              "%s is the length of the initial span of %s; the position after it is inside the string only when %s[%s] is not the terminator, "
                              "which no dominating test establishes here" % (show(v), show(sarg), show(sarg), show(v)), function=f.name, construct="span-plus-one")
    return n


# ---------------------------------------------------------------------------
def chunk_framing(prog, rep):
    """W10: the chunked transfer coding is taken apart as RFC 7230 4.1 lays it out -- size line and its CRLF consumed
    together, a size of zero (and only zero) ends the body, the chunk's data is what `readlen` counts, the CRLF after the data
    is waited for, consumed (two bytes, no more, no fewer) and not added to the body, then the next size line is read.
    Decided from the amounts handed to netbuf_read_consume / netbuf_read_wait and the edges they sit on."""
    u = prog.unit(UNIT)
    hd, eol, rd = u.func("callback_chunkedheader"), u.func("callback_chunkedeol"), u.func("callback_readdata")
    if hd is None or eol is None or rd is None:
        raise cdb.AnalysisBroken("anchor missing: callback_chunkedheader / callback_chunkedeol / callback_readdata")

    def atoms(f, e):
        return [(op, L, R) for cond, truth in f.edge_conds(e) for op, L, R, _, _ in cond_atoms(cond, truth)]
    # (a) the size line and its CRLF
    fe = list(hd.calls("findeol"))
    cons = list(hd.calls("netbuf_read_consume"))
    ok = len(fe) == 1 and len(cons) == 1
    d = "%d findeol, %d consume calls" % (len(fe), len(cons))
    if ok:
        ev = [norm(e.kid(0)) for e in hd.all_elems() if e.is_assign and e.op == "=" and e.kid(1).strip() is fe[0]]
        ok = len(ev) == 1 and norm(cons[0].arg(1)) == ir.B("+", ev[0], ("c", 2))
        d = "consumes %s" % show(norm(cons[0].arg(1)))
        if ok:
            blen = norm(fe[0].arg(1))
            ok = any(op == "!=" and {L, R} == {ev[0], blen} for op, L, R in atoms(hd, cons[0]))
            d += "; on the edge where a line end was found: %s" % ok
    rep.check(ok, "W10-chunk", "the chunk-size line is consumed together with its CRLF (line end position + 2)", (cons[0].where if cons else hd.loc), d, function=hd.name, construct="size-line")
    # (b) zero ends the body, (c) otherwise the data length is the parsed size
    pn = [c for c in hd.calls() if c.callee in ("parsenum_unsigned", "parsenum_signed")]
    sizes = set()
    for e in hd.all_elems():
        if e.is_assign and e.op == "=" and e.kid(1).strip() is not None and e.kid(1).strip().cls == "CallExpr" and e.kid(1).strip().callee == "parsenum_unsigned" and e.kid(1).strip().block.id in hd.reachable():
            sizes.add(norm(e.kid(0)))
    done = [c for c in hd.calls("docallback")]
    ok = len(sizes) == 1 and len(done) == 1
    d = "size variable %s, %d docallback calls" % (sorted(map(show, sizes)), len(done))
    if ok:
        cl = list(sizes)[0]
        az = [(op, R) for op, L, R in atoms(hd, done[0]) if L == cl and R[0] == "c"]
        rl = [e for e in hd.all_elems() if e.is_assign and e.op == "=" and norm(e.kid(0))[0] == "." and norm(e.kid(0))[2] == "readlen"]
        nz = [(op, R) for e in rl for op, L, R in atoms(hd, e) if L == cl and R[0] == "c"]
        ok = ("==", ("c", 0)) in az and len(rl) == 1 and norm(rl[0].kid(1)) == cl and ("!=", ("c", 0)) in nz and hd.dominates(cons[0], done[0]) if cons else False
        d = "completion under %s; readlen = %s under %s" % (az, show(norm(rl[0].kid(1))) if rl else "?", nz)
    rep.check(ok, "W10-chunk", "a chunk size of zero, and only zero, ends the body (after its line was consumed); otherwise the size is the data length to read", hd.loc, d,
              function=hd.name, construct="last-chunk")
    # (d) the CRLF after the data
    cons = list(eol.calls("netbuf_read_consume"))
    waits = list(eol.calls("netbuf_read_wait"))
    nxt = list(eol.calls("callback_chunkedheader"))
    ok = len(cons) == 1 and len(waits) == 1 and len(nxt) == 1 and norm(cons[0].arg(1)) == ("c", 2) and norm(waits[0].arg(1)) == ("c", 2) and eol.dominates(cons[0], nxt[0])
    d = "consume %s, wait %s" % ([show(norm(c.arg(1))) for c in cons], [show(norm(c.arg(1))) for c in waits])
    if ok:
        have = [(op, R) for op, L, R in atoms(eol, cons[0]) if R[0] == "c" and L[0] == "v"]
        lack = [(op, R) for op, L, R in atoms(eol, waits[0]) if R[0] == "c" and L[0] == "v"]
        ok = ((">=", ("c", 2)) in have or (">", ("c", 1)) in have) and (("<", ("c", 2)) in lack or ("<=", ("c", 1)) in lack)
        d += "; consumed when %s, waited for when %s" % (have, lack)
        adds = list(eol.calls("addbody"))
        ok = ok and not adds
    rep.check(ok, "W10-chunk", "the CRLF after a chunk's data: two bytes waited for, two consumed, none added to the body, then the next size line", eol.loc, d,
              function=eol.name, construct="data-crlf")
    # (e) a finished chunk goes on to its CRLF, a finished plain body completes
    ce = list(rd.calls("callback_chunkedeol"))
    ok = len(ce) == 1
    d = "%d calls of callback_chunkedeol" % len(ce)
    if ok:
        at = atoms(rd, ce[0])
        ok = any(op == "==" and L[0] == "." and L[2] == "readlen" and R == ("c", 0) for op, L, R in at) and any(op == "!=" and L[0] == "." and L[2] == "chunked" and R == ("c", 0) for op, L, R in at)
        d = "under %s" % [(op, show(L), show(R)) for op, L, R in at][-3:]
        hdirect = list(rd.calls("callback_chunkedheader"))
        ok = ok and not hdirect
    rep.check(ok, "W10-chunk", "when a chunk's data is complete the reader goes on to the CRLF that follows it, not straight to the next size line", rd.loc, d,
              function=rd.name, construct="after-data")


# ---------------------------------------------------------------------------
def header_index(prog, rep):
    """W9-index: the array of parsed headers is indexed only below its count: every headers[i] -- in the parser that fills the
    array and in the look-up the caller is given -- is controlled by a test i < nheaders of the count that belongs to that array
    (the field beside it, or the parameter beside it).  `<=` reads and writes one element past the allocation."""
    u = prog.unit(UNIT)
    n = 0
    for f in u.funcs:
        if f.file != UNIT:
            continue
        pnames = {p["name"]: ("v", p["name"], p["id"]) for p in f.params}
        done = set()
        for e in f.all_elems():
            if e.cls != "ArraySubscriptExpr":
                continue
            t = norm(e)
            if t[0] != "[]":
                continue
            arr, ix = t[1], t[2]
            if arr[0] == "." and arr[2] == "headers":
                cnt = (".", arr[1], "nheaders")
            elif arr[0] == "v" and arr[1] == "headers" and "nheaders" in pnames:
                cnt = pnames["nheaders"]
            else:
                continue
            if (e.block.id, ix) in done:
                continue
            done.add((e.block.id, ix))
            n += 1
            gs = [(op, L, R) for cond, truth in f.edge_conds(e) for op, L, R, _, _ in cond_atoms(cond, truth)]
            ok = any(op == "<" and L == ix and R == cnt for op, L, R in gs)
            if not ok and any(op == "!=" and L == ix and R == cnt for op, L, R in gs) and ix[0] == "v":
                # i != n bounds i below n when i only ever starts at 0 and moves up by one, and n is not changed meanwhile
                wr = [x for x in f.all_elems() if (x.is_assign or x.is_incdec) and norm(x.kid(0)) == ix]
                wn = [x for x in f.all_elems() if (x.is_assign or x.is_incdec) and norm(x.kid(0)) == cnt]
                ok = bool(wr) and not wn and all((x.is_assign and x.op == "=" and norm(x.kid(1)) == ("c", 0)) or (x.is_incdec and x.op in ("post++", "pre++")) for x in wr)
            rep.check(ok, "W9-index", "%s in %s: the index is below the array's count" % (e.text[:36], f.name), e.where,
                      "no controlling test `%s < %s` (conditions here: %s)" % (show(ix), show(cnt), [(op, show(L), show(R)) for op, L, R in gs if L == ix][:4]),
                      function=f.name, construct="header-index")
    return n


# ---------------------------------------------------------------------------
def premature_verdict(prog, rep):
    """W11: no verdict on bytes that have not arrived.  A handler that waits for a fixed number n of bytes (it re-registers itself
    with netbuf_read_wait(R, n, ...) while fewer are buffered) declares the response malformed on the *contents* of its window --
    a comparison of window bytes, of findeol's or memcmp's answer -- only where `buflen >= n` has been established.  (Otherwise
    a segmentation that delivers the first of the n bytes alone fails a well-formed response.)"""
    u = prog.unit(UNIT)
    n = 0
    for f in u.funcs:
        if f.file != UNIT:
            continue
        waits = [c for c in f.calls("netbuf_read_wait") if c.arg(1) is not None and norm(c.arg(1))[0] == "c" and c.arg(2) is not None and norm(c.arg(2)) == ("fn", f.name)]
        peeks = [c for c in f.calls("netbuf_read_peek")]
        if not waits or not peeks:
            continue
        need = max(norm(c.arg(1))[1] for c in waits)
        bufv = norm(peeks[0].arg(1))[1] if peeks[0].arg(1) is not None and norm(peeks[0].arg(1))[0] == "&" else None
        lenv = norm(peeks[0].arg(2))[1] if peeks[0].arg(2) is not None and norm(peeks[0].arg(2))[0] == "&" else None
        if bufv is None or lenv is None:
            continue
        n += 1
        bad = None
        for c in f.calls():
            if c.callee not in ("fail", "toobig"):
                continue
            gs = [(op, L, R) for cond, truth in f.edge_conds(c) for op, L, R, _, _ in cond_atoms(cond, truth)]
            content = [g for g in gs if any(t == bufv or (isinstance(t, tuple) and t and t[0] == "call" and t[1] in ("findeol", "memcmp", "memchr")) for x in (g[1], g[2]) for t in subterms(x))]
            enough = any(op == ">=" and L == lenv and R[0] == "c" and R[1] >= need for op, L, R in gs)
            if content and not enough:
                bad = (c, content)
        rep.check(bad is None, "W11-arrived", "%s: a verdict on the window's contents is given only once the %d bytes it waits for are there" % (f.name, need),
                  (bad[0].where if bad else f.loc),
                  ("this failure depends on %s but is reachable with fewer than %d bytes buffered" % ([(op, show(L), show(R)) for op, L, R in bad[1]][:2], need)) if bad else "",
                  function=f.name, construct="premature")
    return n


# ---------------------------------------------------------------------------
def header_split(prog, rep):
    """W9: a header line is split the way the grammar says.  Optional whitespace is SP and HTAB, nothing else: the trailing trim
    cuts the line's last character exactly when it is one of the two (and only while the line is not empty), writing the
    terminator over the character it tested; the name ends at the first ':' (strcspn with ":"); the name pointer is the line's
    start, taken before the ':' is overwritten; the value starts after the colon and is advanced past leading SP/HTAB
    (strspn with exactly those two)."""
    u = prog.unit(UNIT)
    f = u.func("gotheaders")
    if f is None:
        raise cdb.AnalysisBroken("anchor missing: gotheaders")
    SPHT = {32, 9}

    def fld(n):
        return n[2] if n[0] == "." else None
    # leading whitespace of the value
    adv = [e for e in f.all_elems() if ir.step(e) and ir.step(e)[0] == "+=" and fld(ir.step(e)[1]) == "value"]
    ok = len(adv) == 1
    d = "%d advances of .value" % len(adv)
    if ok:
        amt = ir.step(adv[0])[2]
        ok = amt[0] == "call" and amt[1] == "strspn" and amt[2] == ir.step(adv[0])[1] and amt[3][0] == "s" and set(amt[3][1]) == SPHT and len(amt[3][1]) == 2
        d = show(amt)
    rep.check(ok, "W9-split", "the value is advanced past leading SP / HTAB, exactly those", (adv[0].where if adv else f.loc), d, function=f.name, construct="ows-leading")
    # the split at the first colon
    cs = [c for c in f.calls("strcspn") if norm(c.arg(1)) == ("s", b":")]
    names = [e for e in f.all_elems() if e.is_assign and e.op == "=" and fld(norm(e.kid(0))) == "header"]
    ok = len(cs) == 1 and len(names) == 1 and norm(names[0].kid(1)) == norm(cs[0].arg(0))
    if ok:
        line = norm(cs[0].arg(0))
        cut = [e for e in f.all_elems() if e.is_assign and e.op == "=" and norm(e.kid(1)) == ("c", 0) and norm(e.kid(0))[0] == "[]" and norm(e.kid(0))[1] == line
               and any(x.is_assign and norm(x.kid(0)) == norm(e.kid(0))[2] and x.kid(1).strip() is cs[0] for x in f.all_elems())]
        vals = [e for e in f.all_elems() if e.is_assign and e.op == "=" and fld(norm(e.kid(0))) == "value"]
        ok = len(cut) == 1 and len(vals) == 1 and f.dominates(vals[0], cut[0])
        d = "cut %d, value stores %d" % (len(cut), len(vals))
        if ok:
            idx = norm(cut[0].kid(0))[2]
            v = norm(vals[0].kid(1))
            after, at = ("&", ("[]", line, ir.B("+", idx, ("c", 1)))), ("&", ("[]", line, idx))
            ok = v == ("?:", ("[]", line, idx), after, at) or v == ("?:", ("!=", ("[]", line, idx), ("c", 0)), after, at) or v == ("?:", ("==", ("[]", line, idx), ("c", 0)), at, after)
            d = show(v)
    else:
        d = "%d strcspn(.., \":\") calls, %d stores of .header" % (len(cs), len(names))
    rep.check(ok, "W9-split", "the name is the line up to its first ':', the value what follows the colon (or the empty end of a line without one), taken before the colon is overwritten",
              (cs[0].where if cs else f.loc), d, function=f.name, construct="colon-split")
    # trailing whitespace
    cuts = [e for e in f.all_elems() if e.is_assign and e.op == "=" and norm(e.kid(1)) == ("c", 0) and norm(e.kid(0))[0] == "[]" and norm(e.kid(0))[2][0] in ("upre--",)]
    ok = len(cuts) == 1
    d = "%d stores of NUL at a pre-decremented index" % len(cuts)
    if ok:
        e = cuts[0]
        line, n = norm(e.kid(0))[1], norm(e.kid(0))[2][1]
        last = ("[]", line, ir.B("-", n, ("c", 1)))
        # characters whose test leads straight into the cut, and the guard of the loop
        chars = set()
        for b in f.blocks.values():
            if b.cond is None or len(b.succs) != 2:
                continue
            for i, sb in enumerate(b.succs):
                if sb == e.block.id:
                    for op, L, R, _, _ in cond_atoms(b.cond, i == 0):
                        if op == "==" and L == last and R[0] == "c":
                            chars.add(R[1])
                        elif not (op in ("!=",) and L == last):
                            chars.add((op, show(L), show(R)))
        guard = any(op == ">" and L == n and R == ("c", 0) for cond, truth in f.edge_conds(e) for op, L, R, _, _ in cond_atoms(cond, truth))
        ok = chars == SPHT and guard
        d = "characters trimmed %s, guarded by %s > 0: %s" % (sorted(chars, key=str), show(n), guard)
    rep.check(ok, "W9-split", "trailing SP / HTAB are cut, exactly those, one at a time from a non-empty line", (cuts[0].where if cuts else f.loc), d, function=f.name, construct="ows-trailing")


# ---------------------------------------------------------------------------
def borrow_rule(prog, rep):
    """W8: the request description handed to http_request() is the caller's and may be gone when the call returns -- the
    interface asks only for the request *body* to stay valid.  So the constructor keeps no pointer into it in the request it
    builds, other than the body: every store into the allocated request whose value is a pointer taken from the `request`
    parameter must be the body pointer.  (Needs no member names of the request structure: it holds however the fields are
    called, and is therefore decided even when a rule anchor has been renamed.)"""
    u = prog.unit(UNIT)
    n = 0
    for f in u.funcs:
        if f.file != UNIT:
            continue
        rq = [p for p in f.params if "http_request" in (p.get("ty") or "") and (u.types.get(p["ty"]) or {}).get("kind") == "ptr"]
        if not rq:
            continue
        rp = ("v", rq[0]["name"], rq[0]["id"])
        # locals that hold a freshly allocated object (the request being built)
        fresh = set()
        for e in f.all_elems():
            if e.is_assign and e.op == "=" and norm(e.kid(0))[0] == "v":
                r = e.kid(1).strip() if e.kid(1) is not None else None
                if r is not None and r.cls == "CallExpr" and r.callee in ("malloc", "calloc"):
                    fresh.add(norm(e.kid(0)))
        for e in f.all_elems():
            if not (e.is_assign and e.op == "="):
                continue
            lhs = norm(e.kid(0))
            if lhs[0] != "." or root_var(lhs) is None or ("v",) + tuple(root_var(lhs)[1:]) not in fresh:
                continue
            rhs = norm(e.kid(1))
            if not any(t == rp for t in subterms(rhs)) or not _pure(rhs):
                continue
            if (u.types.get(e.kid(0).ty) or {}).get("kind") != "ptr":
                continue
            n += 1
            ok = rhs[0] == "." and rhs[2] == "body" and rhs[1] == ("*", rp)
            rep.check(ok, "W8-borrow", "%s = %s in %s" % (show(lhs), show(rhs), f.name), e.where,
                      "a pointer into the caller's request description is kept in the request object; only the body is promised to outlive the call, "
                      "so anything read through this later reads memory the caller may have reused or freed", function=f.name, construct="borrowed:" + show(rhs))
    return n


# ---------------------------------------------------------------------------
def eol_scan(prog, rep):
    """W7: findeol(buf, buflen) looks only at bytes of the buffer it was given: every byte it reads -- through a
    subscript, a dereference or a library comparison/search of n bytes -- lies in [buf, buf + buflen), decided relationally
    (memchr answers NULL or a position inside the range it was given).  A '\r' in the last valid byte must not be paired
    with whatever stale byte follows it in the reader's buffer."""
    from .. import poly
    from ..poly import Lin, cons
    u = prog.unit(UNIT)
    f = u.func("findeol")
    if f is None:
        raise cdb.AnalysisBroken("anchor missing: findeol")
    buf = ("v", f.params[0]["name"], f.params[0]["id"])
    blen = ("v", f.params[1]["name"], f.params[1]["id"])
    B, N = Lin.var(buf), Lin.var(blen)

    def memchr_contract(A, call, st, cs):
        r = Lin.var(("$ret", A.f.name, call.pos))
        p0, n = A.lin(call.arg(0), st), A.lin(call.arg(2), st)
        if p0 is None or n is None:
            return list(cs)
        return [list(cs) + cons("==", r, Lin.const(0)), list(cs) + cons(">=", r, p0) + cons("<=", r, p0 + n - 1) + cons(">=", r, Lin.const(1))]
    A = poly.Analysis(f, quiet={"memcmp", "memchr"}, post={"memchr": memchr_contract}, unsigned_terms={blen}).run()
    n = 0
    for e in f.all_elems():
        reads = []
        if e.cls == "CallExpr" and e.callee in ("memcmp", "memchr"):
            st = A.state_before(e)
            p0, cnt = A.lin(e.arg(0), st), A.lin(e.arg(2), st)
            reads.append((st, p0, cnt, e))
        elif e.cls == "ImplicitCastExpr" and e.op == "LValueToRValue" and e.kid(0) is not None and e.kid(0).strip().cls in ("ArraySubscriptExpr", "UnaryOperator"):
            k = e.kid(0).strip()
            if k.cls == "UnaryOperator" and k.op != "*":
                continue
            st = A.state_before(e)
            if k.cls == "ArraySubscriptExpr":
                b0, ix = A.lin(k.kid(0), st), A.lin(k.kid(1), st)
                addr = b0 + ix if b0 is not None and ix is not None else None
            else:
                addr = A.lin(k.kid(0), st)
            reads.append((st, addr, Lin.const(1), e))
        for st, addr, cnt, el in reads:
            n += 1
            ok = addr is not None and cnt is not None and A.holds(st, ">=", addr, B) and A.holds(st, "<=", addr + cnt, B + N)
            rep.check(ok, "W7-eol", "findeol reads %s inside [buf, buf + buflen)" % el.text[:30], el.where,
                      "the bytes read here are not provably inside the buffer (address %s, count %s): a line end split by a read boundary would be completed "
                      "with a stale byte beyond the valid data" % (addr, cnt), function=f.name, construct="eol-read")
    if n < 1:
        rep.defer_broken("W7: findeol reads nothing")
    # what it answers: a position other than `buflen` is given only where the two bytes CR LF were found
    for r in f.returns():
        v = norm(r.kid(0)) if r.kids else None
        if v is None or v == blen:
            continue
        ok = False
        seen = []
        for cond, truth in f.edge_conds(r):
            for op, L, R, Le, _ in cond_atoms(cond, truth):
                k = Le.strip() if Le is not None else None
                seen.append((op, show(L), show(R)))
                if k is not None and k.cls == "CallExpr" and k.callee == "memcmp" and op == "==" and R == ("c", 0):
                    a0, a1, a2 = k.arg(0), k.arg(1), k.arg(2)
                    at = norm(a0) if a0 is not None else None
                    strs = [x.strip().strv for x in (a0, a1) if x is not None and x.strip() is not None and x.strip().strv is not None]
                    other = [norm(x) for x in (a0, a1) if x is not None and (x.strip() is None or x.strip().strv is None)]
                    if strs == [b"\r\n"] and a2 is not None and norm(a2) == ("c", 2) and other and other[0] in (("&", ("[]", buf, v)), ("+", buf, v), ("+", v, buf)):
                        ok = True
                    # the scan made with a pointer: the position answered is (p - buf) of the p the two bytes were compared at
                    vv = v
                    while vv[0] == "cast":
                        vv = vv[-1]
                    if strs == [b"\r\n"] and a2 is not None and norm(a2) == ("c", 2) and other and vv == ("-", other[0], buf):
                        ok = True
        # the byte-wise forms: the byte at the answered position is CR (compared, or found by memchr(.., '\r', ..)) and the next is LF
        raw = [(op, L, R, (Le.strip() if Le is not None else None)) for cond, truth in f.edge_conds(r) for op, L, R, Le, _ in cond_atoms(cond, truth)]
        lfs = [L for op, L, R, _ in raw if op == "==" and R == ("c", 10) and L[0] == "[]"]
        crlf = False
        for L in lfs:
            base, ix = L[1], L[2]
            if ix == ("c", 1):
                # X[1] == LF with X[0] == CR, or X the non-NULL answer of memchr(.., CR, ..)
                cr_cmp = any(op == "==" and R == ("c", 13) and Lx in (("[]", base, ("c", 0)), ("*", base)) for op, Lx, R, _ in raw)
                cr_chr = any(op == "!=" and R == ("c", 0) and Lx == base and any(
                    e.is_assign and norm(e.kid(0)) == base and e.kid(1) is not None and e.kid(1).strip() is not None and e.kid(1).strip().cls == "CallExpr" and
                    e.kid(1).strip().callee == "memchr" and e.kid(1).strip().arg(1) is not None and norm(e.kid(1).strip().arg(1)) == ("c", 13) for e in f.all_elems())
                    for op, Lx, R, _ in raw)
                if (cr_cmp or cr_chr) and any(t == base for t in subterms(v)):
                    crlf = True
            elif ix[0] == "+" and ("c", 1) in ix[1:]:
                i0 = [x for x in ix[1:] if x != ("c", 1)]
                if i0 and any(op == "==" and R == ("c", 13) and Lx == ("[]", base, i0[0]) for op, Lx, R, _ in raw) and v == i0[0] and base == buf:
                    crlf = True
        rep.check(ok or crlf, "W7-eol", "findeol answers `%s` only where CR LF was found" % r.text[:24], r.where,
                  "conditions on this return: %s" % seen[:5], function=f.name, construct="eol-found")

# ---------------------------------------------------------------------------
def cookie_init(prog, rep, L):
    """W5: the request record is malloc'ed, so every field holds garbage until it is stored.  Must-analysis over the whole
    continuation structure: starting from the allocation in the constructor, no path -- through direct calls, tail calls
    and callbacks registered with the request -- reads a field of the request before a store to it.  (A framing flag read
    uninitialised makes the decoder wait for bytes a well-formed response never contains.)"""
    u = prog.unit(UNIT)
    local = {f.name: f for f in u.funcs if f.file == UNIT}
    rec = u.records.get(REC)
    if rec is None:
        raise cdb.AnalysisBroken("W5: record %s not found" % REC)

    def cookie_ptrs(f):
        """Variables of f that point to the request record."""
        out = set()
        for p in f.params:
            if p["ty"].replace(" ", "") == ("struct " + REC + "*").replace(" ", ""):
                out.add(("v", p["name"], p["id"]))
        for e in f.all_elems():
            if e.cls == "DeclStmt" and e.decls:
                for d in e.decls:
                    if d.get("ty", "").replace(" ", "") == ("struct " + REC + "*").replace(" ", ""):
                        out.add(("v", d["name"], d["id"]))
        return out

    def fpath(n, ptrs):
        """'res.bodylen' for H->res.bodylen; None when n is not a field of the request."""
        path = []
        while isinstance(n, tuple) and n and n[0] == ".":
            path.append(n[2])
            n = n[1]
        if isinstance(n, tuple) and n and n[0] == "*" and n[1] in ptrs and path:
            return ".".join(reversed(path))
        return None

    def covered(fld, written):
        return any(fld == w or fld.startswith(w + ".") for w in written)

    def handoffs(e):
        tg = []
        if e.cls == "CallExpr":
            if e.callee in local:
                tg.append(e.callee)
            for a in e.args:
                if a is not None and norm(a)[0] == "fn" and norm(a)[1] in local:
                    tg.append(norm(a)[1])
        return tg

    R = {name: frozenset() for name in local}     # fields possibly read before written, from the function's entry

    def analyse(f, init, report_to=None):
        ptrs = cookie_ptrs(f)

        def transfer(st, e):
            if e.is_assign and e.op == "=":
                p = fpath(norm(e.kid(0)), ptrs)
                if p is not None:
                    return st | {p}
            return st
        sv = Solver(f, init, transfer, None, lambda a, b: a & b).run()
        need = set()

        def visit(e, st):
            rd = None
            if e.cls == "ImplicitCastExpr" and e.op == "LValueToRValue":
                rd = fpath(norm(e.kid(0)), ptrs)
            elif (e.is_assign and e.op != "=") or e.is_incdec:
                rd = fpath(norm(e.kid(0)), ptrs)
            if rd is not None and not covered(rd, st):
                need.add(rd)
                if report_to is not None:
                    report_to.append((e, rd, None))
            for t in handoffs(e):
                for fld in R.get(t, ()):
                    if not covered(fld, st):
                        need.add(fld)
                        if report_to is not None:
                            report_to.append((e, fld, t))
        sv.visit(visit)
        return frozenset(need)

    # fixpoint of R over the (cyclic) continuation structure
    for _ in range(40):
        changed = False
        for name, f in local.items():
            if not cookie_ptrs(f):
                continue
            r = analyse(f, frozenset())
            if r != R[name]:
                R[name] = r
                changed = True
        if not changed:
            break
    # the constructor: the function that allocates the record
    ctor = None
    for f in local.values():
        for c in f.calls("malloc"):
            if c.arg(0) is not None and c.arg(0).val == rec.get("size"):
                ctor = f
    if ctor is None:
        raise cdb.AnalysisBroken("W5: no malloc(sizeof(struct %s)) found" % REC)
    bad = []
    analyse(ctor, frozenset(), report_to=bad)
    seen = set()
    nread = sum(len(v) for v in R.values())
    for e, fld, via in bad:
        if (fld, via) in seen:
            continue
        seen.add((fld, via))
        rep.bad("W5-init", "H->%s in %s" % (fld, ctor.name), e.where,
                "the freshly allocated request's field %s is %s before any store to it: it holds whatever the allocator returned" % (
                    fld, "read here" if via is None else "read by %s (reached from this call/registration) on some path" % via),
                function=ctor.name, construct="uninit:" + fld)
    if not bad:
        rep.ok("W5-init", "every field of the request is stored before any path reads it (%d functions, %d read-before-write summaries)" % (len(local), nread), ctor.loc)
    if nread < 10:
        rep.defer_broken("W5: fewer than 10 field reads found in the continuation functions (matcher vacuous)")
    return R


# ---------------------------------------------------------------------------
def header_scan(prog, rep):
    """W6: H->hepos means "no header terminator starts before this offset of the unconsumed data".  In the scan for
    CRLFCRLF the cursor (the index given to memcmp) advances only past a position whose four bytes were compared and did
    not match, and whatever is stored into H->hepos (other than the reset to 0) is provably <= that cursor -- never an
    offset whose four bytes have not all arrived yet, or a terminator cut by a read boundary is skipped for ever."""
    from .. import poly
    u = prog.unit(UNIT)
    f = u.func("callback_read_header")
    if f is None:
        raise cdb.AnalysisBroken("anchor missing: callback_read_header")
    cmps = [c for c in f.calls("memcmp") if c.arg(1) is not None and c.arg(1).strip().strv is not None and c.arg(1).strip().strv.rstrip(b"\0") == b"\r\n\r\n" and norm(c.arg(2)) == ("c", 4)]
    if len(cmps) != 1:
        rep.defer_broken("W6: expected one memcmp(.., CRLFCRLF, 4) in callback_read_header")
        return
    m = cmps[0]
    a0 = norm(m.arg(0))
    if not (a0[0] == "&" and a0[1][0] == "[]"):
        rep.bad("W6-scan", "terminator comparison", m.where, "the compared bytes are not an element address &buf[cursor]: %s" % show(a0), function=f.name, construct="scan-operand")
        return
    cursor = a0[1][2]
    # every modification of the cursor
    okc = True
    why = ""
    nmod = 0
    for e in f.all_elems():
        st = ir.step(e)
        tgt = norm(e.kid(0)) if (e.is_assign or e.is_incdec) else None
        if tgt != cursor:
            continue
        nmod += 1
        if st and st[0] == "+=" and st[2] == ("c", 1):
            # only after a mismatch at this position: the increment is not reachable from the comparison's `== 0` edge
            # without passing the comparison again
            conds = [(op, L) for cond, truth in f.edge_conds(e) for op, L, R, _, _ in cond_atoms(cond, truth) if R == ("c", 0)]
            mism = ("!=", norm(m)) in conds
            if not mism:
                # loop form `for (...; cursor++) { if (memcmp(..) == 0) break/return; }`: the match edge must leave the loop
                for b in f.blocks.values():
                    if b.cond is None or len(b.succs) != 2:
                        continue
                    for op, L, R, Le, _ in cond_atoms(b.cond, True):
                        if Le is not None and Le.strip() is m and R == ("c", 0) and op in ("==", "!="):
                            match_succ = b.succs[0] if op == "==" else b.succs[1]
                            mism = match_succ is not None and not f.reach_avoiding(match_succ, e.block.id, m.block.id)
            if not mism:
                okc, why = False, "the cursor is advanced at %s although the four bytes at it matched or were not compared" % e.loc
        elif e.is_assign and e.op == "=":
            v = norm(e.kid(1))
            if not (v == ("c", 0) or (v[0] == "." and v[2] == "hepos")):
                okc, why = False, "the cursor is set to %s at %s" % (show(v), e.loc)
        else:
            okc, why = False, "the cursor is modified by %s at %s" % (e.text[:30], e.loc)
    rep.check(okc and nmod >= 1, "W6-scan", "the terminator scan advances only past compared, non-matching positions", m.where, why, function=f.name, construct="scan-advance")
    # the scan stops while four bytes are available: cursor + 4 <= buflen guards the comparison
    g = any(op == "<=" and L == ir.B("+", cursor, ("c", 4)) for cond, truth in f.edge_conds(m) for op, L, R, _, _ in cond_atoms(cond, truth))
    rep.check(g, "W6-scan", "four bytes are available at the cursor when they are compared", m.where, "no dominating test cursor + 4 <= buflen", function=f.name, construct="scan-guard")
    # stores into H->hepos
    hep = [e for e in f.all_elems() if e.is_assign and e.op == "=" and norm(e.kid(0))[0] == "." and norm(e.kid(0))[2] == "hepos" and norm(e.kid(0)) != cursor]
    if hep:
        A = poly.Analysis(f, quiet={"netbuf_read_peek", "memcmp", "netbuf_read_wait", "warn0", "warnp", None}).run()
        for e in hep:
            st = A.state_before(e)
            v = A.lin(e.kid(1), st)
            cl = poly.lin_of_norm(cursor)
            ok = norm(e.kid(1)) == ("c", 0) or (v is not None and A.holds(st, "<=", v, cl))
            rep.check(ok, "W6-scan", "H->hepos = %s records only examined positions" % show(norm(e.kid(1))), e.where,
                      "the value stored is not provably <= the scan cursor %s: offsets whose four bytes have not all arrived would be marked as examined, "
                      "so a CRLFCRLF cut by a read boundary is never found" % show(cursor), function=f.name, construct="hepos-store")
    else:
        rep.ok("W6-scan", "the scan cursor is H->hepos itself (no separate store)", f.loc)

# ---------------------------------------------------------------------------
def request_serialisation(prog, rep):
    """W2: the length computed for the request head is the sum of the pieces copied."""
    u = prog.unit(UNIT)
    f = u.func("http_request2")
    if f is None:
        raise cdb.AnalysisBroken("anchor missing: http_request2")

    def in_loop(e):
        return e.block.id in f.reach_from(e.block.id)

    def term_len(n):
        """length of a piece: constant for literals, symbolic otherwise"""
        if n[0] == "s":
            return ("c", len(n[1]))
        return ("strlen", strip(n))

    def strip(n):
        return n
    # length side
    length = {False: [], True: []}
    for e in f.all_elems():
        if e.is_assign and e.op in ("=", "+=") and norm(e.kid(0))[0] == "." and norm(e.kid(0))[2] == "req_headlen":
            def walk(n):
                if n[0] == "+":
                    walk(n[1]); walk(n[2])
                elif n[0] == "call" and n[1] == "strlen":
                    length[in_loop(e)].append(term_len(n[2]))
                elif n[0] == "c":
                    length[in_loop(e)].append(n)
                else:
                    length[in_loop(e)].append(("?", n))
            walk(norm(e.kid(1)))
    pieces = {False: [], True: []}
    seq = []
    def srckey(e):
        parts = e.loc.rsplit(":", 2)
        return (int(parts[1]), int(parts[2]))
    for e in sorted(f.calls("stpcpy"), key=srckey):
        n = norm(e.arg(1))
        pieces[in_loop(e)].append(term_len(n))
        seq.append((in_loop(e), n))

    def canon(lst):
        c = sum(x[1] for x in lst if x[0] == "c")
        syms = sorted(str(x) for x in lst if x[0] != "c")
        return (c, syms)
    for ctx in (False, True):
        rep.check(canon(length[ctx]) == canon(pieces[ctx]), "W2-length", "request head length %s" % ("per header" if ctx else "fixed part"), f.loc,
                  "terms summed into req_headlen %s ; pieces copied by stpcpy %s" % (canon(length[ctx]), canon(pieces[ctx])),
                  function="http_request2", construct="headlen:%s" % ctx)
    # allocation is that sum plus one (NUL for stpcpy)
    allocs = [c for c in f.calls("malloc") if any(t[0] == "." and t[2] == "req_headlen" for t in subterms(norm(c.arg(0))))]
    ok = len(allocs) == 1 and norm(allocs[0].arg(0))[0] == "+" and norm(allocs[0].arg(0))[2] == ("c", 1)
    rep.check(ok, "W2-length", "request head allocation", allocs[0].where if allocs else f.loc,
              "the head buffer must be req_headlen + 1 bytes", function="http_request2", construct="head-alloc")
    # wire grammar: method SP path SP HTTP/1.1 CRLF (name ": " value CRLF)* CRLF
    def lit(n):
        return n[1].decode("latin1") if n[0] == "s" else None

    def fld(n):
        for t in subterms(n):
            if t[0] == ".":
                return t[2]
        return None
    shape = [(lp, lit(n) if n[0] == "s" else "<%s>" % fld(n)) for lp, n in seq]
    want = [(False, "<method>"), (False, " "), (False, "<path>"), (False, " HTTP/1.1\r\n"),
            (True, "<header>"), (True, ": "), (True, "<value>"), (True, "\r\n"), (False, "\r\n")]
    rep.check(shape == want, "W2-grammar", "request head piece sequence", f.loc,
              "pieces in order: %s" % shape, function="http_request2", construct="grammar")
    # the head is written before the body, each with its own length
    c = u.func("callback_connected")
    ws = sorted(c.calls("netbuf_write_write"), key=lambda e: e.line)
    def f2(n):
        return n[2] if n[0] == "." else None
    ok = len(ws) == 2 and f2(norm(ws[0].arg(1))) == "req_head" and f2(norm(ws[0].arg(2))) == "req_headlen" and \
        f2(norm(ws[1].arg(1))) == "req_body" and f2(norm(ws[1].arg(2))) == "req_bodylen" and c.dominates(ws[0], ws[1])
    rep.check(ok, "W2-grammar", "head then body are queued", c.loc, "netbuf_write_write(head, headlen) must dominate netbuf_write_write(body, bodylen)",
              function="callback_connected", construct="write-order")
    # every non-empty body is sent: no condition on the way to the body's write is false for a body of one byte
    if ok:
        from ..dataflow import decide_with
        BL = norm(ws[1].arg(2))
        skipped = [cond for cond, truth in c.edge_conds(ws[1]) if decide_with(cond, BL, 1) is not None and decide_with(cond, BL, 1) != truth]
        rep.check(not skipped, "W2-grammar", "a body of any non-zero length is written", ws[1].where,
                  "with req_bodylen == 1 the condition `%s` keeps the body from being sent" % (skipped[0].text[:40] if skipped else ""),
                  function="callback_connected", construct="body-guard")
    # body parameters are the caller's, unmodified
    st = [e for e in f.all_elems() if e.is_assign and norm(e.kid(0))[0] == "." and norm(e.kid(0))[2] in ("req_body", "req_bodylen")]
    ok = len(st) == 2 and all(norm(e.kid(1))[0] == "." and norm(e.kid(1))[2] == norm(e.kid(0))[2][4:] for e in st)
    rep.check(ok, "W2-grammar", "request body recorded verbatim", f.loc, "req_body/req_bodylen must be copied from the request's body/bodylen",
              function="http_request2", construct="body-params")


# ---------------------------------------------------------------------------
def number_bases(prog, rep):
    """W4: the protocol fixes the radix of its two numerals: Content-Length is decimal with nothing after it,
    a chunk size is hexadecimal and may be followed by an extension."""
    u = prog.unit(UNIT)
    want = {"gotheaders": (10, 0), "callback_chunkedheader": (16, 1)}
    for fn, (base, trailing) in want.items():
        f = u.func(fn)
        calls = []
        for c in f.calls(("parsenum_unsigned", "parsenum_signed", "parsenum_float")):
            b = _parsenum_branch(f, c)
            if b is None or b == c.callee:
                calls.append(c)
        ok = len(calls) == 1 and calls[0].callee == "parsenum_unsigned"
        got = None
        if ok:
            c = calls[0]
            got = (norm(c.arg(4)), norm(c.arg(5)))
            ok = got == (("c", base), ("c", trailing))
        rep.check(ok, "W4-radix", "%s parses its length in base %d%s" % (fn, base, ", trailing characters allowed" if trailing else ", nothing may follow"), calls[0].where if calls else f.loc,
                  "found base/trailing %s: a well-formed length such as 0012 (decimal) or 1a (hexadecimal) would be decoded as a different number" % (got,),
                  function=fn, construct="radix")


def framing_order(prog, rep):
    u = prog.unit(UNIT)
    g = u.func("gotheaders")
    fh = list(g.calls("http_findheader"))
    byname = {}
    for c in fh:
        a = c.arg(2).strip() if c.arg(2) is not None else None
        if a is not None and a.strv is not None:
            byname[a.strv.decode("latin1")] = c
    te, cl = byname.get("Transfer-Encoding"), byname.get("Content-Length")
    if te is None or cl is None:
        raise cdb.AnalysisBroken("W3: header look-ups for Transfer-Encoding/Content-Length not found in gotheaders")
    rep.check(g.dominates(te, cl), "W3-framing", "Transfer-Encoding is examined before Content-Length", te.where,
              "chunked framing takes precedence over Content-Length", function="gotheaders", construct="te-before-cl")
    # the no-body test (HEAD, 204, 304) dominates both look-ups
    nb = []
    for b in g.blocks.values():
        if b.cond is None:
            continue
        for op, Lh, R, _, _ in cond_atoms(b.cond, True):
            if op == "==" and R[0] == "c" and R[1] in (204, 304) and Lh[0] == "." and Lh[2] == "status":
                nb.append((R[1], b))
            if op == "!=" and R == ("c", 0) and Lh[0] == "." and Lh[2] == "req_ishead":
                nb.append(("HEAD", b))
    kinds = set(k for k, _ in nb)
    dom = g.dominators()
    ok = kinds == {204, 304, "HEAD"} and all(b.id in dom[te.block.id] for _, b in nb)
    # and their true edges lead to a completion with an empty body, not to the look-ups
    for k, b in nb:
        t = b.succs[0]
        if t is None or _reach_via(g, t, te.block.id, avoid=-1):
            ok = False
    rep.check(ok, "W3-framing", "HEAD/204/304 complete without a body before any framing header is consulted", g.loc,
              "no-body tests found: %s" % sorted(map(str, kinds)), function="gotheaders", construct="nobody-first")
    # an interim 1xx response is discarded before anything is delivered: every completion in gotheaders that hands a response
    # to the caller is on the false edge of the 100..199 test (a HEAD request answered "100 Continue" first must not complete with it)
    ix = []
    for b in g.blocks.values():
        if b.cond is None:
            continue
        for op, Lh, R, _, _ in cond_atoms(b.cond, True):
            if Lh[0] == "." and Lh[2] == "status" and ((op == "<=" and R == ("c", 199)) or (op == "<" and R == ("c", 200))):
                if b not in ix:
                    ix.append(b)
    comps = [c for c in g.calls("docallback")]
    ok1 = len(ix) == 1 and bool(comps)
    if ok1:
        b199 = ix[0]
        inside = b199.succs[0]          # status within 100..199 here
        dom = g.dominators()
        for c in comps:
            # the interim test is made before this completion, and the completion is not reachable from its "is interim" edge
            lower = [b for b in g.blocks.values() if b.cond is not None and any(
                L[0] == "." and L[2] == "status" and ((op == ">=" and R == ("c", 100)) or (op == ">" and R == ("c", 99))) for op, L, R, _, _ in cond_atoms(b.cond, True))
                and b199.id in [x for x in b.succs if x is not None]]
            tested = b199.id in dom.get(c.block.id, ()) or any(b.id in dom.get(c.block.id, ()) for b in lower)
            if not tested or inside is None or _reach_via(g, inside, c.block.id, avoid=-1):
                ok1 = False
    rep.check(ok1, "W3-framing", "a 1xx interim response is discarded before any completion can deliver a response", g.loc,
              "a docallback in gotheaders is reachable while status may still be in 100..199", function="gotheaders", construct="interim-first")
    eof = list(g.calls("callback_read_toeof"))
    # the read-to-EOF loop waits for one byte at a time: the reader reports end-of-stream without the bytes it holds below a larger minimum
    te_f = u.func("callback_read_toeof")
    if te_f is not None:
        ws = [c for c in te_f.calls("netbuf_read_wait")]
        rep.check(len(ws) == 1 and norm(ws[0].arg(1)) == ("c", 1), "W3-framing", "a body framed by connection close is read with a minimum of one byte", te_f.loc,
                  "waiting for more than one byte loses the tail of the body at end-of-stream (the reader reports EOF, not the bytes below the minimum)",
                  function=te_f.name, construct="toeof-min")
    rep.check(len(eof) == 1 and g.dominates(cl, eof[0]), "W3-framing", "read-to-EOF is the fall-through", g.loc,
              "callback_read_toeof must be reached only after both look-ups failed", function="gotheaders", construct="eof-last")
    # chunked selected only when the TE value contains 'chunked'
    ss = [c for c in g.calls("strstr")]
    rep.check(any(c.arg(1) is not None and c.arg(1).strip().strv == b"chunked" for c in ss), "W3-framing", "chunked token test", g.loc,
              "Transfer-Encoding value must be searched for 'chunked'", function="gotheaders", construct="chunked-token")
    # ... and each framing is chosen under its own condition: chunked when the header exists and names the token, Content-Length
    # when that header exists (and chunked was not chosen), connection close when neither did
    def guards(e):
        out = []
        for cond, truth in g.edge_conds(e):
            for op, L, R, Le, _ in cond_atoms(cond, truth):
                k = Le.strip() if Le is not None else None
                out.append((op, L, R, k))
        return out

    def found(gs, call, yes):
        """the guards say the look-up `call` (or the variable holding its result) answered non-NULL (yes) / NULL (not yes)"""
        holder = None
        for e in g.all_elems():
            if e.is_assign and e.op == "=" and e.kid(1) is not None and e.kid(1).strip() is call:
                holder = norm(e.kid(0))
        return any(R == ("c", 0) and op == ("!=" if yes else "==") and (k is call or (holder is not None and L == holder)) for op, L, R, k in gs)
    routes = []
    tok = [c for c in ss if c.arg(1) is not None and c.arg(1).strip().strv == b"chunked"]
    for c in g.calls("callback_chunkedheader"):
        gs = guards(c)
        routes.append(("chunked", c, found(gs, te, True) and bool(tok) and found(gs, tok[0], True)))
    for c in g.calls("get_body_gotclen"):
        gs = guards(c)
        routes.append(("Content-Length", c, found(gs, cl, True)))
    for c in eof:
        gs = guards(c)
        routes.append(("connection close", c, found(gs, cl, False)))
    for e in g.all_elems():
        if e.is_assign and e.op == "=" and norm(e.kid(0))[0] == "." and norm(e.kid(0))[2] == "chunked" and norm(e.kid(1)) != ("c", 0):
            gs = guards(e)
            routes.append(("chunked flag", e, found(gs, te, True) and bool(tok) and found(gs, tok[0], True)))
    for what, c, ok in routes:
        rep.check(ok, "W3-framing", "the body is read as %s only under that framing's own condition" % what, c.where,
                  "conditions on this route: %s" % [(op, show(L), show(R)) for op, L, R, _ in guards(c)][:6], function="gotheaders", construct="route:" + what)
    if len(routes) < 4:
        rep.defer_broken("W3: fewer than 4 framing routes found in gotheaders")
    # after an interim response the reader starts over as after a successful read: the header handler is re-entered with status 0
    for c in g.calls("callback_read_header"):
        rep.check(c.arg(1) is not None and norm(c.arg(1)) == ("c", 0), "W3-framing", "after a 1xx response the header reader is re-entered with status 0", c.where,
                  "status %s is the reader's report of a failed read: every interim response would end the request" % (show(norm(c.arg(1))) if c.arg(1) is not None else "?"),
                  function="gotheaders", construct="interim-status")
    # the header block handed on ends right after the terminator that was found: offset of "\r\n\r\n" plus its four bytes
    rh = u.func("callback_read_header")
    if rh is not None:
        for c in rh.calls("gotheaders"):
            ln = rh.expand(norm(c.arg(2))) if c.arg(2) is not None else None
            mc = [m for m in rh.calls("memcmp") if any(a is not None and a.strip() is not None and a.strip().strv == b"\r\n\r\n" for a in m.args)]
            pos = None
            for m in mc:
                for a in m.args:
                    t = norm(a) if a is not None else None
                    if t is not None and t[0] == "&" and t[1][0] == "[]":
                        pos = rh.expand(t[1][2])
            rep.check(bool(mc) and pos is not None and ln in (("+", pos, ("c", 4)), ("+", ("c", 4), pos)), "W3-framing",
                      "the header block is everything up to and including the blank line that was found", c.where,
                      "length handed to gotheaders: %s; terminator found at %s, four bytes long" % (show(ln) if ln else "?", show(pos) if pos else "?"),
                      function=rh.name, construct="head-length")


def announced_sizes(prog, rep, rule="W12-announced"):
    """A number the server merely announces (Content-Length, a chunk size: whatever a parsenum_*/strto* call made of its text)
    decides how much is read, never how much is allocated: no malloc/realloc/calloc size in http.c depends on one.  Taint over the
    unit, flow-insensitive: assignments, compound assignments and declarations carry it from right to left (variables by identity,
    structure members by name), a call carries it from an argument to the callee's parameter; a clamp `x = T` made only where
    `x > T` holds leaves x what it was bounded by before.  Buffers then grow with the bytes that arrived, and a refused
    allocation is the machine's doing, not the server's."""
    up = "http/http.c"
    u = prog.unit(up)
    funcs = [f for f in u.funcs if f.file == up]
    SRC = ("parsenum_unsigned", "parsenum_signed", "parsenum_float", "strtoul", "strtoull", "strtoumax", "strtol", "strtoll", "strtoimax", "atoi", "atol")
    tv, tf = set(), set()          # tainted variable ids, tainted member names

    def key(t):
        """taint key of an lvalue term"""
        while t[0] == "cast":
            t = t[-1]
        if t[0] == "v" and len(t) > 2:
            return ("v", t[2])
        if t[0] == "." and isinstance(t[2], str):
            return ("f", t[2])
        if t[0] == "*" and t[1][0] == "&":
            return key(t[1][1])
        return None

    def tainted(t):
        while t[0] == "cast":
            t = t[-1]
        if t[0] == "?:" and len(t) == 4 and t[1][0] in ("<", "<=", ">", ">=") and len(t[1]) == 3:
            # the smaller of two: bounded by the untainted one
            A, B = t[1][1], t[1][2]
            small = (t[2], t[3]) if t[1][0] in ("<", "<=") else (t[3], t[2])       # (value when A is smaller, value when B is smaller)
            if small == (A, B):
                return tainted(A) and tainted(B)
        for x in subterms(t):
            if x[0] == "v" and len(x) > 2 and x[2] in tv:
                return True
            if x[0] == "." and x[2] in tf:
                return True
            if x[0] == "call" and x[1] in SRC:
                return True
        return False

    def mark(k):
        if k is None:
            return False
        tgt = tv if k[0] == "v" else tf
        if k[1] in tgt:
            return False
        tgt.add(k[1])
        return True
    nsrc = 0
    for f in funcs:
        for e in f.all_elems():
            if e.is_assign and e.kid(1) is not None and e.kid(1).strip() is not None and e.kid(1).strip().cls == "CallExpr" and e.kid(1).strip().callee in SRC:
                nsrc += 1
    changed = True
    while changed:
        changed = False
        for f in funcs:
            for e in f.all_elems():
                if e.is_assign and e.kid(1) is not None:
                    L, R = norm(e.kid(0)), norm(e.kid(1))
                    if not tainted(R):
                        continue
                    if e.op == "=":
                        # a clamp: x = T only where x > T
                        clamp = any(op in (">", ">=") and Lc == L and Rc == R for cond, truth in f.edge_conds(e) for op, Lc, Rc, _, _ in cond_atoms(cond, truth)) or \
                                any(op in ("<", "<=") and Rc == L and Lc == R for cond, truth in f.edge_conds(e) for op, Lc, Rc, _, _ in cond_atoms(cond, truth))
                        if clamp:
                            continue
                    if e.op in ("-=", "/=", "%=", ">>=", "&="):
                        continue        # makes the left side no larger than it was
                    changed = mark(key(L)) or changed
                elif e.cls == "DeclStmt":
                    for d in e.decls or []:
                        if isinstance(d, dict) and d.get("init") and tainted(norm(f.elem(d["init"]))):
                            changed = mark(("v", d["id"])) or changed
                elif e.cls == "CallExpr" and e.callee:
                    g = prog.resolve(f, e.callee) if hasattr(prog, "resolve") else None
                    if g is None or g.file != up:
                        continue
                    for i, a in enumerate(e.args):
                        if a is not None and i < len(g.params) and tainted(norm(a)):
                            changed = mark(("v", g.params[i]["id"])) or changed
    n = 0
    for f in funcs:
        for c in f.calls(("malloc", "realloc", "calloc", "reallocarray")):
            sizes = {"malloc": [0], "realloc": [1], "calloc": [0, 1], "reallocarray": [1, 2]}[c.callee]
            n += 1
            bad = [show(norm(c.arg(i))) for i in sizes if c.arg(i) is not None and tainted(f.expand(norm(c.arg(i))) if hasattr(f, "expand") else norm(c.arg(i)))]
            bad += [show(norm(c.arg(i))) for i in sizes if c.arg(i) is not None and not bad and tainted(norm(c.arg(i)))]
            rep.check(not bad, rule, "%s in %s: the size asked for does not depend on a number the server announced" % (c.text[:40], f.name), c.where,
                      "the size `%s` derives from a number parsed out of the response (Content-Length / chunk size): a server that announces a huge body makes this "
                      "allocation fail before a byte of it has arrived, and the request ends in the fatal path instead of the caller's callback" % (bad[0] if bad else ""),
                      function=f.name, construct="announced-size")
    if nsrc < 2:
        rep.defer_broken("%s: fewer than 2 parsed numbers found in http.c" % rule)
    return n


def header_count(prog, rep, rule="W9-count"):
    """The header lines are counted with the tokenizer that later takes them out: every increment of .nheaders in gotheaders is
    in a cycle with one findeol call over the rest of the head (start &res_head[pos], length res_headlen - pos) whose answer
    plus the terminator's length -- the same constant sgetline skips -- is what advances pos; no trip round the cycle misses
    the call.  (Counting line feeds instead counts the bare ones inside a header's value too: the parsing loop then asks
    sgetline for lines that are not there, and its assertion aborts the process.)"""
    u = prog.unit(UNIT)
    f, sg = u.func("gotheaders"), u.func("sgetline")
    if f is None or sg is None:
        raise cdb.AnalysisBroken("anchor missing: gotheaders / sgetline")

    def skip_of(g):
        """constants K of `pos += <findeol's answer> + K` in g"""
        out = []
        for e in g.all_elems():
            st = ir.step(e)
            if st and st[0] == "+=" and st[2][0] == "+" and len(st[2]) == 3 and ("c",) == st[2][2][:1]:
                out.append((e, st[1], st[2][1], st[2][2][1]))
        return out
    ks = set(k for _, _, _, k in skip_of(sg))
    if len(ks) != 1:
        raise cdb.AnalysisBroken("sgetline: the skip after a line is not a single `pos += len + K`")
    K = ks.pop()
    incs = [e for e in f.all_elems() if ir.step(e) and ir.step(e)[0] == "+=" and ir.step(e)[1][0] == "." and ir.step(e)[1][2] == "nheaders"]
    if not incs:
        raise cdb.AnalysisBroken("gotheaders no longer counts .nheaders by increments: the counting rule has nothing to decide")
    n = 0
    for inc in incs:
        n += 1
        cyc = lambda a, b: a.block.id == b.block.id or (b.block.id in f.reach_from(a.block.id) and a.block.id in f.reach_from(b.block.id))
        calls = [c for c in f.calls("findeol") if cyc(inc, c)]
        why = ""
        ok = len(calls) == 1
        if not ok:
            why = "%d findeol calls in the counting loop" % len(calls)
        else:
            c = calls[0]
            a0, a1 = norm(c.arg(0)), norm(c.arg(1))
            ok = a0[0] == "&" and a0[1][0] == "[]" and a0[1][1][0] == "." and a0[1][1][2] == "res_head"
            pos = a0[1][2] if ok else None
            ok = ok and a1[0] == "-" and a1[1][0] == "." and a1[1][2] == "res_headlen" and a1[2] == pos
            if not ok:
                why = "findeol is not given the rest of the head from the counting position (%s, %s)" % (show(a0), show(a1))
            else:
                holder = [norm(e.kid(0)) for e in f.all_elems() if e.is_assign and e.op == "=" and e.kid(1) is not None and e.kid(1).strip() is c]
                adv = [(e, amt, k) for e, tgt, amt, k in skip_of(f) if tgt == pos and cyc(inc, e)]
                ok = len(holder) == 1 and len(adv) == 1 and adv[0][1] == holder[0] and adv[0][2] == K
                if not ok:
                    why = "the counting position is not advanced by findeol's answer + %d (advances: %s)" % (K, [(show(a), k) for _, a, k in adv])
                else:
                    # no trip round the cycle without the call, and no other write of the position inside it
                    if inc.block.id != c.block.id and any(s is not None and f.reach_avoiding(s, inc.block.id, c.block.id) for s in f.blocks[inc.block.id].succs):
                        ok, why = False, "a trip round the counting loop can miss the findeol call"
                    other = [e for e in f.all_elems() if (e.is_assign or e.is_incdec) and norm(e.kid(0)) == pos and e is not adv[0][0] and cyc(inc, e)
                             and not (e.is_assign and e.op == "=" and norm(e.kid(1)) == ("c", 0) and not cyc(e, e))]
                    other = [e for e in other if e.block.id in f.reach_from(e.block.id)]
                    if ok and other:
                        ok, why = False, "the counting position is also written at %s" % other[0].loc
        rep.check(ok, rule, "each header line counted is one line of the tokenizer (findeol, skip %d) that later extracts it" % K, inc.where, why,
                  function=f.name, construct="count-tokenizer")
    return n


def header_lookup(prog, rep, rule="W9-lookup"):
    """http_findheader answers with the value of a header whose NAME IS the one asked for: every return of a `.value` of element
    i is controlled by a whole-string comparison (strcmp / strcasecmp == 0) of that same element's `.header` with the name
    parameter -- or by a counted comparison over strlen(name) together with a test that the element's name ends there.  A counted
    comparison alone accepts every header the name is a prefix of ("Content-Length-Hint" for "Content-Length")."""
    u = prog.unit(UNIT)
    f = u.func("http_findheader")
    if f is None:
        raise cdb.AnalysisBroken("anchor missing: http_findheader")
    NAME = ("v", f.params[2]["name"], f.params[2]["id"])
    n = 0
    for r in f.returns():
        if not r.kids:
            continue
        v = f.expand(norm(r.kid(0))) if hasattr(f, "expand") else norm(r.kid(0))
        if v == ("c", 0):
            continue
        n += 1
        ok, why = False, "the value returned (%s) is not an element's .value" % show(v)
        if v[0] == "." and v[2] == "value":
            elem = v[1]
            hdr = (".", elem, "header")
            atoms = [(op, f.expand(L), R) for cond, truth in f.edge_conds(r) for op, L, R, _, _ in cond_atoms(cond, truth)]
            whole = [L for op, L, R in atoms if op == "==" and R == ("c", 0) and L[0] == "call" and L[1] in ("strcmp", "strcasecmp")
                     and set(f.expand(x) for x in L[2:4]) == {hdr, NAME}]
            counted = [L for op, L, R in atoms if op == "==" and R == ("c", 0) and L[0] == "call" and L[1] in ("strncmp", "strncasecmp", "memcmp")
                       and set(f.expand(x) for x in L[2:4]) == {hdr, NAME}]
            ok = bool(whole)
            why = "no strcmp/strcasecmp(%s, %s) == 0 controls this return" % (show(hdr), show(NAME))
            if not ok and counted:
                ln = f.expand(counted[0][4])
                ends = any(op == "==" and R == ("c", 0) and L == ("[]", hdr, ln) for op, L, R in atoms)
                if ln[0] == "v" and len(ln) > 2:
                    # a local whose one definition is strlen(name)
                    defs = [norm(e.kid(1)) for e in f.all_elems() if (e.is_assign or e.is_incdec) and norm(e.kid(0)) == ln and e.kid(1) is not None]
                    defs += [norm(f.elem(d["init"])) if d.get("init") else None for e in f.all_elems() if e.cls == "DeclStmt" for d in (e.decls or [])
                             if isinstance(d, dict) and d.get("id") == ln[2]]
                    nwr = len([e for e in f.all_elems() if (e.is_assign or e.is_incdec) and norm(e.kid(0)) == ln])
                    defs = [d for d in defs if d is not None]
                    if len(defs) == 1 and nwr <= 1:
                        d0 = defs[0]
                        while d0[0] == "cast":
                            d0 = d0[-1]
                        if d0 == ("call", "strlen", NAME):
                            ln = d0
                    ends = ends or any(op == "==" and R == ("c", 0) and L[0] == "[]" and L[1] == hdr and L[2][0] == "v" and L[2][2] == counted[0][4][2]
                                       for op, L, R in atoms if len(counted[0][4]) > 2)
                ok = ln == ("call", "strlen", NAME) and ends
                why = "the comparison is over the first %s characters only and nothing tests that the header's name ends there: every header the name asked for is a prefix of matches" % show(ln)
        rep.check(ok, rule, "http_findheader returns the value of the header whose whole name matches", r.where, why, function=f.name, construct="lookup-whole")
    if n < 1:
        raise cdb.AnalysisBroken("http_findheader returns no value")
    return n


class _TerminatorSeen:
    """Ghost: $seen is the window offset at which memcmp(&buf[i], "\\r\\n\\r\\n", 4) was last seen to answer 0 (learnt on that edge; the
    relation to the scan position is lost by itself when the position moves)."""

    def __init__(self, buf):
        self.buf = buf

    def on_atom(self, A, cs, op, L, R, Le, Re):
        from ..poly import Lin, cons
        if op != "==" or R != ("c", 0) or L[0] != "call" or L[1] != "memcmp" or len(L) < 5:
            return cs
        a0, a1, a2 = L[2], L[3], L[4]
        while a0[0] == "cast":
            a0 = a0[-1]
        if not (a0[0] == "&" and a0[1][0] == "[]" and a0[1][1] == self.buf and a1 == ("s", b"\r\n\r\n") and a2 == ("c", 4)):
            return cs
        e = Le.strip() if Le is not None else None
        if e is None or e.cls != "CallExpr" or e.arg(0) is None:
            return cs
        ix = e.arg(0).strip()
        while ix is not None and ix.cls in ("CStyleCastExpr", "ImplicitCastExpr", "ParenExpr"):
            ix = ix.kid(0).strip() if ix.kid(0) is not None else None
        if ix is None or ix.cls != "UnaryOperator" or ix.kid(0) is None or ix.kid(0).strip() is None or ix.kid(0).strip().cls != "ArraySubscriptExpr":
            return cs
        st = frozenset(x for x in cs if isinstance(x, tuple))
        i = A.lin(ix.kid(0).strip().kid(1), st)
        if i is None:
            return cs
        cs = A._kill(list(cs), lambda v: v == ("$seen",))
        return list(cs) + cons("==", Lin.var(("$seen",)), i)


def terminator_found(prog, rep, rule="W3-found"):
    """The header block is handed on only where its terminator has been SEEN: at every call gotheaders(H, buf, n) in the handler
    that scans for CRLF CRLF, n == s + 4 for an offset s at which the comparison with the terminator answered equal on this path
    (relational, sa/poly.py, with a ghost for that offset).  A test of the scan position against a length is not that: when the
    scan's bound and the test's disagree (the scan stops at a cap, the test looks at everything buffered), a position the scan
    merely stopped at is taken for a match, and the parser is run on a block with no blank line in it."""
    from .. import poly
    from ..poly import Lin
    u = prog.unit(UNIT)
    n = 0
    for f in u.funcs:
        if f.file != UNIT:
            continue
        calls = list(f.calls("gotheaders"))
        peeks = list(f.calls("netbuf_read_peek"))
        if not calls or not peeks:
            continue
        bufv = norm(peeks[0].arg(1))[1] if peeks[0].arg(1) is not None and norm(peeks[0].arg(1))[0] == "&" else None
        if bufv is None:
            continue
        A = poly.Analysis(f, quiet={"memcmp", "netbuf_read_peek", "netbuf_read_wait", "warn0", "libcperciva_warn0"})
        A.ghost = _TerminatorSeen(bufv)
        A.run()
        for c in calls:
            st = A.state_before(c)
            if st is None:
                continue
            n += 1
            ln = A.lin(c.arg(2), st)
            ok = ln is not None and A.holds(st, "==", ln, Lin.var(("$seen",)) + Lin.const(4))
            rep.check(ok, rule, "%s: the block handed to gotheaders ends with a terminator that was seen there" % f.name, c.where,
                      "on some path to this call the comparison with CRLF CRLF has not answered equal at (length - 4): the position is one the scan stopped at, not one it matched",
                      function=f.name, construct="terminator-seen")
    if n < 1:
        raise cdb.AnalysisBroken("%s: no call of gotheaders in a handler that peeks at the window" % rule)
    return n


def window_reads(prog, rep, rule="W11-inwindow"):
    """Every byte of the reader's window that a handler looks at has arrived: in each function that obtains (buf, buflen) from
    netbuf_read_peek, a read of buf[k], and a comparison or scan over n bytes at &buf[k], is made where buflen >= k + 1
    (>= k + n) is established (relational, sa/poly.py; findeol(p, m) answers 0..m, and m exactly when there is no EOL).  The
    bytes beyond buflen are whatever the buffer held before: a verdict on them depends on how the response was segmented."""
    from .. import poly
    from ..poly import Lin
    u = prog.unit(UNIT)
    n = 0
    for f in u.funcs:
        if f.file != UNIT:
            continue
        peeks = list(f.calls("netbuf_read_peek"))
        if not peeks:
            continue
        a1, a2 = (norm(peeks[0].arg(i)) if peeks[0].arg(i) is not None else None for i in (1, 2))
        if a1 is None or a2 is None or a1[0] != "&" or a2[0] != "&":
            continue
        bufv, lenv = a1[1], a2[1]

        def eol(A, call, st, cs):
            r = Lin.var(("$ret", A.f.name, call.pos))
            m = A.lin(call.arg(1), st)
            out = list(cs) + poly.cons(">=", r, Lin.const(0))
            if m is not None:
                out += poly.cons("<=", r, m)
            return out
        A = poly.Analysis(f, quiet={"findeol", "memcmp", "isxdigit", "warn0", "libcperciva_warn0", "libcperciva_warn", "__ctype_b_loc"}, post={"findeol": eol},
                          unsigned_terms={lenv}).run()
        seen = set()
        for e in f.all_elems():
            need = None
            if e.cls == "ImplicitCastExpr" and e.op == "LValueToRValue" and e.kid(0) is not None and e.kid(0).strip() is not None and e.kid(0).strip().cls == "ArraySubscriptExpr":
                k = e.kid(0).strip()
                if norm(k.kid(0)) == bufv:
                    need = (k.kid(1), 1, k)
            elif e.cls == "CallExpr" and e.callee in ("memcmp", "memchr", "findeol") and e.arg(0) is not None:
                t = norm(e.arg(0))
                while t[0] == "cast":
                    t = t[-1]
                ln = e.arg(2) if e.callee != "findeol" else e.arg(1)
                if t[0] == "&" and t[1][0] == "[]" and t[1][1] == bufv and ln is not None:
                    a = e.arg(0).strip()
                    while a is not None and a.cls in ("CStyleCastExpr", "ImplicitCastExpr", "ParenExpr"):
                        a = a.kid(0).strip() if a.kid(0) is not None else None
                    sub = a.kid(0).strip() if a is not None and a.cls == "UnaryOperator" and a.kid(0) is not None else None
                    if sub is not None and sub.cls == "ArraySubscriptExpr":
                        need = (sub.kid(1), ln, e)
            if need is None or (need[2].line, need[2].text) in seen:
                continue
            seen.add((need[2].line, need[2].text))
            st = A.state_before(e)
            if st is None:
                continue
            n += 1
            k = A.lin(need[0], st)
            m = Lin.const(1) if need[1] == 1 else A.lin(need[1], st)
            ok = k is not None and m is not None and A.holds(st, ">=", Lin.var(lenv), k + m)
            rep.check(ok, rule, "%s: `%s` looks only at bytes that have arrived" % (f.name, need[2].text[:40]), need[2].where,
                      "nothing on some path here establishes that %s exceeds the offset read: with fewer bytes buffered this looks at what the buffer held before, "
                      "and the outcome depends on how the response was segmented" % show(lenv), function=f.name, construct="window-read")
    return n
