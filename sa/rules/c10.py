"""C10 — Diffie-Hellman: group-14 exponentiation, agreement, blinding independence.

D1  the modulus table equals RFC 3526 group 14, derived here from pi with
    integer arithmetic (Machin); thorough tier: p and (p-1)/2 pass Miller-Rabin;
    two_exp_256 is 2^256; every length passed with a table equals its size
D2  linear-form interpretation of blinded_modexp's success path: the final
    exponent is priv + 4*2^256 with the blinding's coefficient 0, both partial
    exponents are r + 2^256 and priv + 3*2^256 - r, every modular operation
    uses the group-14 modulus, the base is the caller's (2 / the peer's value)
D3  output padding: the memset length and the BN_bn2bin offset are the same
    PUBLEN - rlen, behind 0 <= rlen <= PUBLEN
D4  the sanity check returns -1 exactly when memcmp(pub, modulus, 256) >= 0
"""
from .. import cdb, ir, report
from ..ir import norm, show, root_var, subterms
from ..dataflow import cond_atoms

UNIT = "crypto/crypto_dh.c"


def pi_floor_scaled(bits):
    """floor(pi * 2^bits) by Machin's formula with guard bits (pure integers)."""
    guard = 64
    one = 1 << (bits + guard)

    def arctan_inv(x):
        # arctan(1/x) * one
        total = 0
        term = one // x
        n = 1
        x2 = x * x
        sign = 1
        while term:
            total += sign * (term // n)
            term //= x2
            n += 2
            sign = -sign
        return total
    pi = 16 * arctan_inv(5) - 4 * arctan_inv(239)
    return pi >> guard


def group14():
    return (1 << 2048) - (1 << 1984) - 1 + (1 << 64) * (pi_floor_scaled(1918) + 124476)


def miller_rabin(n, bases):
    if n < 2:
        return False
    d, r = n - 1, 0
    while d % 2 == 0:
        d //= 2
        r += 1
    for a in bases:
        x = pow(a, d, n)
        if x in (1, n - 1):
            continue
        for _ in range(r - 1):
            x = x * x % n
            if x == n - 1:
                break
        else:
            return False
    return True


def add_forms(a, b, sign=1):
    out = dict(a)
    for k, v in b.items():
        out[k] = out.get(k, 0) + sign * v
    return {k: v for k, v in out.items() if v != 0}


def d1(prog, rep, tier):
    g = prog.unit("crypto/crypto_dh_group14.c")
    tbl = g.global_ints("crypto_dh_group14")
    if tbl is None:
        raise cdb.AnalysisBroken("D1: crypto_dh_group14 table not found")
    have = int.from_bytes(bytes(tbl), "big") if all(0 <= b < 256 for b in tbl) else -1
    p = group14()
    rep.check(len(tbl) == 256 and have == p, "D1-modulus", "crypto_dh_group14[256]", g.global_("crypto_dh_group14")["loc"],
              "the table must be the big-endian bytes of 2^2048 - 2^1984 - 1 + 2^64*(floor(2^1918*pi) + 124476) (RFC 3526 group 14), derived here from pi; %s"
              % ("equal" if have == p else "first differing byte index %s" % next((i for i in range(min(len(tbl), 256)) if tbl[i] != p.to_bytes(256, "big")[i]), "?")),
              function="crypto_dh_group14", construct="table")
    if tier == "thorough":
        bases = [2, 3, 5, 7, 11, 13, 17, 19, 23, 29, 31, 37]
        rep.check(miller_rabin(p, bases) and miller_rabin((p - 1) // 2, bases), "D1-modulus", "derived p and (p-1)/2 are probable primes (12 bases)", "sa/rules/c10.py", "",
                  function="crypto_dh_group14", construct="prime")
    u = prog.unit(UNIT)
    t = u.global_ints("two_exp_256")
    rep.check(t == [1] + [0] * 32, "D1-modulus", "two_exp_256 is 2^256 (0x01 followed by 32 zero bytes)", (u.global_("two_exp_256") or {}).get("loc", ""), "", function="two_exp_256", construct="table")


def d2(prog, rep):
    u = prog.unit(UNIT)
    f = u.func("blinded_modexp")
    if f is None:
        raise cdb.AnalysisBroken("anchor missing: blinded_modexp")
    if not rep.names(f, "r", "a", "priv"):
        return
    env = {}        # variable name -> value: ('lin', form) | ('exp', base, form, mod) | ('mod',) | ('base',)
    T, PRIV, R = "2^256", "priv", "blinding"
    buffers = {}
    lens_ok = True
    ops = []
    order = sorted([c for c in f.calls()], key=lambda c: (c.line, c.i))

    def assigned_var(call):
        for e in f.all_elems():
            if e.is_assign and e.op == "=" and e.kid(1) is not None and e.kid(1).strip() is call:
                return norm(e.kid(0))[1]
        return None

    def val(a):
        n = norm(a)
        return env.get(n[1]) if n[0] == "v" else None
    A = f.params[1]["name"]
    env[A] = ("base",)
    for c in order:
        cal = c.callee
        if cal == "crypto_entropy_read":
            b = norm(c.arg(0))
            buffers[b[1]] = R
            t = u.types.get(c.arg(0).strip().ty) or {}
            lens_ok = lens_ok and norm(c.arg(1)) == ("c", 32)
        elif cal == "BN_bin2bn":
            src = norm(c.arg(0))
            ln = norm(c.arg(1))
            v = assigned_var(c)
            if src[0] == "v" and src[1] == "two_exp_256":
                env[v] = ("lin", {T: 1})
                lens_ok = lens_ok and ln == ("c", 33)
            elif src[0] == "v" and src[1] == f.params[2]["name"]:
                env[v] = ("lin", {PRIV: 1})
                lens_ok = lens_ok and ln == ("c", 32)
            elif src[0] == "v" and src[1] in buffers:
                env[v] = ("lin", {R: 1})
                lens_ok = lens_ok and ln == ("c", 32)
            elif src[0] == "v" and src[1] == "crypto_dh_group14":
                env[v] = ("mod",)
                lens_ok = lens_ok and ln == ("c", 256)
            else:
                env[v] = ("unknown", show(src))
        elif cal in ("BN_add", "BN_sub"):
            d = norm(c.arg(0))[1]
            x, y = val(c.arg(1)), val(c.arg(2))
            if x and y and x[0] == "lin" and y[0] == "lin":
                env[d] = ("lin", add_forms(x[1], y[1], 1 if cal == "BN_add" else -1))
            else:
                env[d] = ("unknown", cal)
            ops.append((cal, c))
        elif cal == "BN_mod_exp":
            d = norm(c.arg(0))[1]
            base, e, m = val(c.arg(1)), val(c.arg(2)), val(c.arg(3))
            env[d] = ("exp", base, e[1] if e and e[0] == "lin" else None, m)
            ops.append((cal, c))
        elif cal == "BN_mod_mul":
            d = norm(c.arg(0))[1]
            x, y, m = val(c.arg(1)), val(c.arg(2)), val(c.arg(3))
            if x and y and x[0] == "exp" and y[0] == "exp" and x[1] == y[1] and x[3] == y[3] == m and x[2] is not None and y[2] is not None:
                env[d] = ("exp", x[1], add_forms(x[2], y[2]), m)
            else:
                env[d] = ("unknown", cal)
            ops.append((cal, c))
        elif cal == "BN_new":
            v = assigned_var(c)
            if v:
                env[v] = ("fresh",)
    exps = [c for cal, c in ops if cal == "BN_mod_exp"]
    rep.check(len(exps) == 2, "D2-forms", "two modular exponentiations", f.loc, "found %d" % len(exps), function=f.name, construct="exp-count")
    want_partial = [{R: 1, T: 1}, {PRIV: 1, T: 3, R: -1}]
    got_partial = []
    for c in exps:
        e = val(c.arg(2))
        got_partial.append(e[1] if e and e[0] == "lin" else None)
        rep.check(val(c.arg(1)) == ("base",) and val(c.arg(3)) == ("mod",), "D2-forms", "BN_mod_exp base/modulus at line %d" % c.line, c.where,
                  "the base must be the caller's value and the modulus the group-14 table (base %s, modulus %s)" % (val(c.arg(1)), val(c.arg(3))), function=f.name, construct="exp-operands")
    rep.check(sorted(map(str, got_partial)) == sorted(map(str, want_partial)), "D2-forms", "partial exponents are blinding + 2^256 and priv + 3*2^256 - blinding", f.loc,
              "evaluated %s" % got_partial, function=f.name, construct="partial-exponents")
    # the exported value
    outs = [c for c in order if c.callee == "BN_bn2bin"]
    ok = len(outs) == 1
    final = val(outs[0].arg(0)) if ok else None
    ok = ok and final is not None and final[0] == "exp" and final[1] == ("base",) and final[3] == ("mod",) and final[2] == {PRIV: 1, T: 4}
    rep.check(ok, "D2-forms", "exported value = base^(priv + 4*2^256) mod p, independent of the blinding", outs[0].where if outs else f.loc,
              "evaluated %s" % (final,), function=f.name, construct="final-exponent")
    rep.check(lens_ok, "D2-forms", "every length passed with a table/buffer equals its size (33, 32, 32, 256)", f.loc, "", function=f.name, construct="lengths")
    bl = [d for e in f.all_elems() if e.cls == "DeclStmt" for d in (e.decls or []) if d["name"] in buffers]
    rep.check(all((u.types.get(d["ty"]) or {}).get("size") == 32 for d in bl) and bool(bl), "D2-forms", "the blinding buffer holds 32 bytes", f.loc, "", function=f.name, construct="blinding-size")
    # every fallible step is tested: a failed BN_* call must not let the computation continue
    for cal, c in ops:
        tested = any((Le.strip() if Le is not None else None) is c for b in f.blocks.values() if b.cond is not None for op, L, R_, Le, Re in cond_atoms(b.cond, True))
        rep.check(tested, "D2-forms", "%s result tested (line %d)" % (cal, c.line), c.where, "an untested failure would export a wrong value", function=f.name, construct="tested:" + cal)
    # callers
    gp = u.func("crypto_dh_generate_pub")
    sw = list(gp.calls("BN_set_word"))
    bm = list(gp.calls("blinded_modexp"))
    ok = len(sw) == 1 and norm(sw[0].arg(1)) == ("c", 2) and len(bm) == 1 and norm(bm[0].arg(1)) == norm(sw[0].arg(0)) and gp.dominates(sw[0], bm[0]) \
        and norm(bm[0].arg(0)) == ("v", gp.params[0]["name"], gp.params[0]["id"]) and norm(bm[0].arg(2)) == ("v", gp.params[1]["name"], gp.params[1]["id"])
    rep.check(ok, "D2-forms", "public value = 2^(...) : base set to the word 2", gp.loc, "", function=gp.name, construct="base-two")
    cm = u.func("crypto_dh_compute")
    bb = list(cm.calls("BN_bin2bn"))
    bm = list(cm.calls("blinded_modexp"))
    ok = len(bb) == 1 and norm(bb[0].arg(0)) == ("v", cm.params[0]["name"], cm.params[0]["id"]) and norm(bb[0].arg(1)) == ("c", 256) and len(bm) == 1 \
        and norm(bm[0].arg(2)) == ("v", cm.params[1]["name"], cm.params[1]["id"]) and norm(bm[0].arg(0)) == ("v", cm.params[2]["name"], cm.params[2]["id"])
    if ok:
        av = None
        for e in cm.all_elems():
            if e.is_assign and e.kid(1).strip() is bb[0]:
                av = norm(e.kid(0))
        ok = av is not None and norm(bm[0].arg(1)) == av
    rep.check(ok, "D2-forms", "shared key = peer^(...): base is the peer's 256-byte value", cm.loc, "", function=cm.name, construct="base-peer")
    ge = u.func("crypto_dh_generate")
    er = list(ge.calls("crypto_entropy_read"))
    g2 = list(ge.calls("crypto_dh_generate_pub"))
    ok = len(er) == 1 and norm(er[0].arg(1)) == ("c", 32) and len(g2) == 1 and norm(er[0].arg(0)) == norm(g2[0].arg(1)) and ge.dominates(er[0], g2[0])
    rep.check(ok, "D2-forms", "generate draws 32 private bytes, then derives the public value from them", ge.loc, "", function=ge.name, construct="generate")


def d3_d4(prog, rep):
    u = prog.unit(UNIT)
    f = u.func("blinded_modexp")
    ms = list(f.calls("memset"))
    bb = list(f.calls("BN_bn2bin"))
    ok = len(ms) == 1 and len(bb) == 1
    if ok:
        ln = norm(ms[0].arg(2))
        dst = norm(bb[0].arg(1))
        rlen = None
        rdef = None
        for e in f.all_elems():
            if e.is_assign and e.op == "=":
                v = norm(e.kid(1))
                # BN_num_bytes(x) is (BN_num_bits(x) + 7) / 8
                if v == ("/", ("+", ("call", "BN_num_bits", norm(bb[0].arg(0))), ("c", 7)), ("c", 8)):
                    rlen = norm(e.kid(0))
                    rdef = e
        ok = rlen is not None and ln == ("-", ("c", 256), rlen) and dst == ("&", ("[]", norm(ms[0].arg(0)), ln)) and norm(ms[0].arg(1)) == ("c", 0) \
            and norm(ms[0].arg(0)) == ("v", f.params[0]["name"], f.params[0]["id"])
        if ok:
            at = [(op, L, R) for cond, truth in f.edge_conds(ms[0]) for op, L, R, _, _ in cond_atoms(cond, truth)]
            ok = any(op == ">=" and L == rlen and R == ("c", 0) for op, L, R in at) and any(op == "<=" and L == rlen and R == ("c", 256) for op, L, R in at)
            ok = ok and f.dominates(ms[0], bb[0])
    rep.check(ok, "D3-padding", "left padding: memset(r, 0, 256 - rlen) and BN_bn2bin at &r[256 - rlen] behind 0 <= rlen <= 256", f.loc, "", function=f.name, construct="padding")
    if ok and rdef is not None:
        # the length is that of the value exported: nothing writes the BIGNUM between measuring it and exporting it
        X = norm(bb[0].arg(0))
        after = f.reach_from(rdef.block.id) | {rdef.block.id}
        stale = []
        for c in f.calls():
            if c.callee in ("BN_num_bits", "BN_bn2bin") or c is bb[0]:
                continue
            if not any(a is not None and norm(a) == X for a in c.args):
                continue
            between = (c.block.id in after and (c.block.id != rdef.block.id or c.i > rdef.i)) and \
                (bb[0].block.id in f.reach_from(c.block.id) or (bb[0].block.id == c.block.id and bb[0].i > c.i))
            if between:
                stale.append(c)
        rep.check(not stale, "D3-padding", "the length measured is the length of the value exported", rdef.where,
                  "the BIGNUM is passed to %s between BN_num_bytes and BN_bn2bin: offset and padding are computed from an intermediate value, so a result "
                  "of different byte length is written shifted (possibly past the buffer)" % [c.callee for c in stale], function=f.name, construct="padding-fresh")
    s = u.func("crypto_dh_sanitycheck")
    rets = {}
    for r in s.returns():
        v = norm(r.kid(0))
        conds = [(op, L, R) for cond, truth in s.edge_conds(r) for op, L, R, _, _ in cond_atoms(cond, truth)]
        rets[v[1] if v[0] == "c" else None] = conds
    P = ("v", s.params[0]["name"], s.params[0]["id"])

    def is_cmp(L):
        return L[0] == "call" and L[1] == "memcmp" and L[2] == P and L[3][0] == "v" and L[3][1] == "crypto_dh_group14" and L[4] == ("c", 256)
    ok = set(rets) == {-1, 0}
    # every rejection is the comparison's, every acceptance its complement: a value below the modulus is never turned away
    for r in s.returns():
        v = norm(r.kid(0))
        conds = [(op, L, R) for cond, truth in s.edge_conds(r) for op, L, R, _, _ in cond_atoms(cond, truth)]
        if v == ("c", -1):
            ok = ok and any(op == ">=" and is_cmp(L) and R == ("c", 0) for op, L, R in conds)
        elif v == ("c", 0):
            ok = ok and any(op == "<" and is_cmp(L) and R == ("c", 0) for op, L, R in conds)
        else:
            ok = False
    rep.check(ok, "D4-sanity", "sanitycheck rejects exactly memcmp(pub, modulus, 256) >= 0", s.loc,
              "equal-length big-endian byte order is numeric order; edges: %s" % {k: [(o, show(l)) for o, l, r in v] for k, v in rets.items()}, function=s.name, construct="sanity")



BN_INFALLIBLE = {"BN_free", "BN_clear_free", "BN_CTX_free", "BN_num_bits", "BN_num_bytes", "BN_bn2bin", "BN_is_zero", "BN_is_one", "BN_cmp", "BN_ucmp", "BN_is_negative"}


def d5_d6(prog, rep):
    """D5: the result of every OpenSSL big-number call that can fail (for lack of memory) is tested -- an ignored failure
    leaves a zero or stale operand and the exponentiation is then computed, exactly, on the wrong number.
    D6: the DH entry points are total: no assertion or abort path narrows the set of private or peer values they accept."""
    u = prog.unit(UNIT)
    n = 0
    for f in u.funcs:
        if f.file != UNIT:
            continue
        tested = set()
        for b in f.blocks.values():
            if b.cond is None:
                continue
            for op, L, R, Le, Re in cond_atoms(b.cond, True):
                for x in (Le, Re):
                    if x is not None and x.strip() is not None and x.strip().cls == "CallExpr":
                        tested.add(x.strip().pos)
        for c in f.calls():
            if not (c.callee or "").startswith("BN_") or c.callee in BN_INFALLIBLE:
                continue
            n += 1
            rep.check(c.pos in tested, "D5-checked", "%s in %s: result tested" % (c.text[:40], f.name), c.where,
                      "%s can fail for lack of memory; its result is not tested, so on failure the computation goes on with an unset operand and still reports success" % c.callee,
                      function=f.name, construct="bn-checked:" + c.callee)
        # ... and the calls that answer a *length* are not statuses: BN_bn2bin answers 0 for the number zero, BN_num_bytes
        # likewise -- a branch that takes a zero answer for a failure refuses the results 0 (from a peer value of 0 or p)
        for c in f.calls():
            if c.callee not in ("BN_bn2bin", "BN_num_bytes", "BN_num_bits"):
                continue
            for b in f.blocks.values():
                if b.cond is None or len(b.succs) != 2:
                    continue
                for truth in (True, False):
                    for op, L, R, Le, Re in cond_atoms(b.cond, truth):
                        # the call itself, or a length computed from it (BN_num_bytes is (BN_num_bits + 7) / 8)
                        if R == ("c", 0) and op == "==" and any(t == norm(c) for t in subterms(L)):
                            sb = b.succs[0 if truth else 1]
                            vals, _ = f.returns_from(sb) if sb is not None else ([], None)
                            bad = bool(vals) and all(v is not None and v[0] == "c" and v[1] != 0 for v in vals)
                            rep.check(not bad, "D6-total", "%s in %s: a zero length is not treated as a failure" % (c.text[:40], f.name), c.where,
                                      "%s answers the length of the number, which is 0 for the number zero; the edge on which it is 0 leads only to failure returns" % c.callee,
                                      function=f.name, construct="length-as-status:" + c.callee)
        aborts = []
        ptr_params = set(p["name"] for p in f.params if (u.types.get(p["ty"]) or {}).get("kind") in ("ptr", "array"))
        for c in f.calls():
            if c.callee not in ("abort", "__assert_fail", "__assert", "exit", "_exit"):
                continue
            # an assertion that only says "this pointer argument is not NULL" does not narrow the set of values accepted
            at = [(op, L, R) for cond, truth in f.edge_conds(c) for op, L, R, _, _ in cond_atoms(cond, truth)]
            if at and all(L[0] == "v" and L[1] in ptr_params and R == ("c", 0) and op in ("==", "!=") for op, L, R in at):
                continue
            aborts.append(c)
        rep.check(not aborts, "D6-total", "%s has no assertion or abort path" % f.name, f.loc,
                  "%s: the function aborts for some inputs; the property requires an exact result for every private and peer value" % [a.text[:50] for a in aborts],
                  function=f.name, construct="total")
    if n < 15:
        rep.defer_broken("D5: fewer than 15 fallible BN calls found in crypto_dh.c")


def run(tier):
    rep = report.Report("C10", tier,
        "Decided: the modulus table equals RFC 3526 group 14 as derived here from pi (D1); along blinded_modexp's success path every "
        "BIGNUM is interpreted as a linear form over {priv, blinding, 2^256} / a power of the caller's base, and the exported value is "
        "base^(priv + 4*2^256) mod p with the blinding's coefficient zero, every operation on the group-14 modulus, every fallible step "
        "tested (D2); the output is left-padded consistently (D3); the sanity check is the numeric comparison with p (D4). "
        "With OpenSSL's BN semantics trusted this decides the property's algebraic content; nothing numerical is left undecided here.",
        trusted=["OpenSSL BN_bin2bn/BN_add/BN_sub/BN_mod_exp/BN_mod_mul/BN_bn2bin/BN_num_bytes semantics"])
    prog = ir.Program([UNIT, "crypto/crypto_dh_group14.c"], cdb.HOST)
    rep.add_stats(prog)
    d1(prog, rep, tier)
    d2(prog, rep)
    d3_d4(prog, rep)
    d5_d6(prog, rep)
    # the BIGNUMs of one computation live and die inside it: acquisitions tested, released on every failure path, and no released
    # pointer survives in static storage for the next call to compute with (allocation discipline shared with C14)
    from . import c14
    c14.leak_rules(prog, rep, only_files=(UNIT,))
    c14.reported_rule(prog, rep, only_files=(UNIT,))
    rep.require_min("D1-modulus", 2)
    rep.require_min("D2-forms", 12)
    return rep
