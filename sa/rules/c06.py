"""C06 — asynchronous read/write/connect/accept complete exactly once.

LIN     callback linearity of every handler-like function (sa/lin.py)
CANCELS every registration kind a handler can leave armed is cancelled by the
        unit's *_cancel routine, which frees the cookie last
N1      send() carries MSG_NOSIGNAL (or is bracketed by SIGPIPE ignore/restore)
N2      the errno values routed to the re-arm are exactly the would-block set
N3      the re-arm registers the same handler/descriptor/direction as the
        initial registration
N4      connect: close + advance the address cursor before retrying
N5      transfer window: the kernel call gets buf+bufpos / buflen-bufpos, the
        position advances by exactly the call's result, completion reports it
"""
from .. import cdb, ir, report, lin
from ..ir import norm, show, root_var, subterms
from ..dataflow import cond_atoms, Solver

UNITS = {
    "network/network_read.c": ("network_read_cookie", (), "network_read", "network_read_cancel"),
    "network/network_write.c": ("network_write_cookie", (), "network_write", "network_write_cancel"),
    "network/network_accept.c": ("accept_cookie", (), "network_accept", "network_accept_cancel"),
    "network/network_connect.c": ("connect_cookie", (), "network_connect_internal", "network_connect_cancel"),
}
EAGAIN, EINTR, ECONNABORTED = 11, 4, 103
REARM_FAILS_TO_COMPLETION = ("network/network_read.c", "network/network_write.c")
WOULDBLOCK = {"network/network_read.c": {EAGAIN, EINTR}, "network/network_write.c": {EAGAIN, EINTR},
              "network/network_accept.c": {EAGAIN, EINTR, ECONNABORTED}}
SYSCALL = {"network/network_read.c": "recv", "network/network_write.c": "send", "network/network_accept.c": "accept"}
MSG_NOSIGNAL = 0x4000


def strip_ids(n):
    """Forget variable identities (names only): for comparing code in two functions."""
    if isinstance(n, tuple):
        if n and n[0] == "v":
            return ("v", "_")   # any cookie variable
        return tuple(strip_ids(k) for k in n)
    return n


def lin_rule(prog, rep, up, rec, rel):
    L = lin.Lin(prog, up, rec, rel)
    u = prog.unit(up)
    armed_kinds = set()
    for h in sorted(L.handlers):
        f = u.func(h)
        v = L.analyze(f)
        for e in f.calls():
            if e.callee in lin.REARM:
                armed_kinds.add(lin.REARM[e.callee][0])
        if v:
            for e, m in v:
                rep.bad("LIN", "%s: %s" % (h, e.text[:50]), e.where, m, function=h, construct="lin:" + m[:40])
        else:
            rep.ok("LIN", h, f.loc, "dispositions of its %d return paths: %s" % (len(L.paths), ",".join(sorted(set(x or "?" for x in L.paths)))))
    return L, armed_kinds


def cancel_rule(prog, rep, up, rec, ctor, cancel, L, armed_kinds):
    u = prog.unit(up)
    f = u.func(cancel)
    if f is None:
        raise cdb.AnalysisBroken("anchor missing: %s in %s" % (cancel, up))
    V = lin.cookie_vars(f, rec)
    # registrations made by the constructor count too
    c = u.func(ctor)
    if c is None:
        raise cdb.AnalysisBroken("anchor missing: %s in %s" % (ctor, up))
    kinds = set(armed_kinds)
    for e in c.calls():
        if e.callee in lin.REARM:
            kinds.add(lin.REARM[e.callee][0])
    cancelled = set()
    frees = []
    for e in f.calls():
        if e.callee in lin.CANCEL:
            cancelled.add(lin.CANCEL[e.callee])
        if L._releases(f, e, V):
            frees.append(e)
    rep.check(kinds <= cancelled, "CANCELS", "%s cancels %s" % (cancel, sorted(kinds)), f.loc,
              "registrations that can be pending: %s; cancelled by %s: %s" % (sorted(kinds), cancel, sorted(cancelled)),
              function=cancel, construct="cancel-kinds")
    # ... and cancels *its own* registration: the (descriptor, direction) pairs handed to events_network_cancel are those the unit
    # registers (cancelling the other direction removes somebody else's registration on the same socket and leaves one's own behind,
    # pointing at a cookie that is about to be freed)
    def pairs(calls, fi, oi):
        out = set()
        for e in calls:
            fd, op = norm(e.arg(fi)), norm(e.arg(oi))
            out.add((fd[2] if fd[0] == "." else show(fd), op[1] if op[0] == "c" else show(op)))
        return out
    regs = pairs([e for g in u.funcs if g.file == up for e in g.calls("events_network_register")], 2, 3)
    cans = pairs(list(f.calls("events_network_cancel")), 0, 1)
    if regs or cans:
        rep.check(cans <= regs and (not regs or bool(cans)), "CANCELS", "%s cancels the (descriptor, direction) registrations its unit makes" % cancel, f.loc,
                  "registered: %s; cancelled: %s" % (sorted(regs), sorted(cans)), function=cancel, construct="cancel-direction")
    # cookie freed, and freed after every cancel call (last)
    ok = bool(frees)
    for fr in frees:
        for e in f.calls():
            if e.callee in lin.CANCEL and not (f.dominates(e, fr) or not _may_follow(f, fr, e)):
                ok = False
    # and on every path to the exit the cookie is freed
    exits = [b for b in f.blocks[f.exit].preds if not f.blocks[b].noreturn]
    for b in exits:
        last = f.blocks[b].elems[-1] if f.blocks[b].elems else None
        if last is None or not any(f.dominates(fr, last) or fr is last for fr in frees):
            ok = False
    rep.check(ok, "CANCELS", "%s frees the cookie last" % cancel, f.loc,
              "the cookie must be released on every path, after the registrations were cancelled",
              function=cancel, construct="cancel-free")
    # slots: a cancel call taking cookie->slot must be guarded by slot != NULL when the slot can be NULL
    for e in f.calls():
        if e.callee in ("events_timer_cancel", "events_immediate_cancel") and e.arg(0) is not None:
            slot = norm(e.arg(0))
            guarded = False
            for b in f.blocks.values():
                if b.cond is None:
                    continue
                for op, Lh, R, _, _ in cond_atoms(b.cond, True):
                    if Lh == slot and R == ("c", 0) and op == "!=" and b.succs[0] is not None:
                        if e.block.id == b.succs[0] or e.block.id in f.reach_from(b.id, stop=()) and b.id in f.dominators().get(e.block.id, ()):
                            guarded = True
            rep.check(guarded, "SLOT", "%s(%s) in %s" % (e.callee, show(slot), cancel), e.where,
                      "cancelling a slot that may be empty must be guarded by a test of the slot",
                      function=cancel, construct="slot-guard:" + show(slot))


def slot_empty_rule(prog, rep, up, rec, L):
    """A recycled registration slot (a cookie field that is re-armed during the request's life) must be known empty
    whenever a new registration is stored into it: otherwise the earlier registration stays pending with no handle,
    fires later on a released request, and the request completes twice."""
    from ..dataflow import Solver
    u = prog.unit(up)
    funcs = [f for f in u.funcs if f.file == up]
    reg_sites = {}      # field -> [(func, assign elem)]
    nulls = {}          # field -> [(func, elem)]
    for f in funcs:
        for e in f.all_elems():
            if e.is_assign and e.op == "=" and norm(e.kid(0))[0] == ".":
                fld = norm(e.kid(0))[2]
                r = e.kid(1).strip() if e.kid(1) is not None else None
                if r is not None and r.cls == "CallExpr" and r.callee in lin.REARM:
                    reg_sites.setdefault(fld, []).append((f, e))
                elif norm(e.kid(1)) == ("c", 0):
                    nulls.setdefault(fld, []).append((f, e))
    n = 0
    for fld, sites in reg_sites.items():
        # recycled: cleared by some handler-like function (not only by the constructor)
        if not any(f.name in L.handlers for f, _ in nulls.get(fld, [])):
            continue
        memo = {}

        def analyse(f):
            """(requires_empty_at_entry, [violating call elems]) for f."""
            if f.name in memo:
                return memo[f.name]
            memo[f.name] = (False, [])

            def transfer(st, e):
                if e.is_assign and e.op == "=" and norm(e.kid(0))[0] == "." and norm(e.kid(0))[2] == fld:
                    r = e.kid(1).strip()
                    if r is not None and r.cls == "CallExpr" and r.callee in lin.REARM:
                        return "armed"
                    if norm(e.kid(1)) == ("c", 0):
                        return "empty"
                return st
            def refine(st, cond, kind):
                if kind in (True, False):
                    for op, Lh, R, _, _ in cond_atoms(cond, kind):
                        if op == "==" and R == ("c", 0) and Lh[0] == "." and Lh[2] == fld:
                            return "empty"
                return st
            s = Solver(f, "entry", transfer, refine, lambda a, b: a if a == b else ("entry" if "entry" in (a, b) and "armed" not in (a, b) else "armed")).run()
            need = [False]
            viol = []

            def visit(e, st):
                if e.is_assign and e.op == "=" and norm(e.kid(0))[0] == "." and norm(e.kid(0))[2] == fld:
                    r = e.kid(1).strip()
                    if r is not None and r.cls == "CallExpr" and r.callee in lin.REARM:
                        if st == "entry":
                            need[0] = True
                        elif st == "armed":
                            viol.append(e)
                if e.cls == "CallExpr" and e.callee and u.func(e.callee) is not None and u.func(e.callee).file == up and e.callee != f.name:
                    g = u.func(e.callee)
                    if lin._cookie_arg(e, lin.cookie_vars(f, rec)) is None:
                        return
                    rq, _ = analyse(g)
                    if rq:
                        if st == "entry":
                            need[0] = True
                        elif st == "armed":
                            viol.append(e)
            s.visit(visit)
            memo[f.name] = (need[0], viol)
            return memo[f.name]
        for f in funcs:
            if not lin.cookie_vars(f, rec):
                continue
            rq, viol = analyse(f)
            # entry points that cannot assume anything: event handlers (registered callbacks) and the constructor
            is_entry = any(norm(a)[0] == "fn" and norm(a)[1] == f.name for g in funcs for c in g.calls() for a in c.args if a is not None) or not f.static
            n += 1
            for e in viol:
                rep.bad("SLOT-empty", "%s may still hold a registration when %s re-arms it" % (fld, f.name), e.where,
                        "a registration is stored into the slot (directly or by the callee) while an earlier one may still be pending", function=f.name, construct="slot-empty:" + fld)
            if is_entry and rq:
                rep.bad("SLOT-empty", "%s reaches a re-registration of %s without cancelling/clearing it first" % (f.name, fld), f.loc,
                        "on some path from this entry point a new registration is stored into %s (possibly by a callee) while the previous one may still be pending: "
                        "the stale event later fires on a released request" % fld, function=f.name, construct="slot-empty:" + fld)
            elif not viol:
                rep.ok("SLOT-empty", "%s: %s is empty whenever it is re-armed" % (f.name, fld), f.loc)
    return n


def _may_follow(f, a, b):
    """Can b execute after a?"""
    if a.block.id == b.block.id:
        return b.i > a.i
    return b.block.id in f.reach_from(a.block.id)


def n1(prog, rep):
    u = prog.unit("network/network_write.c")
    n = 0
    for f in u.funcs:
        for c in f.calls("send"):
            n += 1
            fl = c.arg(3)
            v = fl.val if fl is not None else None
            if v is not None and v & MSG_NOSIGNAL:
                rep.ok("N1", "send flags in %s" % f.name, c.where, "flags fold to %#x (MSG_NOSIGNAL set)" % v)
            else:
                # POSIXFAIL_MSG_NOSIGNAL configuration: the call must be bracketed by signal(SIGPIPE, SIG_IGN) ... signal(SIGPIPE, old)
                sigs = [s for s in f.calls("signal") if s.arg(0) is not None and s.arg(0).val == 13]
                before = [s for s in sigs if f.dominates(s, c)]
                after = [s for s in sigs if f.dominates(c, s)]
                rep.check(bool(before) and bool(after), "N1", "send flags in %s" % f.name, c.where,
                          "send() without MSG_NOSIGNAL (flags=%s) must run with SIGPIPE ignored and restored on all paths" % v,
                          function=f.name, construct="send-flags")
    if not n:
        raise cdb.AnalysisBroken("N1: no send() call in network_write.c")
    ur = prog.unit("network/network_read.c") if "network/network_read.c" in prog.units else None
    if ur is not None:
        for f in ur.funcs:
            for c in f.calls("recv"):
                fl = c.arg(3)
                v = fl.val if fl is not None else None
                rep.check(v == 0, "N1", "recv flags in %s" % f.name, c.where,
                          "recv() is asked for the stream's next bytes and nothing else: flags must be 0 (found %s; MSG_OOB=1, MSG_PEEK=2 would deliver other bytes or the same bytes twice)" % v,
                          function=f.name, construct="recv-flags")


def errno_atoms(f):
    """[(K, block, truth-edge successor)] for every comparison errno == K."""
    out = []
    for b in f.blocks.values():
        if b.cond is None or len(b.succs) != 2:
            continue
        for op, L, R, _, _ in cond_atoms(b.cond, True):
            if L == ("*", ("call", "__errno_location")) and R[0] == "c" and op == "==":
                out.append((R[1], b, b.succs[0]))
    return out


def _eval_errno(e, k):
    """Truth of condition `e` when errno == k, or None when it depends on anything else."""
    ERR = ("*", ("call", "__errno_location"))
    e = e.strip() if e is not None else None
    if e is None:
        return None
    if e.cls == "UnaryOperator" and e.op == "!":
        v = _eval_errno(e.kid(0), k)
        return None if v is None else not v
    if e.cls == "BinaryOperator" and e.op in ("&&", "||"):
        a, b = _eval_errno(e.kid(0), k), _eval_errno(e.kid(1), k)
        if e.op == "&&":
            if a is False or b is False:
                return False
            return True if (a is True and b is True) else None
        if a is True or b is True:
            return True
        return False if (a is False and b is False) else None
    if e.cls == "BinaryOperator" and e.op in ("==", "!=", "<", "<=", ">", ">="):
        l, r = norm(e.kid(0)), norm(e.kid(1))
        op = e.op
        if r == ERR and l[0] == "c":
            l, r = r, l
            op = {"<": ">", ">": "<", "<=": ">=", ">=": "<="}.get(op, op)
        if l == ERR and r[0] == "c" and isinstance(r[1], int):
            return {"==": k == r[1], "!=": k != r[1], "<": k < r[1], "<=": k <= r[1], ">": k > r[1], ">=": k >= r[1]}[op]
        return None
    if e.cls == "CallExpr" and e.callee == "__builtin_expect":
        return _eval_errno(e.arg(0), k)
    return None


def n2_n3(prog, rep, up, L):
    u = prog.unit(up)
    sysc = SYSCALL[up]
    hs = [u.func(h) for h in L.handlers if any(True for _ in u.func(h).calls(sysc))]
    if len(hs) != 1:
        raise cdb.AnalysisBroken("N2: expected exactly one handler calling %s in %s" % (sysc, up))
    f = hs[0]
    rearm = [c for c in f.calls("events_network_register")]
    if len(rearm) != 1:
        rep.bad("N2", "%s re-arm" % f.name, f.loc, "the handler must contain exactly one re-registration for the would-block answers; found %d" % len(rearm),
                function=f.name, construct="rearm-count")
        return
    rb = rearm[0].block.id
    ks = errno_atoms(f)
    # the same set, decided value by value: with errno known, every comparison of errno is decided and the walk from the first
    # of them either arrives at the re-registration or does not (`a && b` chains, negations and nestings all reduce to this)
    ERR = ("*", ("call", "__errno_location"))
    eblocks = [b for b in f.blocks.values() if b.cond is not None and (
        (b.term_cls == "SwitchStmt" and norm(b.cond) == ERR) or
        (len(b.succs) == 2 and b.term_cls != "SwitchStmt" and (_eval_errno(b.cond, EAGAIN) is not None)))]
    # the warning macros look at errno themselves (to choose between warn and warnx): those tests are not the handler's
    eblocks = [b for b in eblocks if not any(m.startswith("warn") for m in b.cond.macro)]
    switch_form = any(b.term_cls == "SwitchStmt" for b in eblocks)
    order = {bid: i for i, bid in enumerate(f.rpo())}
    eblocks.sort(key=lambda b: order.get(b.id, 1 << 30))
    universe = sorted(set([EAGAIN, EINTR, ECONNABORTED, 104, 32, 110, 9]) | set(k for k, _, _ in ks))
    walked = set()
    if eblocks:
        for k in universe:
            outcomes = set()
            work = [eblocks[0].id]
            seen = set()
            while work:
                nb = work.pop()
                if nb is None or nb in seen:
                    continue
                seen.add(nb)
                if nb == rb:
                    outcomes.add("rearm")
                    continue
                blk = f.blocks[nb]
                if blk.noreturn or any(e.cls == "ReturnStmt" for e in blk.elems) or not blk.succs:
                    outcomes.add("other")
                    continue
                if blk.cond is not None and blk.term_cls == "SwitchStmt" and norm(blk.cond) == ERR:
                    from ..dataflow import edge_kinds
                    nxt = None
                    for (cnd, kind), sx in zip(edge_kinds(blk), blk.succs):
                        if isinstance(kind, tuple) and kind[0] == "case" and kind[1] == k:
                            nxt = sx
                    if nxt is None:
                        for (cnd, kind), sx in zip(edge_kinds(blk), blk.succs):
                            if isinstance(kind, tuple) and kind[0] in ("default", "none"):
                                nxt = sx
                    work.append(nxt)
                    continue
                if blk.cond is not None and len(blk.succs) == 2:
                    dec = _eval_errno(blk.cond, k)
                    if dec is not None:
                        work.append(blk.succs[0] if dec else blk.succs[1])
                        continue
                work.extend(x for x in blk.succs if x is not None)
            if outcomes == {"rearm"}:
                walked.add(k)
        want = WOULDBLOCK[up]
    else:
        rep.bad("N2", "%s would-block set" % f.name, f.loc, "no test of errno found in the handler: a would-block answer ends the request", function=f.name, construct="wouldblock")
        want = None
    if eblocks:
        rep.check(walked == want, "N2", "%s: answers retried, decided per errno value" % f.name, eblocks[0].cond.where,
                  "with errno set to each of %s in turn, the walk from the first errno test arrives at the re-registration for %s; required exactly %s "
                  "(EAGAIN/EWOULDBLOCK=11, EINTR=4, ECONNABORTED=103): a would-block answer not retried ends the request with an error that did not "
                  "happen, any other answer retried is retried for ever" % (universe, sorted(walked), sorted(want)),
                  function=f.name, construct="wouldblock-values")
    # every other -1 goes to the failure completion, not to the re-arm: the false edge of the last errno test must not reach the re-arm block
    # without passing a completion
    sc = list(f.calls(sysc))[0]
    # the syscall result is compared with -1
    res_tested = False
    for b in f.blocks.values():
        if b.cond is None:
            continue
        for op, Lh, R, Le, _ in cond_atoms(b.cond, True):
            if R == ("c", -1) and op == "==":
                res_tested = True
    rep.check(res_tested, "N2", "%s result tested" % sysc, sc.where, "the result of %s() must be compared with -1" % sysc,
              function=f.name, construct="result-test")
    if sysc == "recv":
        eof = False
        for b in f.blocks.values():
            if b.cond is None or len(b.succs) != 2:
                continue
            for op, Lh, R, _, _ in cond_atoms(b.cond, True):
                if R == ("c", 0) and op == "==" and Lh[0] == "v" and b.succs[0] is not None:
                    # true edge must reach a completion with status 0 and must not reach the re-arm first
                    tgt = f.blocks[b.succs[0]]
                    hops = 0
                    while not any(c.cls == "CallExpr" for c in tgt.elems) and len(tgt.succs) == 1 and tgt.succs[0] is not None and hops < 8:
                        tgt = f.blocks[tgt.succs[0]]
                        hops += 1
                    calls = [c for c in tgt.elems if c.cls == "CallExpr"]
                    if any(c.callee in L.handlers and c.arg(1) is not None and norm(c.arg(1)) == ("c", 0) for c in calls):
                        eof = True
        rep.check(eof, "N2", "recv == 0 is end-of-stream", f.loc,
                  "a zero-length recv must complete the request with status 0", function=f.name, construct="eof")
    # N3: same registration as the constructor's
    ctor = u.func(UNITS[up][2])
    init = [c for c in ctor.calls("events_network_register")]
    if len(init) != 1:
        raise cdb.AnalysisBroken("N3: expected one initial registration in %s" % ctor.name)
    a, b = init[0], rearm[0]
    same = (norm(a.arg(0)) == norm(b.arg(0)) and strip_ids(norm(a.arg(2))) == strip_ids(norm(b.arg(2)))
            and norm(a.arg(3)) == norm(b.arg(3)) and norm(b.arg(0)) == ("fn", f.name))
    rep.check(same, "N3", "re-arm in %s equals the registration in %s" % (f.name, ctor.name), b.where,
              "initial: %s ; re-arm: %s" % (a.text, b.text), function=f.name, construct="rearm-args")
    # N3 (read/write): a re-arm that cannot be made still completes the request -- its failure edge reaches the failure
    # completion docallback(C, -1), its success edge returns 0.  (network_accept returns the registration's status and leaves
    # the request cancellable: frozen exception, it has no failure completion to route to.)
    if up in REARM_FAILS_TO_COMPLETION:
        reb = rearm[0]
        ok = False
        for blk in f.blocks.values():
            if blk.cond is None or len(blk.succs) != 2:
                continue
            for op, Lh, R, Le, _ in cond_atoms(blk.cond, True):
                if Le is not None and Le.strip() is reb and op == "!=" and R == ("c", 0):
                    t, fl = blk.succs
                    tv, tseen = f.returns_from(t)
                    fv, fseen = f.returns_from(fl)
                    fail_completes = any(c.cls == "CallExpr" and c.callee in L.handlers and c.arg(1) is not None and norm(c.arg(1)) == ("c", -1)
                                         for bid in tseen for c in f.blocks[bid].elems)
                    ok = fail_completes and fv == [("c", 0)]
        rep.check(ok, "N3", "a failed re-arm in %s completes the request with -1" % f.name, reb.where,
                  "the registration's failure edge must reach the failure completion (one callback with -1), its success edge `return 0`; "
                  "returning the registration's status ends the request with no callback", function=f.name, construct="rearm-failure")


def _edge_reaches(f, start, target):
    if start == target:
        return True
    seen = set()
    work = [start]
    while work:
        n = work.pop()
        if n in seen:
            continue
        seen.add(n)
        if n == target:
            return True
        # do not pass through blocks that complete the request
        work.extend(s for s in f.blocks[n].succs if s is not None)
    return False


def n4(prog, rep):
    u = prog.unit("network/network_connect.c")
    f = u.func("dofailed")
    if f is None:
        raise cdb.AnalysisBroken("anchor missing: dofailed in network_connect.c")
    retry = [c for c in f.calls("tryconnect")]
    closes = [c for c in f.calls("close")]
    incs = [e for e in f.all_elems() if e.is_incdec and e.op in ("post++", "pre++") and norm(e.kid(0))[0] == "." and norm(e.kid(0))[2] == "sas"]
    ok = bool(retry) and bool(closes) and bool(incs) and all(f.dominates(closes[0], r) and f.dominates(incs[0], r) for r in retry)
    rep.check(ok, "N4", "dofailed: close, advance, retry", f.loc,
              "the failed socket is closed and the address cursor advanced on every path before tryconnect is re-entered",
              function="dofailed", construct="advance")
    # every failure route of the handlers goes through dofailed (not straight to tryconnect)
    for h in ("callback_connect", "callback_timeo"):
        g = u.func(h)
        if g is None:
            raise cdb.AnalysisBroken("anchor missing: %s" % h)
        direct = [c for c in g.calls("tryconnect")]
        rep.check(not direct, "N4", "%s retries only through dofailed" % h, g.loc,
                  "a handler that re-enters tryconnect directly would retry the same address forever",
                  function=h, construct="direct-retry")
    # exhaustion schedules exactly one immediate completion
    t = u.func("tryconnect")
    imm = [c for c in t.calls("events_immediate_register")]
    ok = len(imm) == 1 and norm(imm[0].arg(0)) == ("fn", "docallback")
    # and it is reached only when sas[0] == NULL
    rep.check(ok, "N4", "exhausted list schedules one completion", t.loc,
              "tryconnect must register docallback as an immediate event exactly once", function="tryconnect", construct="exhaust")
    # the loop advances sas on immediate failure and stops on the first socket
    incs = [e for e in t.all_elems() if e.is_incdec and norm(e.kid(0))[0] == "." and norm(e.kid(0))[2] == "sas"]
    rep.check(bool(incs), "N4", "tryconnect advances past addresses that fail at once", t.loc,
              "the address loop must advance C->sas", function="tryconnect", construct="loop-advance")



SOCKMAKERS = ("socket", "accept", "sock_connect_bind_nb", "sock_connect_nb", "sock_connect", "sock_connect_blocking", "sock_listener", "open", "dup")


def owned_fd_rule(prog, rep):
    """A request that creates its own descriptor (a field assigned from socket()/accept()/sock_connect_*()) does not release
    itself while that descriptor may still be open and its own: on every path to free(C) the field is known to be -1, has been
    closed, or has been handed to the caller's callback.  (Otherwise the descriptor leaks on that path -- or, with the test the
    wrong way round, close(-1) is called and the open one is lost.)"""
    n = 0
    for up, (rec, _, _, _) in UNITS.items():
        u = prog.unit(up)
        owned = set()
        for f in u.funcs:
            if f.file != up:
                continue
            for e in f.all_elems():
                if e.is_assign and e.op == "=" and e.kid(1) is not None:
                    r = e.kid(1).strip()
                    t = norm(e.kid(0))
                    if r is not None and r.cls == "CallExpr" and r.callee in SOCKMAKERS and t[0] == "." and t[1][0] == "*" and t[1][1][0] == "v":
                        owned.add(t[2])
        if not owned:
            continue
        for f in u.funcs:
            if f.file != up:
                continue
            V = lin.cookie_vars(f, rec)
            if not V:
                continue

            def fdpath(t):
                return t[0] == "." and t[2] in owned and t[1][0] == "*" and t[1][1][0] == "v" and t[1][1][2] in V

            frees = [e for e in f.calls("free") if e.arg(0) is not None and norm(e.arg(0))[0] == "v" and norm(e.arg(0))[2] in V]
            if not frees:
                continue

            def transfer(st, e):
                if e.is_assign and fdpath(norm(e.kid(0))):
                    return "safe" if (e.op == "=" and norm(e.kid(1)) == ("c", -1)) else "maybe"
                if e.cls == "CallExpr":
                    if e.callee == "close" and e.arg(0) is not None and fdpath(norm(e.arg(0))):
                        return "safe"
                    if e.callee is None and any(a is not None and fdpath(norm(a)) for a in e.args):
                        return "safe"        # handed to the caller's callback
                return st

            def refine(st, cond, kind):
                if kind not in (True, False):
                    return st
                for op, L, R, _, _ in cond_atoms(cond, kind):
                    if fdpath(L) and R == ("c", -1):
                        if op == "==":
                            return "safe"
                        if op == "!=":
                            return "open" if st != "safe" else st
                return st

            def join(a, b):
                return a if a == b else "maybe"

            sol = Solver(f, "maybe", transfer, refine, join).run()
            bad = {}

            def visit(e, st):
                if e in frees and st != "safe":
                    bad[e.pos] = st
            sol.visit(visit)
            for e in frees:
                n += 1
                rep.check(e.pos not in bad, "N4", "%s: the request's own descriptor is closed, handed over or absent when the request is released" % f.name, e.where,
                          "a path reaches this free() with C->%s %s: the descriptor the request created is neither closed nor given to the caller" % (
                              sorted(owned)[0], "open" if bad.get(e.pos) == "open" else "possibly open"), function=f.name, construct="owned-fd")
    return n


SO_ERROR = 4


def _callees_from(f, start):
    """names of the functions called (directly) in blocks reachable from block `start`"""
    seen, work, out = set(), [start], set()
    while work:
        nb = work.pop()
        if nb is None or nb in seen:
            continue
        seen.add(nb)
        for e in f.blocks[nb].elems:
            if e.cls == "CallExpr" and e.callee:
                out.add(e.callee)
        work.extend(f.blocks[nb].succs)
    return out


def connect_routing_rule(prog, rep):
    """network_connect tries the addresses in order and completes with the first socket that connected:
    (a) the address handed to the socket-creating call has been tested non-NULL, the completion with -1 is scheduled only once the
        cursor stands on the terminating NULL, and the wait for the connection is registered only with an address in hand;
    (b) when the socket becomes writable, SO_ERROR decides: non-zero goes to the next address, zero completes with this socket;
    (c) a per-address timeout is armed exactly when the caller gave one: the flag that guards the timer is set under
        timeo != NULL and cleared under timeo == NULL."""
    up = "network/network_connect.c"
    u = prog.unit(up)
    rec = UNITS[up][0]
    T = mk = None
    for f in u.funcs:
        if f.file != up:
            continue
        for e in f.all_elems():
            if e.is_assign and e.op == "=" and e.kid(1) is not None and e.kid(1).strip() is not None and e.kid(1).strip().cls == "CallExpr" and e.kid(1).strip().callee in SOCKMAKERS:
                T, mk = f, e.kid(1).strip()
    if T is None:
        rep.defer_broken("N4: no socket-creating call found in network_connect.c")
        return 0
    n = 0
    addr = norm(mk.arg(0)) if mk.arg(0) is not None else None

    def d0(t):
        """p[0] and *p are one term"""
        if isinstance(t, tuple):
            t = tuple(d0(x) for x in t)
            if len(t) == 3 and t[0] == "[]" and t[2] == ("c", 0):
                return ("*", t[1])
        return t
    addr = d0(addr)

    def guards(f, e):
        return [(op, d0(L), R) for cond, truth in f.edge_conds(e) for op, L, R, _, _ in cond_atoms(cond, truth)]

    # (a)
    g = guards(T, mk)
    n += 1
    rep.check(any(op == "!=" and L == addr and R == ("c", 0) for op, L, R in g), "N4", "%s: the address given to %s() is the one just tested non-NULL" % (T.name, mk.callee), mk.where,
              "no dominating test `%s != NULL`: the loop tests another element than the one it uses, so the terminating NULL is passed to the "
              "socket call or the last address is never tried" % show(addr), function=T.name, construct="addr-tested")
    imm = [c for c in T.calls("events_immediate_register")]
    net = [c for c in T.calls("events_network_register")]
    for c in imm:
        n += 1
        rep.check(any(op == "==" and L == addr and R == ("c", 0) for op, L, R in guards(T, c)), "N4", "%s: completion with -1 only when the list is exhausted" % T.name, c.where,
                  "the immediate completion is not guarded by `%s == NULL`" % show(addr), function=T.name, construct="exhaust-guard")
    for c in net:
        n += 1
        rep.check(any(op == "!=" and L == addr and R == ("c", 0) for op, L, R in guards(T, c)), "N4", "%s: the wait is registered only with an address in hand" % T.name, c.where,
                  "the registration is not guarded by `%s != NULL`" % show(addr), function=T.name, construct="wait-guard")
    # (b)
    H = None
    for c in net:
        a0 = norm(c.arg(0)) if c.arg(0) is not None else None
        if a0 is not None and a0[0] == "fn":
            H = u.func(a0[1])
    completes = set(f.name for f in u.funcs if f.file == up and any(e.cls == "CallExpr" and e.callee is None for e in f.all_elems()))
    nexts = set(f.name for f in u.funcs if f.file == up and f is not T and any(True for _ in f.calls(T.name)) and any(e.is_incdec for e in f.all_elems()))
    if H is None or not completes or not nexts:
        rep.defer_broken("N4: the connection handler, the completion or the next-address step was not found in network_connect.c")
        return n
    gs = [c for c in H.calls("getsockopt") if c.arg(2) is not None and norm(c.arg(2)) == ("c", SO_ERROR)]
    if len(gs) != 1 or gs[0].arg(3) is None or norm(gs[0].arg(3))[0] != "&":
        rep.bad("N4", "%s reads SO_ERROR" % H.name, H.loc, "the outcome of the connection attempt must be read with getsockopt(SO_ERROR)", function=H.name, construct="so-error")
        return n + 1
    ev = norm(gs[0].arg(3))[1]
    routed = 0
    for b in H.blocks.values():
        if b.cond is None or len(b.succs) != 2:
            continue
        for truth, succ in ((True, b.succs[0]), (False, b.succs[1])):
            for op, L, R, _, _ in cond_atoms(b.cond, truth):
                if L == ev and R == ("c", 0) and op in (">", "<="):
                    op = "!=" if op == ">" else "=="      # pending socket errors are positive errno values
                if L == ev and R == ("c", 0) and op in ("==", "!="):
                    routed += 1
                    cs = _callees_from(H, succ)
                    n += 1
                    if op == "!=":
                        ok = bool(cs & nexts) and not (cs & completes)
                        msg = "with SO_ERROR != 0 the attempt failed: the handler must go on to the next address (%s), not complete with this socket" % "/".join(sorted(nexts))
                    else:
                        ok = bool(cs & completes) and not (cs & nexts)
                        msg = "with SO_ERROR == 0 the socket is connected: the handler must complete with it (%s), not drop it and try the next address" % "/".join(sorted(completes))
                    rep.check(ok, "N4", "%s: SO_ERROR %s 0 is routed to %s" % (H.name, op, "the next address" if op == "!=" else "the completion"), b.cond.where,
                              msg + "; calls reachable on this edge: %s" % sorted(cs), function=H.name, construct="so-error-route")
    if routed < 2:
        rep.bad("N4", "%s branches on SO_ERROR" % H.name, H.loc, "no test of the value read with SO_ERROR against 0 found", function=H.name, construct="so-error-route")
        n += 1
    # (c)
    tm = [c for c in T.calls("events_timer_register")]
    ctor = u.func(UNITS[up][2])
    tparam = [q for q in (ctor.params if ctor else []) if "timeval" in q["ty"]]
    for c in tm:
        flags = [L for op, L, R in guards(T, c) if op == "!=" and R == ("c", 0) and L[0] == "." and L[1][0] == "*"]
        if not flags or not tparam:
            continue
        fld = flags[0][2]
        P = ("v", tparam[0]["name"], tparam[0]["id"])
        for e in ctor.all_elems():
            if e.is_assign and e.op == "=" and norm(e.kid(0))[0] == "." and norm(e.kid(0))[2] == fld:
                gg = guards(ctor, e)
                given = any(op == "!=" and L == P and R == ("c", 0) for op, L, R in gg)
                absent = any(op == "==" and L == P and R == ("c", 0) for op, L, R in gg)
                v = norm(e.kid(1))
                n += 1
                ok = (given and v[0] == "c" and v[1] != 0) or (absent and v == ("c", 0)) or (not given and not absent and v[0] != "c")
                rep.check(ok, "N4", "%s: the timeout flag follows the caller's timeo" % ctor.name, e.where,
                          "`%s` under %s: the timer in %s is armed exactly when this field is non-zero, so a caller's timeout would be %s" % (
                              e.text[:40], "timeo != NULL" if given else ("timeo == NULL" if absent else "no test of timeo"), T.name,
                              "ignored" if given else "read from an unset field"), function=ctor.name, construct="timeo-flag")
    return n


def failed_register_rule(prog, rep):
    """A registration that was refused is not cancelled: from the failure edge of events_network_register() no path reaches
    events_network_cancel() for that descriptor and direction, nor the unit's own cancel routine (which cancels whatever is
    registered for the descriptor -- when the refusal was EEXIST, that is another request's registration)."""
    n = 0
    for up, (rec, rel, ctor, cancel) in UNITS.items():
        u = prog.unit(up)
        for f in u.funcs:
            if f.file != up:
                continue
            for c in f.calls("events_network_register"):
                for b in f.blocks.values():
                    if b.cond is None or len(b.succs) != 2:
                        continue
                    for truth, sx in ((True, b.succs[0]), (False, b.succs[1])):
                        if sx is None:
                            continue
                        if not any(Le is not None and Le.strip() is c and op == "!=" and R == ("c", 0) for op, L, R, Le, _ in cond_atoms(b.cond, truth)):
                            continue
                        n += 1
                        seen, work, bad = set(), [sx], None
                        while work and bad is None:
                            nb = work.pop()
                            if nb is None or nb in seen:
                                continue
                            seen.add(nb)
                            for e in f.blocks[nb].elems:
                                if e.cls == "CallExpr" and e.callee == cancel:
                                    bad = e
                                if e.cls == "CallExpr" and e.callee == "events_network_cancel" and e.arg(0) is not None and c.arg(2) is not None and \
                                        strip_ids(norm(e.arg(0))) == strip_ids(norm(c.arg(2))) and norm(e.arg(1)) == norm(c.arg(3)):
                                    bad = e
                            work.extend(f.blocks[nb].succs)
                        rep.check(bad is None, "N3", "%s: a refused registration is not cancelled" % f.name, (bad.where if bad is not None else c.where),
                                  "reached from the failure edge of %s: nothing of this request is registered there, so the cancellation removes whatever "
                                  "another request has registered for the descriptor" % c.text[:50], function=f.name, construct="cancel-after-refusal")
    return n


def sync_callback_rule(prog, rep, up, ctors):
    """The caller's callback is never invoked from inside the call that creates the request ("ends with exactly one callback" is
    promised to a caller that has the request's handle, which it has only once the creating call has returned; a completion from
    within it runs the caller's code before the caller has stored the handle, and typically frees what the creating call is about to
    return or still uses).  Decided on the unit's direct-call graph: from each creating function no chain of direct calls reaches
    a function that calls through a function pointer stored in the request."""
    u = prog.unit(up)
    completers = {}
    for f in u.funcs:
        if f.file != up:
            continue
        for e in f.all_elems():
            if e.cls == "CallExpr" and e.callee is None:
                k = e.kid(0)
                t = norm(k) if k is not None else None
                while t is not None and t[0] in ("cast", "*") and len(t) > 1 and isinstance(t[-1], tuple):
                    t = t[-1]
                if t is not None and t[0] == "." and t[1][0] == "*":
                    completers[f.name] = e
    n = 0
    for cn in ctors:
        c = u.func(cn)
        if c is None:
            continue
        n += 1
        seen, work, bad = {cn: None}, [cn], None
        while work and bad is None:
            g = u.func(work.pop())
            if g is None:
                continue
            for e in g.calls():
                if e.callee and e.callee not in seen and u.func(e.callee) is not None and u.func(e.callee).file == up:
                    seen[e.callee] = (g.name, e)
                    if e.callee in completers:
                        bad = e.callee
                        break
                    work.append(e.callee)
        chain = []
        x = bad
        while x is not None and seen.get(x) is not None:
            chain.append(x)
            x = seen[x][0]
        rep.check(bad is None, "N7-async", "%s never completes the request it is creating" % cn, (seen[bad][1].where if bad else c.loc),
                  "%s -> %s calls the caller's callback (%s) before %s has returned the request's handle" % (cn, " -> ".join(reversed(chain)), (completers[bad].text[:40] if bad else ""), cn),
                  function=cn, construct="sync-callback")
    return n


def live_handle_rule(prog, rep, units):
    """A handle known to be live is not simply forgotten: where `X->h = NULL` is executed under the test `X->h != NULL`, a cancel
    of that handle (a `*_cancel(X->h)` call) comes first.  (Clearing the field without cancelling leaves the timer or event
    armed with a cookie that the completion then frees.)"""
    n = 0
    for up in units:
        if up not in prog.units:
            continue
        u = prog.unit(up)
        for f in u.funcs:
            if f.file != up:
                continue
            for e in f.all_elems():
                if not (e.is_assign and e.op == "=" and norm(e.kid(1)) == ("c", 0) and norm(e.kid(0))[0] == "."):
                    continue
                h = norm(e.kid(0))
                live = any(op == "!=" and L == h and R == ("c", 0) for cond, truth in f.edge_conds(e) for op, L, R, _, _ in cond_atoms(cond, truth))
                if not live:
                    continue
                n += 1
                cancels = [c for c in f.calls() if c.callee and (c.callee.endswith("_cancel") or c.callee.endswith("_free") or c.callee == "free") and any(a is not None and norm(a) == h for a in c.args) and f.dominates(c, e)]
                # ... or the handle is first copied into a local and the copy is cancelled (clear, then cancel)
                copies = set()
                for x in f.all_elems():
                    init = None
                    if x.is_assign and x.op == "=" and norm(x.kid(0))[0] == "v" and norm(x.kid(1)) == h and f.dominates(x, e):
                        copies.add(norm(x.kid(0)))
                    if x.cls == "DeclStmt":
                        for d in x.decls or []:
                            if isinstance(d, dict) and d.get("init") and norm(f.elem(d["init"])) == h and (x.block.id in f.dominators().get(e.block.id, ()) or x.block.id == e.block.id):
                                copies.add(("v", d["name"], d["id"]))
                cancels += [c for c in f.calls() if c.callee and (c.callee.endswith("_cancel") or c.callee.endswith("_free") or c.callee == "free") and
                            any(a is not None and norm(a) in copies for a in c.args) and e.block.id in (f.dominators().get(c.block.id, set()) | {c.block.id})]
                rep.check(bool(cancels), "SLOT", "%s: %s is cancelled before the live handle is forgotten" % (f.name, show(h)), e.where,
                          "`%s` is executed where %s is known not to be NULL, and no cancel of it comes first: the operation stays armed with this request as its cookie"
                          % (e.text[:40], show(h)), function=f.name, construct="forget-live:" + h[2])
    return n


def closed_fd_rule(prog, rep):
    """A descriptor that has been closed does not stay in the request: after close(C->s) the field is overwritten (with -1
    or the next socket) on every path before the function returns, unless the request itself is released.  The completion
    callback reports C->s; a stale number there is a descriptor the caller never owned (and may since belong to someone else)."""
    n = 0
    for up in UNITS:
        u = prog.unit(up)
        for f in u.funcs:
            if f.file != up:
                continue
            for c in f.calls("close"):
                t = norm(c.arg(0))
                if t[0] != ".":
                    continue
                n += 1
                stores = [e for e in f.all_elems() if e.is_assign and e.op == "=" and norm(e.kid(0)) == t]
                frees = [x for x in f.calls() if x.callee in ("free",) and norm(x.arg(0)) == root_var(t)]
                okc = False
                for r in f.returns() or []:
                    pass
                # every path from the close to a return passes a store to the field (or a release of the request)
                blockers = set(e.block.id for e in stores if e.block.id != c.block.id or e.i > c.i) | set(x.block.id for x in frees)
                same_block_after = any(e.block.id == c.block.id and e.i > c.i for e in stores)
                if same_block_after:
                    okc = True
                else:
                    seen = set()
                    work = [s_ for s_ in c.block.succs if s_ is not None]
                    okc = True
                    while work:
                        b = work.pop()
                        if b in seen or b in blockers:
                            continue
                        seen.add(b)
                        blk = f.blocks[b]
                        if any(e.cls == "ReturnStmt" for e in blk.elems) or b == f.exit:
                            okc = False
                            break
                        work.extend(x for x in blk.succs if x is not None)
                rep.check(okc, "N4", "%s in %s: the closed descriptor does not stay in the request" % (c.text[:30], f.name), c.where,
                          "a return is reachable after this close without %s being overwritten: the completion would report a closed descriptor number instead of -1 (or the next socket)" % show(t),
                          function=f.name, construct="closed-fd")
    return n


def close_registered_rule(prog, rep):
    """A descriptor is closed only when nothing is registered for it any more: closing does not take the descriptor out of
    the event loop's tables, so the next socket created (which gets the same number) cannot be registered, or the stale
    pollfd entry answers POLLNVAL.  Interprocedural typestate over each unit that both registers and closes a descriptor kept
    in its request: `pending` after a successful events_network_register for it, `none` after events_network_cancel, in the
    network handler itself (the event that called it was consumed), after a failed registration, and for a fresh request or
    descriptor; every other handler (timer, immediate) and every public function starts `pending`.  At every close: `none`."""
    n = 0
    for up in UNITS:
        u = prog.unit(up)
        funcs = [f for f in u.funcs if f.file == up]
        regs = [(f, c) for f in funcs for c in f.calls("events_network_register") if norm(c.arg(2))[0] == "."]
        closes = [(f, c) for f in funcs for c in f.calls("close") if norm(c.arg(0))[0] == "."]
        if not regs or not closes:
            continue
        fld = norm(regs[0][1].arg(2))[2]
        handlers = set(norm(c.arg(0))[1] for _, c in regs if norm(c.arg(0))[0] == "fn")
        byname = {f.name: f for f in funcs}

        def is_fd(t):
            return t[0] == "." and t[2] == fld
        entry = {f.name: ("none" if f.name in handlers else None) for f in funcs}
        exitst = {f.name: None for f in funcs}
        callers = {f.name: [] for f in funcs}
        for f in funcs:
            for c in f.calls():
                if c.callee in byname and c.callee != f.name:
                    callers[c.callee].append((f, c))
        for f in funcs:
            if entry[f.name] is None and (not f.static or not callers[f.name]):
                entry[f.name] = "pending"
        J = lambda a, b: a if a == b else ("pending" if "pending" in (a, b) and None not in (a, b) else (a if b is None else (b if a is None else "pending")))
        solvers = {}
        for _ in range(6):
            changed = False
            for f in funcs:
                if entry[f.name] is None:
                    continue

                def transfer(st, e, f=f):
                    if e.is_assign and e.op == "=":
                        t = norm(e.kid(0))
                        if is_fd(t):
                            return "none"
                        r = e.kid(1).strip() if e.kid(1) is not None else None
                        if t[0] == "v" and r is not None and r.cls == "CallExpr" and r.callee in ("malloc", "calloc"):
                            return "none"       # a fresh request
                        return st
                    if e.cls == "CallExpr" and e.callee:
                        if e.callee == "events_network_cancel" and is_fd(norm(e.arg(0))):
                            return "none"
                        if e.callee == "events_network_register" and is_fd(norm(e.arg(2))):
                            return "pending"
                        if e.callee == "close" and is_fd(norm(e.arg(0))):
                            return "none"
                        if e.callee in byname and e.callee != f.name:
                            x = exitst.get(e.callee)
                            return x if x is not None else st
                    return st

                def refine(st, cond, kind):
                    if kind in (True, False):
                        for op, L, R, Le, Re in cond_atoms(cond, kind):
                            ce = Le.strip() if Le is not None else None
                            if ce is not None and ce.cls == "CallExpr" and ce.callee == "events_network_register" and R == ("c", 0) and op == "!=":
                                return "none"       # the registration failed: nothing was registered
                    return st
                sv = Solver(f, entry[f.name], transfer, refine, lambda a, b: a if a == b else "pending").run()
                solvers[f.name] = sv
                outs = [sv.state_before(r) for r in f.returns()]
                outs = [x for x in outs if x is not None]
                if not f.returns() and sv.IN.get(f.exit) is not None:
                    outs.append(sv.IN.get(f.exit))
                ex = None
                for x in outs:
                    ex = x if ex is None else (ex if ex == x else "pending")
                if ex != exitst[f.name]:
                    exitst[f.name] = ex
                    changed = True
                for c in f.calls():
                    if c.callee in byname and c.callee != f.name and byname[c.callee].static and c.callee not in handlers:
                        st = sv.state_before(c)
                        if st is None:
                            continue
                        new = st if entry[c.callee] is None else (entry[c.callee] if entry[c.callee] == st else "pending")
                        if new != entry[c.callee]:
                            entry[c.callee] = new
                            changed = True
            if not changed:
                break
        for f, c in closes:
            if not is_fd(norm(c.arg(0))):
                continue
            n += 1
            sv = solvers.get(f.name)
            st = sv.state_before(c) if sv is not None else None
            rep.check(st in (None, "none"), "N4", "%s in %s: nothing is registered for the descriptor when it is closed" % (c.text[:30], f.name), c.where,
                      "a path reaches this close with the events_network registration for %s still in place (no events_network_cancel since it was made): "
                      "the event loop keeps a closed descriptor in its tables" % show(norm(c.arg(0))), function=f.name, construct="close-registered")
    return n


def handle_clear_rule(prog, rep, only_files):
    """The handle of an operation that has completed is dropped before anything can cancel through it.  For every request
    field F stored from a starter that is given a completion callback (F = network_connect(.., cb, H), F =
    events_timer_register(cb, ..), ...): inside cb, on every path, F is overwritten before any call to a function of the unit
    that (transitively) reads F, and before cb returns.  (The operation's own cookie is released by its module once cb
    returns; a cancel through the stale handle releases it a second time.)"""
    from .. import own
    acq = own.discover_acquirers(prog)
    n = 0
    for up in only_files:
        u = prog.unit(up)
        funcs = [f for f in u.funcs if f.file == up]
        byname = {f.name: f for f in funcs}
        pairs = []
        for f in funcs:
            for e in f.all_elems():
                if e.is_assign and e.op == "=" and norm(e.kid(0))[0] == ".":
                    r = e.kid(1).strip() if e.kid(1) is not None else None
                    if r is not None and r.cls == "CallExpr" and r.callee in acq and acq[r.callee] and any(x.endswith("_cancel") for x in acq[r.callee]):
                        # the completion callback: the function argument that is followed by the request itself
                        args = [norm(a) if a is not None else ("?",) for a in r.args]
                        for i, a in enumerate(args):
                            if a[0] == "fn" and a[1] in byname and i + 1 < len(args) and args[i + 1][0] == "v":
                                pairs.append((norm(e.kid(0))[2], byname[a[1]], r.callee))
        # which functions read a field (transitively)
        def reads(fld):
            direct = set()
            for f in funcs:
                for e in f.all_elems():
                    if e.cls == "MemberExpr" and e.decl and e.decl.get("name") == fld:
                        direct.add(f.name)
            ch = True
            while ch:
                ch = False
                for f in funcs:
                    if f.name not in direct and any(c.callee in direct for c in f.calls() if c.callee):
                        direct.add(f.name)
                        ch = True
            return direct
        for fld, cb, starter in sorted(set(pairs), key=lambda x: (x[0], x[1].name)):
            n += 1
            users = reads(fld) - {cb.name}

            def tr(st, e, fld=fld):
                if e.is_assign and e.op == "=" and norm(e.kid(0))[0] == "." and norm(e.kid(0))[2] == fld:
                    return True
                if e.cls == "CallExpr" and e.callee == "free" and e.arg(0) is not None and norm(e.arg(0))[0] == "v":
                    return True       # the request itself is released: the handle goes with it
                return st
            sv = Solver(cb, False, tr, None, lambda a, b: a and b).run()
            bad = None
            for c in cb.calls():
                if c.callee in users and sv.state_before(c) is False:
                    bad = (c, "%s() may reach a cancel through it" % c.callee)
                    break
            if bad is None:
                for r in cb.returns():
                    if sv.state_before(r) is False:
                        bad = (r, "the callback returns")
                        break
            rep.check(bad is None, "SLOT", "%s: %s (from %s) is dropped before anything can cancel through it" % (cb.name, fld, starter), (bad[0].where if bad else cb.loc),
                      "the operation that stored its handle in %s has completed, but on some path the field still holds it when %s" % (fld, bad[1]) if bad else "",
                      function=cb.name, construct="stale-handle:" + fld)
    return n


def kept_params(f):
    """Names of f's pointer parameters whose value is stored into an object f has just obtained from a call (malloc, a pool, a
    constructor); None when f builds no such object."""
    u = f.unit
    fresh = set()
    for e in f.all_elems():
        if e.is_assign and e.op == "=" and norm(e.kid(0))[0] == "v":
            r = e.kid(1).strip() if e.kid(1) is not None else None
            while r is not None and r.cls == "BinaryOperator" and r.op == "=":
                r = r.kid(1).strip()
            if r is not None and r.cls == "CallExpr" and (u.types.get(e.kid(0).ty) or {}).get("kind") == "ptr":
                fresh.add(norm(e.kid(0)))
    if not fresh:
        return None
    def data_ptr(ty):
        t = u.types.get(ty) or {}
        return t.get("kind") == "ptr" and (u.types.get(t.get("pointee", "")) or {}).get("kind") not in ("func", "function") and "(" not in str(t.get("pointee", ""))
    # pointers to data only: a callback (function pointer) is not memory that could fail to outlive the call
    params = {("v", p["name"], p["id"]): p["name"] for p in f.params if data_ptr(p["ty"])}
    kept = set()
    built = False
    for e in f.all_elems():
        if e.is_assign and e.op == "=":
            lhs = norm(e.kid(0))
            r = root_var(lhs)
            if lhs[0] != "." or r is None or r not in fresh:
                continue
            built = True
            v = norm(e.kid(1))
            if v in params and v not in fresh:
                kept.add(params[v])
    return kept if built else None


def borrow_ref_rule(prog, rep, only_files):
    """Which of the caller's pointers an object may keep after the call that built it is part of the interface (the header says
    what must outlive the call; everything else may be a local of the caller's).  For every constructor-like function of the given
    units, the pointer parameters it stores into the object it builds are among those it stores on the reference tree
    (sa/borrows.json).  A newly kept pointer -- say a timeout the constructor used to copy -- is read later from memory the
    caller may have reused."""
    import json, os
    ref = json.load(open(os.path.join(os.path.dirname(os.path.dirname(os.path.abspath(__file__))), "borrows.json")))
    n = 0
    for up in only_files:
        if up not in prog.units:
            continue
        for f in prog.unit(up).funcs:
            if f.file != up or f.name not in (ref.get(up) or {}):
                continue
            k = kept_params(f)
            if k is None:
                continue
            n += 1
            extra = sorted(k - set(ref[up][f.name]))
            rep.check(not extra, "BORROW", "%s keeps only the caller's pointers its interface lets it keep (%s)" % (f.name, ", ".join(ref[up][f.name]) or "none"), f.loc,
                      "%s is now stored in the object being built; on the reference tree it was copied or used within the call, so callers may pass "
                      "memory that does not outlive the call" % ", ".join(extra), function=f.name, construct="borrow:" + ",".join(extra))
    return n


def n5(prog, rep, up, L):
    u = prog.unit(up)
    sysc = SYSCALL[up]
    f = [u.func(h) for h in L.handlers if any(True for _ in u.func(h).calls(sysc))][0]
    sc = list(f.calls(sysc))[0]

    def fieldpath(n, name):
        return n[0] == "." and n[2] == name

    def resolve_local(n):
        # a local assigned exactly once: substitute its value
        if n[0] == "v":
            defs = [e for e in f.all_elems() if e.is_assign and e.op == "=" and norm(e.kid(0)) == n]
            if len(defs) == 1:
                return norm(defs[0].kid(1))
        return n
    bufarg = strip_ids(norm(sc.arg(1)))
    lenarg = strip_ids(resolve_local(norm(sc.arg(2))))
    C = ("*", ("v", "_"))
    want_buf = ir.P((".", C, "buf"), (".", C, "bufpos"))
    want_len = ("-", (".", C, "buflen"), (".", C, "bufpos"))
    rep.check(bufarg == want_buf, "N5", "%s buffer argument" % sysc, sc.where,
              "the transfer must start at buf + bufpos; found %s" % show(bufarg), function=f.name, construct="buf-arg")
    rep.check(lenarg == want_len, "N5", "%s length argument" % sysc, sc.where,
              "the transfer length must be buflen - bufpos; found %s" % show(lenarg), function=f.name, construct="len-arg")
    # result variable
    res = None
    for e in f.all_elems():
        if e.is_assign and e.op == "=" and e.kid(1) is not None and e.kid(1).strip() is sc:
            res = norm(e.kid(0))
    upd = [e for e in f.all_elems() if (e.is_assign or e.is_incdec) and fieldpath(norm(e.kid(0)), "bufpos")]
    ok = res is not None and len(upd) == 1 and upd[0].op == "+=" and norm(upd[0].kid(1)) == res
    rep.check(ok, "N5", "position advances by the result of %s" % sysc, (upd[0].where if upd else f.loc),
              "bufpos must be updated exactly once, by += the value %s() returned" % sysc, function=f.name, construct="bufpos-update")
    # other fields of the request are not modified by the handler
    others = [e for e in f.all_elems() if (e.is_assign or e.is_incdec) and norm(e.kid(0))[0] == "." and norm(e.kid(0))[2] in ("buf", "buflen", "minlen", "fd")]
    rep.check(not others, "N5", "request parameters are not modified by the handler", f.loc,
              "buf/buflen/minlen/fd are set once by the constructor", function=f.name, construct="params-const")
    # the success completion reports bufpos, and is reached only when bufpos >= minlen
    comp = [c for c in f.calls() if c.callee in L.handlers and c.arg(1) is not None and fieldpath(strip_ids(norm(c.arg(1))), "bufpos")]
    okc = bool(comp)
    guard = False
    for b in f.blocks.values():
        if b.cond is None or len(b.succs) != 2:
            continue
        for op, Lh, R, _, _ in cond_atoms(b.cond, True):
            if op == "<" and fieldpath(strip_ids(Lh), "bufpos") and fieldpath(strip_ids(R), "minlen"):
                # true edge goes to the re-arm, false edge to completion
                if comp and b.succs[1] is not None and (comp[0].block.id == b.succs[1] or comp[0].block.id in f.reach_from(b.id)) \
                        and b.id in f.dominators().get(comp[0].block.id, ()):
                    guard = True
    if comp and not guard:
        # the same test written from the other side (`if (bufpos >= minlen) complete`): what matters is what controls the completion
        for cond, truth in f.edge_conds(comp[0]):
            for op, Lh, R, _, _ in cond_atoms(cond, truth):
                if (op == ">=" and fieldpath(strip_ids(Lh), "bufpos") and fieldpath(strip_ids(R), "minlen")) or \
                        (op == "<=" and fieldpath(strip_ids(Lh), "minlen") and fieldpath(strip_ids(R), "bufpos")):
                    guard = True
    rep.check(okc and guard, "N5", "completion reports bufpos once minlen is reached", f.loc,
              "the success completion must pass bufpos and be dominated by the false edge of bufpos < minlen",
              function=f.name, construct="completion")



def n6_relational(prog, rep, up, L):
    """The transfer window as values, decided relationally (sa/poly.py).  Pending-request invariant I: bufpos < buflen and
    minlen <= buflen (the latter is the caller's side of the contract; netbuf_read's launches prove it as F4-fits).
    Assumed when the handler is entered, shown to hold when the constructor registers it and whenever the handler re-arms,
    and under it:
      window    the kernel call gets buf + bufpos and buflen - bufpos >= 1 bytes
      progress  after a positive answer n <= length the position is the old one plus n and stays <= buflen
      report    the success completion reports the position, with max(minlen, 1) <= it <= buflen
    so every byte the kernel transferred is counted once and nothing outside [buf, buf + buflen) is touched."""
    from .. import poly
    from ..poly import Lin
    u = prog.unit(up)
    sysc = SYSCALL[up]
    f = [u.func(h) for h in L.handlers if any(True for _ in u.func(h).calls(sysc))][0]
    sc = list(f.calls(sysc))[0]
    decl = [e for e in f.all_elems() if e.cls == "DeclStmt" and e.decls and e.decls[0].get("ty", "").endswith("_cookie *")]
    if not decl:
        rep.defer_broken("N6: %s has no local request pointer" % f.name)
        return
    Cv = ("v", decl[0].decls[0]["name"], decl[0].decls[0]["id"])
    fl = lambda n: Lin.var((".", ("*", Cv), n))
    P0 = Lin.var(("$entry", "bufpos"))
    inv = [("<", fl("bufpos"), fl("buflen")), ("<=", fl("minlen"), fl("buflen"))]

    def contract(A, call, st, cs):
        r = Lin.var(("$ret", A.f.name, call.pos))
        n = A.lin(call.arg(2), st)
        out = list(cs) + poly.cons(">=", r, Lin.const(-1))
        if n is not None:
            out += poly.cons("<=", r, n)
        return out
    quiet = {sysc, "events_network_register", "signal", "warnp", "warn0", "__errno_location", None} | set(L.handlers)
    A = poly.Analysis(f, assume=inv + [("==", fl("bufpos"), P0)], quiet=quiet, post={sysc: contract},
                      unsigned_terms={(".", ("*", Cv), n) for n in ("bufpos", "buflen", "minlen")} | {("$entry", "bufpos")}).run()
    st = A.state_before(sc)
    tgt, ln = A.lin(sc.arg(1), st), A.lin(sc.arg(2), st)
    okw = tgt is not None and ln is not None and A.holds(st, "==", tgt, fl("buf") + fl("bufpos")) and A.holds(st, "==", ln, fl("buflen") - fl("bufpos")) and A.holds(st, ">=", ln, Lin.const(1))
    rep.check(okw, "N6-window", "%s gets buf + bufpos and buflen - bufpos >= 1 bytes" % sysc, sc.where,
              "target %s, length %s" % (tgt, ln), function=f.name, construct="window")
    # completions: handler-like callees given the request and a byte count
    nsucc = 0
    for c in f.calls():
        if c.callee in L.handlers and c.arg(1) is not None and norm(c.arg(1)) not in (("c", 0), ("c", -1)):
            nsucc += 1
            s2 = A.state_before(c)
            v = A.lin(c.arg(1), s2)
            ret = Lin.var(("$ret", f.name, sc.pos))
            ok = v is not None and A.holds(s2, "==", v, P0 + ret) and A.holds(s2, ">=", v, fl("minlen")) and A.holds(s2, "<=", v, fl("buflen")) and (sysc != "recv" or A.holds(s2, ">=", v, Lin.const(1))) \
                and A.holds(s2, "==", v, fl("bufpos"))
            rep.check(ok, "N6-report", "the success completion reports the position: old position + the kernel's answer, within [max(minlen, 1), buflen]", c.where,
                      "reported %s" % v, function=f.name, construct="report")
    if nsucc != 1:
        rep.bad("N6-report", "%s success completion" % f.name, f.loc, "expected exactly one completion carrying a byte count, found %d" % nsucc, function=f.name, construct="report-count")
    # re-arm keeps the invariant
    for c in f.calls("events_network_register"):
        s2 = A.state_before(c)
        rep.check(all(A.holds(s2, op, a, b) for op, a, b in inv), "N6-inv", "the pending-request invariant holds when %s re-arms" % f.name, c.where,
                  "bufpos < buflen and minlen <= buflen must hold at the re-registration", function=f.name, construct="rearm-inv")
    # the constructor establishes it (minlen <= buflen is the caller's obligation: assumed on its parameters)
    ctor = u.func(UNITS[up][2])
    pn = {p["name"]: ("v", p["name"], p["id"]) for p in ctor.params}
    mn = [n for n in pn if n.startswith("min")]
    if "buflen" not in pn or not mn:
        rep.defer_broken("N6: constructor parameters buflen/min* not found in %s" % ctor.name)
        return
    # caller's side of the contract: minlen <= buflen, buflen != 0 (the constructor asserts the latter; with NDEBUG it is assumed)
    Ac = poly.Analysis(ctor, assume=[("<=", Lin.var(pn[mn[0]]), Lin.var(pn["buflen"])), (">=", Lin.var(pn["buflen"]), Lin.const(1))], quiet={"events_network_register", "mpool_network_read_cookie_malloc", "mpool_network_write_cookie_malloc", None},
                       unsigned_terms={pn["buflen"], pn[mn[0]]}).run()
    for c in ctor.calls("events_network_register"):
        s2 = Ac.state_before(c)
        Cc = norm(c.arg(1))
        flc = lambda n: Lin.var((".", ("*", Cc), n))
        ok = Ac.holds(s2, "<", flc("bufpos"), flc("buflen")) and Ac.holds(s2, "<=", flc("minlen"), flc("buflen")) and Ac.holds(s2, "==", flc("bufpos"), Lin.const(0))
        rep.check(ok, "N6-inv", "%s registers the request with position 0 < buflen" % ctor.name, c.where, "", function=ctor.name, construct="ctor-inv")


def run(tier):
    rep = report.Report("C06", tier,
        "Decided on every path of every handler of network_read/write/accept/connect: exactly one disposition per path "
        "(one upstream callback + release, or continuation, or successful re-arm + return 0, or fatal release) and no use of the "
        "request after release (LIN); cancel routines cancel every registration kind that can be pending and free the cookie last "
        "(CANCELS, SLOT); send() has MSG_NOSIGNAL (N1); the errno set routed to the re-arm is exactly the would-block set and "
        "recv()==0 is end-of-stream (N2); the re-arm repeats the initial registration (N3); connect closes, advances and retries "
        "through one helper and schedules one completion on exhaustion (N4); the kernel call's window is buf+bufpos/buflen-bufpos, "
        "bufpos advances by exactly the result, completion reports bufpos after bufpos>=minlen (N5); the same as values, proved "
        "relationally under the pending-request invariant bufpos < buflen, minlen <= buflen: the kernel call gets buf+bufpos and "
        "buflen-bufpos >= 1 bytes, the count reported is old position + answer within [max(minlen,1), buflen], the invariant holds at "
        "the constructor's registration and at every re-arm (N6). "
        "Not decided: kernel behaviour, arithmetic facts beyond these shapes (e.g. that bufpos never exceeds buflen follows from "
        "N5 plus recv/send's contract, which is trusted).",
        trusted=["recv/send/accept/connect contracts", "REARM/CANCEL tables in sa/lin.py"])
    configs = [cdb.HOST]
    if tier == "thorough":
        configs += [cdb.Config("host-ndebug", extra=["-DNDEBUG"]), cdb.Config("posixfail-nosignal", extra=["-DPOSIXFAIL_MSG_NOSIGNAL"])]
    for cfg in configs:
        prog = ir.Program(list(UNITS), cfg)
        rep.add_stats(prog)
        for up, (rec, rel, ctor, cancel) in UNITS.items():
            L, kinds = lin_rule(prog, rep, up, rec, rel)
            cancel_rule(prog, rep, up, rec, ctor, cancel, L, kinds)
            slot_empty_rule(prog, rep, up, rec, L)
            if up in SYSCALL:
                n2_n3(prog, rep, up, L)
            if up in ("network/network_read.c", "network/network_write.c"):
                n5(prog, rep, up, L)
                n6_relational(prog, rep, up, L)
        n1(prog, rep)
        n4(prog, rep)
        if sum(sync_callback_rule(prog, rep, up_, (UNITS[up_][2],)) for up_ in UNITS) < 4:
            rep.defer_broken("N7: fewer than 4 request constructors found")
        if live_handle_rule(prog, rep, list(UNITS)) < 1:
            rep.defer_broken("SLOT: no live-handle reset found in the request units")
        if failed_register_rule(prog, rep) < 3:
            rep.defer_broken("N3: fewer than 3 tested registrations found in the request units")
        if connect_routing_rule(prog, rep) < 4:
            rep.defer_broken("N4: fewer than 4 routing obligations found in network_connect.c")
        if owned_fd_rule(prog, rep) < 4:
            rep.defer_broken("N4: fewer than 4 releases of a request that owns a descriptor found")
        if closed_fd_rule(prog, rep) < 1:
            rep.defer_broken("N4: no close() of a descriptor kept in a request found")
        if borrow_ref_rule(prog, rep, list(UNITS)) < 4:
            rep.defer_broken("BORROW: fewer than 4 request constructors found in the network units")
        if handle_clear_rule(prog, rep, ["network/network_connect.c"]) < 2:
            rep.defer_broken("SLOT: fewer than 2 (handle field, completion callback) pairs found in network_connect.c")
        if close_registered_rule(prog, rep) < 3:
            rep.defer_broken("N4: fewer than 3 close() calls of a registered descriptor found")
        # the registration itself (events_network.c is among this property's anchors): operation / slot / poll-bit mapping, bits of
        # the mask only added by a registration and only cleared by clearbit (rules shared with C04)
        from . import c04
        enp = ir.Program(["events/events_network.c"], cfg)
        c04.o4_o5(enp, rep)
        c04.o7_slotrange(enp, rep)
        # a failed registration leaves nothing registered (shared with C14): C06's requests register in events_network.c
        from . import c14
        c14.register_atomic_rule(ir.Program(["events/events_network.c"], cfg), rep)
        # the request objects themselves: tested before use, released on every failure path, failure reported ("ends with exactly
        # one callback ... or the call reports failure"): the rules of C14 on the four request units, acquirers discovered library-wide
        wprog = ir.Program(None, cfg)
        c14.leak_rules(wprog, rep, only_files=list(UNITS))
        c14.destroy_then_fail_rule(wprog, rep, only_files=["events/events_network.c"])     # a refused registration has not disturbed an accepted one
        c14.realloc_idiom_rule(wprog, rep, ("events/events_network.c",))
        c14.reported_rule(wprog, rep, only_files=list(UNITS))
    n = len(configs)
    rep.require_min("LIN", 10 * n)
    rep.require_min("CANCELS", 8 * n)
    rep.require_min("N2", 6 * n)
    rep.require_min("N3", 3 * n)
    rep.require_min("N5", 10 * n)
    return rep
