"""C11 — HMAC_DRBG(SHA-256) over OS entropy, reseeded on schedule.

R1  fail closed: a failing entropy_read / instantiate / reseed reaches
    `return -1` with no call to update/generate and no store to the state;
    `instantiated = 1` only on instantiate's success edge; every generate is
    preceded by the instantiation test and the reseed test; update/generate
    are called from nowhere else
R2  spec constants: seed lengths 48 / 32 equal the buffer sizes and the lengths
    mixed in; Key/V fill bytes 0x00/0x01 over 32 bytes; separators 0x00/0x01 at
    offset 32; HMAC key length 32; reseed interval: counter starts at 1, +1 per
    generate, reseed when > 256; at most 65536 bytes per generate
R3  call-sequence templates: update and generate equal SP 800-90A's
    HMAC_DRBG_Update / Generate as sequences of HMAC operations with the
    provenance of key, data and destination
R4  entropy_read_fill: read() == -1 and == 0 both fail; pointer and remaining
    length advance by the same amount
"""
from .. import cdb, ir, report
from ..ir import norm, show, root_var, subterms
from ..dataflow import Solver, cond_atoms

UNIT = "crypto/crypto_entropy.c"


def sh(n):
    return show(n).replace(" ", "")


def seq(f):
    """Source-ordered list of (callee, [shown args]) for calls and of ('store', lhs, rhs) for stores, ignoring asserts."""
    out = []
    for e in f.all_elems():
        if "assert" in e.macro:
            continue
        if e.cls == "CallExpr" and e.callee and not e.callee.startswith("__"):
            out.append((e.line, e.i, (e.callee,) + tuple(sh(norm(a)) for a in e.args)))
        elif ir.step(e):
            st = ir.step(e)
            out.append((e.line, e.i, ("store" + st[0], sh(st[1]), sh(st[2]))))
        elif e.is_assign:
            out.append((e.line, e.i, ("store" + (e.op if e.op != "=" else ""), sh(norm(e.kid(0))), sh(norm(e.kid(1))))))
    out.sort(key=lambda x: (x[0], x[1]))
    return [x[2] for x in out]


def r1(prog, rep):
    u = prog.unit(UNIT)
    ce = u.func("crypto_entropy_read")
    ins = u.func("instantiate")
    rs = u.func("reseed")
    if not (ce and ins and rs):
        raise cdb.AnalysisBroken("anchor missing in crypto_entropy.c")
    # callers
    callers = {"update": set(), "generate": set(), "instantiate": set(), "reseed": set()}
    for f in u.funcs:
        if f.file != UNIT:
            continue
        for c in f.calls(tuple(callers)):
            callers[c.callee].add(f.name)
    rep.check(callers["generate"] == {"crypto_entropy_read"}, "R1-failclosed", "generate is called only from crypto_entropy_read", u.path, "%s" % sorted(callers["generate"]), function="generate", construct="callers")
    rep.check(callers["update"] <= {"instantiate", "reseed", "generate", "update_from_rdrand"}, "R1-failclosed", "update is called only by the DRBG's own steps", u.path, "%s" % sorted(callers["update"]), function="update", construct="callers")
    rep.check(callers["instantiate"] == {"crypto_entropy_read"} and callers["reseed"] == {"crypto_entropy_read"}, "R1-failclosed", "instantiate/reseed are called only from crypto_entropy_read", u.path, "", function="crypto_entropy_read", construct="callers2")
    # in instantiate / reseed: entropy_read failure returns -1 before anything touches the state
    for f in (ins, rs):
        er = list(f.calls("entropy_read"))
        ok = len(er) == 1
        if ok:
            c = er[0]
            state_writes = [e for e in f.all_elems() if (e.is_assign and root_var(norm(e.kid(0))) is not None and root_var(norm(e.kid(0)))[1] == "drbg")
                            or (e.cls == "CallExpr" and e.callee in ("update", "memset", "update_from_rdrand"))]
            ok = all(f.dominates(c, w) for w in state_writes) and bool(state_writes)
            # the failure edge returns -1 directly
            fail_ret = False
            for b in f.blocks.values():
                if b.cond is None or len(b.succs) != 2:
                    continue
                for op, L, R, Le, Re in cond_atoms(b.cond, True):
                    if (Le.strip() if Le is not None else None) is c and op == "!=" and R == ("c", 0) and b.succs[0] is not None:
                        tb = f.blocks[b.succs[0]]
                        fail_ret = any(e.cls == "ReturnStmt" and norm(e.kid(0)) == ("c", -1) for e in tb.elems) and not any(e.cls == "CallExpr" for e in tb.elems)
            # every state write is on the success edge
            succ = all(any(op == "==" and L[0] == "call" and L[1] == "entropy_read" and R == ("c", 0) for cond, truth in f.edge_conds(w) for op, L, R, _, _ in cond_atoms(cond, truth)) for w in state_writes)
            ok = ok and fail_ret and succ
        rep.check(ok, "R1-failclosed", "%s: entropy failure returns -1 before the state is touched" % f.name, f.loc, "", function=f.name, construct="entropy-fail")
        rets = sorted(norm(r.kid(0))[1] for r in f.returns())
        rep.check(rets == [-1, 0], "R1-failclosed", "%s returns 0 or -1" % f.name, f.loc, "%s" % rets, function=f.name, construct="rets")
    # crypto_entropy_read: typestate
    def transfer(st, e):
        inst, fresh = st
        if e.cls == "CallExpr" and e.callee == "generate":
            return (inst, False)
        return st

    def refine(st, cond, kind):
        inst, fresh = st
        if kind in (True, False):
            for op, L, R, _, _ in cond_atoms(cond, kind):
                if L[0] == "v" and L[1] == "instantiated" and R == ("c", 0) and op == "!=":
                    inst = True
                if L[0] == "call" and L[1] == "instantiate" and R == ("c", 0) and op == "==":
                    inst = True
                if sh(L) == "drbg.reseed_counter" and R == ("c", 256) and op == "<=":
                    fresh = True
                if L[0] == "call" and L[1] == "reseed" and R == ("c", 0) and op == "==":
                    fresh = True
        return (inst, fresh)
    s = Solver(ce, (False, False), transfer, refine, lambda a, b: (a[0] and b[0], a[1] and b[1])).run()

    def visit(e, st):
        if e.cls == "CallExpr" and e.callee == "generate":
            rep.check(st[0] and st[1], "R1-failclosed", "generate() reached only instantiated (%s) and within the reseed interval (%s)" % st, e.where,
                      "output must never come from an unseeded state or from a state past the reseed interval", function=ce.name, construct="generate-guard")
    s.visit(visit)
    # failure edges of instantiate()/reseed() return -1 without generating
    for name in ("instantiate", "reseed"):
        for c in ce.calls(name):
            ok = False
            for b in ce.blocks.values():
                if b.cond is None or len(b.succs) != 2:
                    continue
                for op, L, R, Le, Re in cond_atoms(b.cond, True):
                    if (Le.strip() if Le is not None else None) is c and op == "!=" and R == ("c", 0) and b.succs[0] is not None:
                        tb = ce.blocks[b.succs[0]]
                        ok = any(e.cls == "ReturnStmt" and norm(e.kid(0)) == ("c", -1) for e in tb.elems) and not any(e.cls == "CallExpr" for e in tb.elems)
            rep.check(ok, "R1-failclosed", "%s() failure makes crypto_entropy_read fail at once" % name, c.where, "", function=ce.name, construct="fail:" + name)
    st1 = [e for e in ce.all_elems() if e.is_assign and norm(e.kid(0))[0] == "v" and norm(e.kid(0))[1] == "instantiated"]
    ok = len(st1) == 1 and norm(st1[0].kid(1)) == ("c", 1) and any(op == "==" and L[0] == "call" and L[1] == "instantiate" and R == ("c", 0) for cond, truth in ce.edge_conds(st1[0]) for op, L, R, _, _ in cond_atoms(cond, truth))
    others = [e for f in u.funcs if f.file == UNIT and f.name != "crypto_entropy_read" for e in f.all_elems() if e.is_assign and norm(e.kid(0))[0] == "v" and norm(e.kid(0))[1] == "instantiated"]
    rep.check(ok and not others, "R1-failclosed", "instantiated = 1 only on instantiate's success edge", ce.loc, "", function=ce.name, construct="instantiated")
    # chunking and advance
    seqs = seq(ce)
    need = [("storebytes", None)]
    btp = [e for e in ce.all_elems() if e.is_assign and norm(e.kid(0))[0] == "v" and norm(e.kid(0))[1] == "bytes_to_provide"]
    vals = sorted(sh(norm(e.kid(1))) for e in btp)
    g = list(ce.calls("generate"))
    adv = [(sh(norm(e.kid(0))), e.op, sh(norm(e.kid(1)))) for e in ce.all_elems() if e.is_assign and e.op in ("+=", "-=")]
    ok = vals == ["65536", "buflen"] and len(g) == 1 and [sh(norm(a)) for a in g[0].args] == ["buf", "bytes_to_provide"] and sorted(adv) == [("buf", "+=", "bytes_to_provide"), ("buflen", "-=", "bytes_to_provide")]
    if ok:
        cap = [e for e in btp if sh(norm(e.kid(1))) == "65536"][0]
        ok = any(op == ">" and sh(L) == "buflen" and R == ("c", 65536) for cond, truth in ce.edge_conds(cap) for op, L, R, _, _ in cond_atoms(cond, truth))
    rep.check(ok, "R2-constants", "requests are served in chunks of min(buflen, 65536), advancing buffer and count together", ce.loc, "%s %s" % (vals, adv), function=ce.name, construct="chunking")


def r2_amounts(prog, rep):
    """How much OS entropy goes into the state, whatever the functions look like inside: the lengths asked of entropy_read on
    the way through instantiate() (following the unit's own calls) are {48} -- entropy input plus nonce -- and through
    reseed() {32}.  Needs no variable names."""
    u = prog.unit(UNIT)
    byname = {f.name: f for f in u.funcs if f.file == UNIT}

    def amounts(f, seen):
        out = set()
        if f.name in seen:
            return out
        seen.add(f.name)
        for c in f.calls():
            if c.callee == "entropy_read":
                n = norm(c.arg(1))
                out.add(n[1] if n[0] == "c" else show(n))
            elif c.callee in byname:
                out |= amounts(byname[c.callee], seen)
        return out
    for fn, want in (("instantiate", {48}), ("reseed", {32})):
        f = byname.get(fn)
        if f is None:
            raise cdb.AnalysisBroken("anchor missing: %s" % fn)
        got = amounts(f, set())
        rep.check(got == want, "R2-amounts", "%s takes %s bytes from the OS entropy source" % (fn, sorted(want)), f.loc, "lengths asked for on the way through %s: %s" % (fn, sorted(got, key=str)),
                  function=fn, construct="entropy-amount")


def r3_generate(prog, rep):
    """generate(buf, buflen) = HMAC_DRBG_Generate: h = ceil(buflen / 32) steps V = HMAC(Key, V), the k-th followed by a copy of
    min(32, buflen - 32(k-1)) bytes of V to buf + 32(k-1); then Update(empty) once, after the last step, and the counter + 1.
    Relational (sa/poly.py) with a ghost $h counting the HMAC steps: at every copy from V into buf the offset is 32($h - 1), the
    length is between 0 and 32, stays inside buflen, and is 32 unless it ends the buffer; at the Update after the loop
    buflen <= 32 $h <= buflen + 31.  (An extra step with nothing to copy leaves this call's bytes right and the state handed to
    the next call wrong.)"""
    from .. import poly
    from ..poly import Lin
    u = prog.unit(UNIT)
    ge = u.func("generate")
    if ge is None:
        raise cdb.AnalysisBroken("anchor missing: generate")
    BUF = ("v", ge.params[0]["name"], ge.params[0]["id"])
    LEN = ("v", ge.params[1]["name"], ge.params[1]["id"])
    Hh = Lin.var(("$h",))

    hm = [c for c in ge.calls("HMAC_SHA256_Buf")]
    okh = len(hm) == 1 and [sh(norm(hm[0].arg(i))) for i in range(5)] == ["drbg.Key", "32", "drbg.V", "32", "drbg.V"] and hm[0].block.id in ge.reach_from(hm[0].block.id)
    rep.check(okh, "R3-template", "generate: one step V = HMAC(Key, V), inside the loop", (hm[0].where if hm else ge.loc), "%d HMAC_SHA256_Buf calls" % len(hm), function="generate", construct="generate-step")
    upd = list(ge.calls("update"))
    oku = len(upd) == 1 and norm(upd[0].arg(1)) == ("c", 0) and upd[0].block.id not in ge.reach_from(upd[0].block.id) and bool(hm) and ge.dominates(upd[0], upd[0]) is not None
    ctr = [e for e in ge.all_elems() if ir.step(e) and sh(ir.step(e)[1]) == "drbg.reseed_counter"]
    oku = oku and len(ctr) == 1 and ir.step(ctr[0])[0] == "+=" and ir.step(ctr[0])[2] == ("c", 1) and ctr[0].block.id not in ge.reach_from(ctr[0].block.id)
    rep.check(oku, "R3-template", "generate: Update(empty) once after the loop, then the reseed counter + 1", (upd[0].where if upd else ge.loc), "", function="generate", construct="generate-tail")
    if not (okh and oku):
        return
    # the buffer pointer and the length as they were on entry (a loop may walk the one and count the other down)
    B0, L0 = Lin.var(("$b0",)), Lin.var(("$l0",))
    A = poly.Analysis(ge, assume=[("==", Hh, Lin.const(0)), ("==", B0, Lin.var(BUF)), ("==", L0, Lin.var(LEN)), (">=", L0, Lin.const(0))],
                      quiet={"HMAC_SHA256_Buf", "memcpy", "update", "__assert_fail"}, unsigned_terms={LEN}, post={"HMAC_SHA256_Buf": lambda A_, call, st, cs: A_.bump(cs, ("$h",), 1)})
    A.run()
    copies = [c for c in ge.calls("memcpy") if sh(norm(c.arg(1))) == "drbg.V"]
    rep.check(bool(copies), "R3-template", "generate: output is copied from V", ge.loc, "no memcpy(.., drbg.V, ..)", function="generate", construct="generate-copy")
    for c in copies:
        st = A.state_before(c)
        if st is None:
            continue
        a0 = A.lin(c.arg(0), st)
        off = (a0 - B0) if a0 is not None else None
        n = A.lin(c.arg(2), st)
        ok = off is not None and n is not None
        why = "destination or length not followed"
        if ok:
            ok = A.holds(st, "==", off, Hh.scale(32) - Lin.const(32))
            why = "the copy after step k does not go to buf + 32 (k - 1)"
        if ok:
            ok = A.holds(st, ">=", n, Lin.const(0)) and A.holds(st, "<=", n, Lin.const(32)) and A.holds(st, "<=", off + n, L0)
            why = "the length copied is not within 0..32 and the rest of the buffer"
        if ok:
            for P in (st if poly._is_disj(st) else [st]):
                if not (A._entailsP(P, poly.cons("==", n, Lin.const(32))) or A._entailsP(P, poly.cons("==", off + n, L0))):
                    ok = False
                    why = "a copy of fewer than 32 bytes that does not end the buffer"
        rep.check(ok, "R3-template", "generate: `%s` copies min(32, what remains) to buf + 32 (steps - 1)" % c.text[:44], c.where, why, function="generate", construct="generate-copy")
    st = A.state_before(upd[0])
    ok = st is not None and A.holds(st, ">=", Hh.scale(32), L0) and A.holds(st, "<=", Hh.scale(32), L0 + Lin.const(31))
    rep.check(ok, "R3-template", "generate: exactly ceil(buflen / 32) steps are made before the state is updated", upd[0].where,
              "buflen <= 32 * steps <= buflen + 31 is not established here: a step too many or too few changes the state the next call starts from "
              "(or leaves the tail of the buffer unwritten)", function="generate", construct="generate-count")


def r2_r3(prog, rep):
    u = prog.unit(UNIT)
    ins, rs, up, ge = u.func("instantiate"), u.func("reseed"), u.func("update"), u.func("generate")
    s = seq(ins)
    want = [("entropy_read", "seed_material", "48"), ("memset", "drbg.Key", "0", "32"), ("memset", "drbg.V", "1", "32"), ("store", "drbg.reseed_counter", "1"), ("update", "seed_material", "48")]
    core = [x for x in s if x[0] in ("entropy_read", "memset", "update", "store")]
    rep.check(core == want, "R3-template", "instantiate: 48 bytes of entropy; Key = 0x00*32, V = 0x01*32, counter = 1; Update(seed)", ins.loc, "%s" % core, function="instantiate", construct="instantiate")
    sm = [d for e in ins.all_elems() if e.cls == "DeclStmt" for d in (e.decls or []) if d["name"] == "seed_material"]
    rep.check(bool(sm) and (u.types.get(sm[0]["ty"]) or {}).get("size") == 48, "R2-constants", "instantiate's seed buffer is 48 bytes", ins.loc, "", function="instantiate", construct="seedbuf")
    s = seq(rs)
    core = [x for x in s if x[0] in ("entropy_read", "memset", "update", "store")]
    want = [("entropy_read", "seed_material", "32"), ("update", "seed_material", "32"), ("store", "drbg.reseed_counter", "1")]
    rep.check(core == want, "R3-template", "reseed: 32 bytes of fresh entropy mixed in, counter back to 1", rs.loc, "%s" % core, function="reseed", construct="reseed")
    sm = [d for e in rs.all_elems() if e.cls == "DeclStmt" for d in (e.decls or []) if d["name"] == "seed_material"]
    rep.check(bool(sm) and (u.types.get(sm[0]["ty"]) or {}).get("size") == 32, "R2-constants", "reseed's seed buffer is 32 bytes", rs.loc, "", function="reseed", construct="seedbuf")
    # update
    s = [x for x in seq(up) if x[0] != "insecure_memzero"]
    stage = lambda sep: [("store", "Vx[32]", sep), ("HMAC_SHA256_Init", "&ctx", "K", "32"), ("HMAC_SHA256_Update", "&ctx", "Vx", "33"),
                         ("HMAC_SHA256_Update", "&ctx", "data", "datalen"), ("HMAC_SHA256_Final", "K", "&ctx"), ("HMAC_SHA256_Buf", "K", "32", "Vx", "32", "Vx")]
    want = [("memcpy", "K", "drbg.Key", "32"), ("memcpy", "Vx", "drbg.V", "32")] + stage("0") + stage("1") + [("memcpy", "drbg.Key", "K", "32"), ("memcpy", "drbg.V", "Vx", "32")]
    rep.check(s == want, "R3-template", "update = HMAC_DRBG_Update: K=HMAC(K,V|0x00|data); V=HMAC(K,V); [data: K=HMAC(K,V|0x01|data); V=HMAC(K,V)]", up.loc,
              "first difference at step %s" % next((i for i, (a, b) in enumerate(zip(s, want)) if a != b), min(len(s), len(want))), function="update", construct="update")
    # the second stage runs exactly when data was provided
    st2 = [e for e in up.all_elems() if e.is_assign and sh(norm(e.kid(0))) == "Vx[32]" and norm(e.kid(1)) == ("c", 1)]
    ok = len(st2) == 1 and any(op == "!=" and sh(L) == "datalen" and R == ("c", 0) for cond, truth in up.edge_conds(st2[0]) for op, L, R, _, _ in cond_atoms(cond, truth))
    wb = [c for c in up.calls("memcpy") if sh(norm(c.arg(0))) in ("drbg.Key", "drbg.V")]
    ok = ok and all(not any(True for cond, truth in up.edge_conds(c)) for c in wb)
    rep.check(ok, "R3-template", "update: second stage iff datalen != 0; write-back unconditional", up.loc, "", function="update", construct="update-branch")
    vx = [d for e in up.all_elems() if e.cls == "DeclStmt" for d in (e.decls or []) if d["name"] in ("Vx", "K")]
    rep.check(sorted((d["name"], (u.types.get(d["ty"]) or {}).get("size")) for d in vx) == [("K", 32), ("Vx", 33)], "R2-constants", "K is 32 bytes, V||separator is 33", up.loc, "", function="update", construct="bufs")
    # generate: decided relationally, without reference to the names of its locals (r3_generate)
    r3_generate(prog, rep)
    # reseed schedule: counter starts at 1, +1 per generate, reseed when > 256  => exactly 256 generates per seed
    ce = u.func("crypto_entropy_read")
    thr = [(op, R) for b in ce.blocks.values() if b.cond is not None for op, L, R, _, _ in cond_atoms(b.cond, True) if sh(L) == "drbg.reseed_counter"]
    rep.check((">", ("c", 256)) in thr and all(t in ((">", ("c", 256)), (">=", ("c", 257))) for t in thr), "R2-constants", "reseed when reseed_counter > 256 (counter 1..256 => 256 generate calls per seed)", ce.loc, "%s" % thr, function=ce.name, construct="interval")


def r4(prog, rep):
    u = prog.unit("util/entropy.c")
    f = u.func("entropy_read_fill")
    if not rep.names(f, "buf", "buflen", "lenread"):
        return
    rd = list(f.calls("read"))
    ok = len(rd) == 1
    fails = set()
    for b in f.blocks.values():
        if b.cond is None or len(b.succs) != 2:
            continue
        for op, L, R, _, _ in cond_atoms(b.cond, True):
            if sh(L) == "lenread" and op == "==" and R[0] == "c" and b.succs[0] is not None:
                # every path from the true edge ends in return -1 and never gets back to the read
                vals, seen = f.returns_from(b.succs[0])
                if vals and all(v == ("c", -1) for v in vals) and rd and rd[0].block.id not in seen:
                    fails.add(R[1])
    rep.check(ok and fails == {-1, 0}, "R4-fill", "entropy_read_fill fails on read() == -1 and on end-of-file", f.loc, "failing answers: %s" % sorted(fails), function=f.name, construct="read-fail")
    # relational (sa/poly.py), so the loop may be written with an advancing pointer or with an index: at every read the target
    # plus the length asked for is the end of the caller's buffer, the target never precedes the buffer, and success is
    # returned only when the target has reached the end (the whole buffer was written, each byte once, in order)
    from .. import poly
    from ..poly import Lin
    if len(rd) == 1:
        bufp = ("v", f.params[1]["name"], f.params[1]["id"])
        lenp = ("v", f.params[2]["name"], f.params[2]["id"])
        B0, N0 = Lin.var(("$entry", "buf")), Lin.var(("$entry", "buflen"))

        def read_contract(A, call, st, cs):
            # read(2): returns -1, or between 0 and the length asked for
            r = Lin.var(("$ret", A.f.name, call.pos))
            n = A.lin(call.arg(2), st)
            out = list(cs) + poly.cons(">=", r, Lin.const(-1))
            if n is not None:
                out += poly.cons("<=", r, n)
            return out
        A = poly.Analysis(f, assume=[("==", Lin.var(bufp), B0), ("==", Lin.var(lenp), N0), (">=", N0, Lin.const(0))],
                          quiet={"read", "warnp", "warn0", "libcperciva_warn", "warn", "warnx"}, post={"read": read_contract},
                          unsigned_terms={lenp, ("$entry", "buflen")}).run()
        st = A.state_before(rd[0])
        tgt, n = A.lin(rd[0].arg(1), st), A.lin(rd[0].arg(2), st)
        okr = tgt is not None and n is not None and A.holds(st, "==", tgt + n, B0 + N0) and A.holds(st, ">=", tgt, B0) and A.holds(st, ">=", n, Lin.const(1))
        rep.check(okr, "R4-fill", "every read targets the first unwritten byte and asks for exactly the rest of the buffer", rd[0].where,
                  "target + length == buf + buflen (as passed in), target >= buf and length >= 1 must hold at the read on every iteration; "
                  "target %s, length %s" % (tgt, n), function=f.name, construct="advance")
        full = True
        nret = 0
        for r in f.returns():
            if norm(r.kid(0)) != ("c", 0):
                continue
            nret += 1
            sr = A.state_before(r)
            # the position after the last byte written: the read target's expression evaluated here equals the end
            t2 = A.lin(rd[0].arg(1), sr)
            full = full and t2 is not None and A.holds(sr, "==", t2, B0 + N0)
        rep.check(full and nret >= 1, "R4-fill", "reads until the buffer is full (success only when the write position has reached the end)", f.loc, "", function=f.name, construct="loop")
    er = u.func("entropy_read")
    fl = list(er.calls("entropy_read_fill"))
    ok = len(fl) == 1 and [sh(norm(a)) for a in fl[0].args][1:] == [er.params[0]["name"], er.params[1]["name"]]
    if ok:
        # the failing edge of the fill reaches only failure returns (a warning and a fall-through into `return 0` hands the
        # caller an unfilled buffer as if it were entropy)
        ok = False
        for b in er.blocks.values():
            if b.cond is None or len(b.succs) != 2:
                continue
            for truth, succ in ((True, b.succs[0]), (False, b.succs[1])):
                for op, L, R, Le, Re in cond_atoms(b.cond, truth):
                    if (Le.strip() if Le is not None else None) is fl[0] and op == "!=" and R == ("c", 0) and succ is not None:
                        vals, _ = er.returns_from(succ)
                        ok = bool(vals) and all(v == ("c", -1) for v in vals)
    rets = sorted(set(norm(r.kid(0))[1] for r in er.returns()))
    rep.check(ok and rets == [-1, 0], "R4-fill", "entropy_read fills the caller's whole buffer or fails", er.loc, "", function=er.name, construct="entropy_read")


def r6_rdrand(prog, rep):
    """The extra-input buffer holds what generate_seed_rdrand is asked to write: the count passed is at most the number of elements
    of the array passed, and update() is given that array with its size."""
    u = prog.unit(UNIT)
    n = 0
    for f in u.funcs:
        if f.file != UNIT:
            continue
        for c in f.calls("generate_seed_rdrand"):
            n += 1
            a0 = c.arg(0)
            cnt = norm(c.arg(1)) if c.arg(1) is not None else None
            arr = None
            k = a0
            while k is not None and k.cls in ("ImplicitCastExpr", "CStyleCastExpr"):
                if k.op == "ArrayToPointerDecay":
                    arr = u.types.get(k.kid(0).ty) or {}
                k = k.kid(0)
            ok = arr is not None and arr.get("count") is not None and cnt is not None and cnt[0] == "c" and cnt[1] <= arr["count"]
            rep.check(ok, "R2-constants", "generate_seed_rdrand writes no more words than its buffer has", c.where,
                      "asked for %s words into an array of %s" % (show(cnt) if cnt else "?", arr.get("count") if arr else "?"), function=f.name, construct="rdrand-room")
    return n


def r5_whole(prog, rep):
    """crypto_entropy_read answers success only when it has produced every byte asked for: relational (sa/poly.py) - at each
    `return (0)` the remaining length is provably 0; each generate step is asked for between 1 and GENERATE_MAXLEN bytes and no more
    than remain; and the output cursor and the remaining length both move by exactly the amount generated."""
    from .. import poly
    from ..poly import Lin
    u = prog.unit(UNIT)
    f = u.func("crypto_entropy_read")
    if f is None:
        raise cdb.AnalysisBroken("anchor missing: crypto_entropy_read")
    BUF = ("v", f.params[0]["name"], f.params[0]["id"])
    LEN = ("v", f.params[1]["name"], f.params[1]["id"])
    A = poly.Analysis(f, quiet={"generate", "reseed", "instantiate"}, unsigned_terms={LEN}).run()
    n = 0
    for r in f.returns():
        if not r.kids or norm(r.kid(0)) != ("c", 0):
            continue
        st = A.state_before(r)
        if st is None:
            continue
        n += 1
        rep.check(A.holds(st, "==", Lin.var(LEN), Lin.const(0)), "R5-whole", "crypto_entropy_read: success only with nothing left to produce", r.where,
                  "at this `return (0)` the remaining length is not shown to be 0: the tail of the caller's buffer is returned as random without having been written",
                  function=f.name, construct="whole")
    for c in f.calls("generate"):
        st = A.state_before(c)
        # the amount as the callee receives it: a conversion to the parameter's type keeps the value only when the value fits
        arg, fits = c.arg(1), True
        while st is not None and arg is not None and arg.cls in ("ImplicitCastExpr", "CStyleCastExpr", "ParenExpr") and arg.kid(0) is not None and A.lin(arg, st) is None:
            t = u.types.get(arg.ty) or {}
            inner = A.lin(arg.kid(0), st)
            if arg.cls != "ParenExpr" and t.get("kind") in ("int", "enum", "bool") and t.get("size") and inner is not None:
                bits = 8 * t["size"]
                lo, hi = (-(2 ** (bits - 1)), 2 ** (bits - 1) - 1) if t.get("signed") else (0, 2 ** bits - 1)
                fits = fits and A.holds(st, ">=", inner, Lin.const(lo)) and A.holds(st, "<=", inner, Lin.const(hi))
            arg = arg.kid(0)
        amt = A.lin(arg, st) if st is not None and fits else None
        n += 1
        ok = amt is not None and A.holds(st, ">=", amt, Lin.const(1)) and A.holds(st, "<=", amt, Lin.var(LEN)) and A.holds(st, "<=", amt, Lin.const(65536))
        rep.check(ok and norm(c.arg(0)) == BUF, "R5-whole", "each generate step writes at the cursor between 1 and 65536 bytes, no more than remain", c.where,
                  ("amount %s" % (amt,)) if fits else "the amount does not fit the type it is converted to for the call (%s): generate receives a different number" % c.arg(1).ty,
                  function=f.name, construct="step-amount")
        a = norm(c.arg(1))
        adv = [(show(norm(e.kid(0))), e.op) for e in f.all_elems() if e.is_assign and e.op in ("+=", "-=") and norm(e.kid(1)) == a and f.dominates(c, e)]
        n += 1
        rep.check(sorted(adv) == sorted([(show(BUF), "+="), (show(LEN), "-=")]), "R5-whole", "the cursor and the remaining length move by the amount generated", c.where,
                  "updates by %s after the step: %s" % (show(a), adv), function=f.name, construct="step-advance")
    return n


def run(tier):
    rep = report.Report("C11", tier,
        "Decided: fail-closed typestate (no output from an unseeded or stale-past-the-interval state; entropy failure propagates before "
        "the state is touched), the SP 800-90A constants and reseed schedule, and the exact HMAC call sequences of Update/Generate/"
        "Instantiate/Reseed with the provenance of key, data and destination buffers, plus the OS-entropy read loop. Not decided: "
        "HMAC-SHA256 itself (C01) and bit-equality of outputs. Frozen exception: the RDRAND top-up after (re)seeding is extra input "
        "whose failure is deliberately ignored by the code's own comment.",
        trusted=["HMAC_SHA256_* (C01)", "read(2) on /dev/urandom"])
    # both tiers: the build with the host's CPU features and the one without any (the RDRAND top-up is compiled out there, and a
    # statement moved inside its #ifdef disappears with it)
    configs = [cdb.HOST, cdb.Config("nofeat", features=[])]
    for cfg in configs:
        prog = ir.Program([UNIT, "util/entropy.c"], cfg)
        rep.add_stats(prog)
        u = prog.unit(UNIT)
        r2_amounts(prog, rep)
        okn = True
        for fn, names in (("instantiate", ["seed_material"]), ("reseed", ["seed_material"]), ("update", ["K", "Vx", "ctx", "data", "datalen"]),
                          ("generate", ["buf", "buflen"]), ("crypto_entropy_read", ["buf", "buflen", "bytes_to_provide"])):
            f = u.func(fn)
            if f is None:
                raise cdb.AnalysisBroken("anchor missing: %s" % fn)
            okn = rep.names(f, *names) and okn
        if not okn:
            continue
        r1(prog, rep)
        r2_r3(prog, rep)
        r6_rdrand(prog, rep)
        if r5_whole(prog, rep) < 3:
            rep.defer_broken("R5: crypto_entropy_read has no success return or no generate step")
        r4(prog, rep)
        from . import c01
        c01.ctx_typestate(prog, rep, [UNIT])
        # the generator's output is HMAC-SHA256 of what it feeds in: the streaming structure of alg/sha256.c (anchor of this property)
        c01.sha256_rules(cfg, rep)
    n = len(configs)
    rep.require_min("R1-failclosed", 9 * n)
    rep.require_min("R3-template", 6 * n)
    return rep
