"""C14 — allocation failure is reported, leaves objects unchanged, leaks nothing.

NULLCHK     every fallible acquisition is tested before it is dereferenced
LEAK        everything acquired and not yet published is released on every
            path to a failure return (aliases, realloc hand-over, nested
            assignments, int-returning registrations)
DANGLE      a released slot that outlives the function (*r, obj->field) is
            overwritten or its parent freed before the function returns
ATOMIC      on every path to a failure return of a container operation the
            container has not been modified (callee summaries; fallible
            callees count only on their success edge)
REALLOC     realloc's result is never assigned straight over its argument
INFALLIBLE  in the void deleters/shrinkers/cancels/destructors, every callee
            that can fail for lack of memory has its result tested and handled
REPORTED    from the NULL edge of every tested acquisition only failure returns
            are reachable (non-zero / NULL): no fall-through into the success return
"""
import re
from .. import cdb, ir, report, own
from ..ir import norm, show, root_var, subterms
from ..dataflow import cond_atoms

CONTAINER_UNITS = ["datastruct/elasticarray.c", "datastruct/elasticqueue.c", "datastruct/ptrheap.c",
                   "datastruct/seqptrmap.c", "datastruct/timerqueue.c"]
ANCHOR_UNITS = CONTAINER_UNITS + [
    "events/events_network.c", "events/events_timer.c", "events/events_immediate.c", "events/events.c",
    "network/network_read.c", "network/network_write.c", "network/network_accept.c", "network/network_connect.c",
    "netbuf/netbuf_read.c", "netbuf/netbuf_write.c", "http/http.c", "util/asprintf.c"]

# One named symbol, one reason.
LEAK_EXCEPTIONS = {
    ("util/sock.c", "sock_connect", "s"):
        "the only path that leaves the loop with a connected socket is the break, where sas[0] != NULL; "
        "the 'sas[0] == NULL' failure edge is reached only with s closed or never opened (path-insensitive join)",
    ("network_ssl/network_ssl.c", "setupevents", "reg"):
        "the registration is recorded in ssl->waiting_r/w, which the long-lived object keeps; a later failure does not orphan it",
}
INFALLIBLE_NAME = re.compile(r"(_delete|_deletemin|_shrink|_cancel|_free|_increase|_decrease|_increasemin|_freerec)$")
INFALLIBLE_EXCEPTIONS = {
    "events_network_cancel": "its only allocating callee is the lazy init(), which has already run for any descriptor that has a "
                             "registration to cancel; its other failures (ENOENT) are not allocation failures",
    "events_network_register": "re-arm inside cancel paths does not occur; listed for completeness",
}


DESTROY_UNITS = ("events/events_timer.c", "events/events_immediate.c", "events/events_network.c", "datastruct/timerqueue.c", "datastruct/ptrheap.c",
                 "netbuf/netbuf_read.c", "netbuf/netbuf_write.c", "network/network_read.c", "network/network_write.c")
DESTROY_EXCEPTIONS = {("poke", "free"): "an empty queued buffer is discarded for good, whatever the launch of the next one then does"}


def destroy_then_fail_rule(prog, rep, only_files=None):
    """A failed operation leaves the objects it was given as they were: no path on which an operation releases, deletes or
    cancels something that existed before the call (reached through a parameter or a global, not acquired in the call) goes
    on to a failure return.  (Delete-then-re-add is not an update: if the re-add cannot allocate, the entry is gone and the
    caller is told the operation did not happen.)"""
    prog = prog.raw()          # summary-based: the view without inlined helpers (ir.Program.raw)
    n = 0
    for up in (only_files or DESTROY_UNITS):
        if up not in prog.units:
            continue
        u = prog.unit(up)
        for f in u.funcs:
            if f.file != up:
                continue
            fails = [r for r in f.returns() if own.is_failure_return(r)]
            if not fails:
                continue
            locs = set()
            for e in f.all_elems():
                if e.cls == "DeclStmt":
                    for d in e.decls or []:
                        if d.get("kind") == "local":
                            locs.add(d["id"])
            pre = set(p["id"] for p in f.params)
            acquired = set()
            for e in f.all_elems():
                if e.is_assign and e.op == "=":
                    rs = e.kid(1).strip() if e.kid(1) is not None else None
                    while rs is not None and rs.cls == "BinaryOperator" and rs.op == "=":
                        acquired.add(norm(rs.kid(0))) if (rs.kid(1).strip() is not None and rs.kid(1).strip().cls == "CallExpr") else None
                        rs = rs.kid(1).strip()
                    if rs is not None and rs.cls == "CallExpr":
                        acquired.add(norm(e.kid(0)))
                    elif norm(e.kid(0))[0] == "v":
                        r = root_var(norm(e.kid(1)))
                        if r is not None and r[2] in pre:
                            pre.add(norm(e.kid(0))[2])
                        elif norm(e.kid(1))[0] == "&" and len(norm(e.kid(0))) > 2:
                            # the address of a slot inside a long-lived table (r = &lookup(T, i)->member): what the slot holds
                            # existed before the call
                            pre.add(norm(e.kid(0))[2])
                if e.cls == "DeclStmt":
                    for d in e.decls or []:
                        if d.get("init"):
                            ie = f.elem(d["init"]).strip()
                            r = root_var(norm(f.elem(d["init"])))
                            if r is not None and r[2] in pre and not (ie is not None and ie.cls == "CallExpr"):
                                pre.add(d["id"])
            # where an lvalue is acquired only on some paths (`*r = mkrec()` after an early exit that jumps to the shared clean-up), what
            # it holds on the other paths is the caller's: a must-analysis of "assigned from a call in this invocation"
            from ..dataflow import Solver as _Solver

            def _tr(st, e):
                if e.is_assign and e.op == "=":
                    t = norm(e.kid(0))
                    rs = e.kid(1).strip() if e.kid(1) is not None else None
                    while rs is not None and rs.cls == "BinaryOperator" and rs.op == "=":
                        rs = rs.kid(1).strip()
                    if rs is not None and rs.cls == "CallExpr":
                        return st | frozenset([t])
                    return st - frozenset([t])
                return st
            _sv = _Solver(f, frozenset(), _tr, None, lambda a, b: a & b).run()
            for c in f.calls():
                if not (c.callee and (own.GENERIC_RELEASERS.search(c.callee) or c.callee.endswith("_delete") or c.callee.endswith("_deletemin"))):
                    continue
                n += 1
                args = [norm(a) for a in c.args if a is not None]
                old = [a for a in args if a not in acquired and root_var(a) is not None and (root_var(a)[2] in pre or root_var(a)[2] not in locs)
                       and not any(a == q or any(t == q for t in subterms(a)) for q in acquired)]
                if not old:
                    must = _sv.state_before(c)
                    if must is not None:
                        old = [a for a in args if a in acquired and a not in must and a[0] in ("*", ".", "[]") and root_var(a) is not None
                               and (root_var(a)[2] in pre or root_var(a)[2] not in locs)]
                reach = f.reach_from(c.block.id) | {c.block.id}
                hit = [r for r in fails if r.block.id in reach]
                if old and hit:
                    key = (f.name, c.callee)
                    if key not in DESTROY_EXCEPTIONS and (f.name, "free") in DESTROY_EXCEPTIONS:
                        # the same release made through a new helper (a static function the pinned tree does not have)
                        from .. import inline as _inl
                        if c.callee not in _inl.reference().get(f.file, set()):
                            key = (f.name, "free")
                    if key in DESTROY_EXCEPTIONS:
                        rep.unknown("ATOMIC", "%s in %s" % (c.text[:50], f.name), c.where, "frozen exception: " + DESTROY_EXCEPTIONS[key])
                        continue
                    rep.bad("ATOMIC", "%s in %s" % (c.text[:50], f.name), c.where,
                            "%s existed before the call and is released here, yet the failure return at %s is reachable afterwards: the operation reports that it "
                            "did not happen after it has destroyed what it was given" % (show(old[0]), hit[0].loc), function=f.name, construct="destroy-then-fail:" + c.callee)
    return n


def realloc_nonzero_rule(prog, rep, only_files=None):
    """realloc is never asked for zero bytes: what realloc(p, 0) does is implementation-defined -- glibc frees p and answers
    NULL, which the callers read as "allocation failed, p still valid" -- so every size handed to realloc is provably >= 1
    where the call is made (sa/poly.py; the library's own special cases for an emptied array are what establishes it)."""
    from .. import poly
    from ..poly import Lin
    n = 0
    # The library states what a function requires of its caller as an assertion; this rule proves the size non-zero *given* those
    # requirements.  In a configuration built with NDEBUG the same requirement holds (the callers are the same) but is no longer
    # written in the function, so there is nothing to prove it from: the rule counts its sites there and decides them in the
    # configurations that keep the assertions.
    ndebug = "-DNDEBUG" in (getattr(prog.config, "extra", None) or [])
    for f in prog.all_funcs():
        if only_files is not None and f.file not in only_files:
            continue
        cs = list(f.calls("realloc"))
        if not cs:
            continue
        if ndebug:
            for c in cs:
                n += 1
                rep.unknown("REALLOC-nonzero", "%s in %s" % (c.text[:50], f.name), c.where, "decided in the configurations that keep the assertions (this one is built with NDEBUG)")
            continue
        try:
            A = poly.Analysis(f, quiet={"realloc", "free", "memcpy", "memmove", "memset"}).run()
        except cdb.AnalysisBroken:
            raise
        for c in cs:
            n += 1
            st = A.state_before(c)
            if st is None:
                rep.ok("REALLOC-nonzero", "%s in %s" % (c.text[:50], f.name), c.where, "unreachable")
                continue
            sz = A.lin(c.arg(1), st)
            ok = sz is not None and A.holds(st, ">=", sz, Lin.const(1))
            rep.check(ok, "REALLOC-nonzero", "%s in %s" % (c.text[:50], f.name), c.where,
                      "the size (%s) is not shown to be at least 1 here: realloc(p, 0) may free p and answer NULL, which this code takes for a failed "
                      "allocation that left p alone" % (sz if sz is not None else show(norm(c.arg(1)))), function=f.name, construct="realloc-zero")
    return n


def double_free_rule(prog, rep, only_files=None, alloc_only=True):
    """No object is released twice: inside one function (a release of a path released earlier on some way there, nothing
    assigned to it in between), and across a failed call -- a callee that releases an argument on its own failure paths
    while its caller, finding that the call failed, releases the same argument."""
    prog = prog.raw()          # summary-based: the view without inlined helpers (ir.Program.raw)
    # this property quantifies over allocation failures: a second release counts when the way to it has passed the failure edge
    # of an operation that can fail for lack of memory (other double releases are outside its scope and are not reported here)
    D = own.DoubleFree(prog, alloc_only=alloc_only)
    n = 0
    for f in prog.all_funcs():
        if only_files is not None and f.file not in only_files:
            continue
        k, found = D.analyze(f)
        n += k
        seen = set()
        for e, p, first in found:
            if e.pos in seen:
                continue
            seen.add(e.pos)
            how = "released" if first.callee in D.rel else "released by the failing call %s()" % first.callee
            rep.bad("DOUBLE-FREE", "%s in %s" % (e.text[:50], f.name), e.where,
                    "%s was already %s at %s on a path that reaches this release with nothing assigned to it in between" % (show(p), how, first.loc),
                    function=f.name, construct="double-free:" + show(p))
        useen = set()
        for e, p, first in D.uses:
            if e.pos in useen:
                continue
            useen.add(e.pos)
            rep.bad("USE-AFTER-FREE", "%s in %s" % (e.text[:50], f.name), e.where,
                    "%s was released at %s on a path that reaches this use with nothing assigned to it in between" % (show(p), first.loc),
                    function=f.name, construct="use-after-free:" + show(p))
        if k and not seen and not useen:
            rep.ok("DOUBLE-FREE", "%s: %d releases" % (f.name, k), f.loc, "none of them releases a path already released on the way, and no released pointer is used again")
    return n


def leak_rules(prog, rep, only_files=None):
    """only_files: analyse just the functions defined in these files (acquirers are still discovered over the whole program)."""
    prog = prog.raw()          # summary-based: the view without inlined helpers (ir.Program.raw)
    acq = own.discover_acquirers(prog)
    L = own.Leak(prog, acq)
    N = own.NullChk(prog, acq)
    nsites = 0
    for f in prog.all_funcs():
        if only_files is not None and f.file not in only_files:
            continue
        sites, leaks = L.analyze(f)
        dang = list(L.dangling)
        per_site = {}
        for a, p, r in leaks:
            per_site.setdefault(a.pos, (a, p, r))
        for s in sites:
            nsites += 1
            inst = "%s in %s" % (s.text[:60], f.name)
            if s.pos in per_site:
                a, p, r = per_site[s.pos]
                rootname = (root_var(p) or ("", "reg" if p[0] == "reg" else "?"))[1]
                key = (f.unit.path if f.static else f.file, f.name, rootname)
                if key in LEAK_EXCEPTIONS:
                    rep.unknown("LEAK", inst, s.where, "frozen exception: " + LEAK_EXCEPTIONS[key])
                    continue
                rep.bad("LEAK", inst, s.where,
                        "%s acquired here is still held at the failure return at %s (no release, not published)" % (show(p), r.loc),
                        function=f.name, construct="leak:" + show(p))
            else:
                rep.ok("LEAK", inst, s.where, "released or published on every path to a failure return")
        seen = set()
        for a, p, r in dang:
            rv = root_var(p)
            # out-parameters (*out) are undefined on failure by the library's convention
            if p[0] == "*" and p[1][0] == "v" and any(q["id"] == p[1][2] for q in f.params):
                continue
            if (a.pos, r.pos) in seen:
                continue
            seen.add((a.pos, r.pos))
            rep.bad("DANGLE", "%s in %s" % (a.text[:60], f.name), a.where,
                    "%s was released here and still holds the stale pointer at the return at %s" % (show(p), r.loc),
                    function=f.name, construct="dangle:" + show(p))
        s2, bad = N.analyze(f)
        badpos = {}
        for a, p, d in bad:
            badpos.setdefault(a.pos, (a, p, d))
        for s in s2:
            inst = "%s in %s" % (s.text[:60], f.name)
            if s.pos in badpos:
                a, p, d = badpos[s.pos]
                rep.bad("NULLCHK", inst, s.where, "%s is dereferenced at %s where it may be NULL: its acquisition has not been tested, or has been and failed on this path" % (show(p), d.loc),
                        function=f.name, construct="nullchk:" + show(p))
            else:
                rep.ok("NULLCHK", inst, s.where, "tested before any dereference")
        _realloc_idiom(f, rep)
    return acq



def _realloc_idiom(f, rep):
    # REALLOC idiom
    for c in f.calls("realloc"):
        par = None
        for e in f.all_elems():
            if e.is_assign and e.op == "=" and e.kid(1) is not None and e.kid(1).strip() is c:
                par = e
        if par is None:
            continue
        rep.check(norm(par.kid(0)) != norm(c.arg(0)), "REALLOC", "%s in %s" % (par.text[:60], f.name), c.where,
                  "the result of realloc must not be stored straight over its argument (the old block is lost on failure)",
                  function=f.name, construct="realloc-self")
        # once realloc has succeeded the old pointer is gone: the place it was read from takes the result before the function
        # returns (on realloc's success edge, every path to the exit passes `p = result`)
        old, res = norm(c.arg(0)), norm(par.kid(0))
        if old == res or old[0] == "c":
            continue
        adopt = [e for e in f.all_elems() if e.is_assign and e.op == "=" and norm(e.kid(0)) == old and norm(e.kid(1)) == res]
        succ = None
        for b in f.blocks.values():
            if b.cond is None or len(b.succs) != 2:
                continue
            for truth, sx in ((True, b.succs[0]), (False, b.succs[1])):
                for op, Lt, R, Le, _ in cond_atoms(b.cond, truth):
                    if op == "!=" and R == ("c", 0) and (Lt == res or (Le is not None and Le.strip() is c)):
                        if c.block.id == b.id or f.dominates(c, b.cond):
                            succ = sx if succ is None else succ
        ok = bool(adopt)
        if ok and succ is not None:
            ablocks = set(a.block.id for a in adopt)
            # a path from the success edge to the exit that avoids every adopting assignment
            seen, work = set(), [succ]
            while work and ok:
                nb = work.pop()
                if nb is None or nb in seen or nb in ablocks:
                    continue
                seen.add(nb)
                if nb == f.exit:
                    ok = False
                work.extend(f.blocks[nb].succs)
        rep.check(ok, "REALLOC", "%s in %s: the result replaces the old pointer" % (c.text[:40], f.name), c.where,
                  "after a successful realloc a path returns with %s still holding the old address (the block may have moved: every later use "
                  "reads or writes freed memory)" % show(old), function=f.name, construct="realloc-adopt")


def realloc_idiom_rule(prog, rep, only_files):
    """REALLOC on the functions of the given files only (for properties that anchor a unit without running the whole LEAK family)."""
    n = 0
    for f in prog.all_funcs():
        if f.file in only_files and any(True for _ in f.calls("realloc")):
            n += 1
            _realloc_idiom(f, rep)
    return n


REPORTED_EXCEPTIONS = {
    ("util/readpass.c", "readpass", "fopen"): "not a memory failure: when /dev/tty cannot be opened the passphrase is read from stdin instead, as documented",
}


def _status_values(f, var):
    """Forward propagation of the values a local status variable may hold: a set of integer constants, "nz" (unknown but
    non-zero) and "?" (unknown).  Returns (IN, EDGE): the set at the head of each block and on each edge."""
    from ..dataflow import Solver
    V = var

    def transfer(st, e):
        if e.is_assign and norm(e.kid(0)) == V:
            if e.op == "=":
                r = norm(e.kid(1))
                return frozenset([r[1]]) if r[0] == "c" and isinstance(r[1], int) else frozenset(["?"])
            return frozenset(["?"])
        if e.cls == "UnaryOperator" and e.op in ("&", "++", "--") and norm(e.kid(0)) == V:
            return frozenset(["?"])
        if e.cls == "DeclStmt" and e.decls:
            for d in e.decls:
                if isinstance(d, dict) and d.get("kind") == "local" and d.get("id") == V[2]:
                    if d.get("init"):
                        try:
                            r = norm(f.elem(d["init"]))
                        except (KeyError, IndexError, TypeError):
                            return frozenset(["?"])
                        return frozenset([r[1]]) if r[0] == "c" and isinstance(r[1], int) else frozenset(["?"])
                    return frozenset(["?"])
        return st

    def refine(st, cond, kind):
        if kind not in (True, False):
            return st
        for op, L, R, Le, Re in cond_atoms(cond, kind):
            if L != V or R[0] != "c" or not isinstance(R[1], int):
                continue
            c = R[1]
            out = set()
            for v in st:
                if isinstance(v, int):
                    ok = {"==": v == c, "!=": v != c, "<": v < c, "<=": v <= c, ">": v > c, ">=": v >= c}[op]
                    if ok:
                        out.add(v)
                elif op == "==":
                    if not (v == "nz" and c == 0):
                        out.add(c)
                elif (op == "!=" and c == 0) or (op == "<" and c <= 0) or (op == ">" and c >= 0) or (op == "<=" and c < 0) or (op == ">=" and c > 0):
                    out.add("nz")
                else:
                    out.add(v)
            st = frozenset(out)
            if not st:
                return None
        return st

    s = Solver(f, frozenset(["?"]), transfer, refine).run()
    return s


def _status_returns_from(f, var, solver, b, si):
    """Values of `var` at each `return (var)` reachable from edge (b, si), propagating the edge's set forward."""
    from ..dataflow import edge_kinds
    V = var
    start = solver.OUT_EDGE.get((b, si))
    if start is None:
        return []
    IN = {f.blocks[b].succs[si]: start}
    work = [f.blocks[b].succs[si]]
    found = []
    rounds = 0
    while work:
        n = work.pop()
        rounds += 1
        if rounds > 4000:
            return []
        blk = f.blocks[n]
        st = IN[n]
        dead = False
        for e in blk.elems:
            if e.cls == "ReturnStmt":
                if e.kids and norm(e.kid(0)) == V:
                    found.append((e, st))
                dead = True
                break
            st = solver.transfer(st, e)
        if dead or blk.noreturn:
            continue
        kinds = edge_kinds(blk)
        for k, s in enumerate(blk.succs):
            if s is None:
                continue
            cond, kind = kinds[k]
            s2 = st
            if cond is not None:
                s2 = solver.refine(st, cond, kind)
                if s2 is None:
                    continue
            if s in IN:
                j = IN[s] | s2
                if j != IN[s]:
                    IN[s] = j
                    work.append(s)
            else:
                IN[s] = s2
                work.append(s)
    return found


# libc routines that answer 0 / NULL when they could not do what was asked (no memory involved, but the same discipline: the
# edge on which they failed must not reach a success return)
ZERO_MEANS_FAILED = ("strftime", "gmtime_r", "localtime_r", "inet_ntop")


def failure_edges(f, acq):
    """(block, truth, successor, call) for every tested acquisition of `f`: the edge taken when the acquisition fails."""
    for b in f.blocks.values():
        if b.cond is None or len(b.succs) != 2:
            continue
        for truth, succ in ((True, b.succs[0]), (False, b.succs[1])):
            hit = None
            for op, L, R, Le, Re in cond_atoms(b.cond, truth):
                ce = Le.strip() if Le is not None else None
                if ce is not None and ce.cls == "CallExpr" and (ce.callee in acq or ce.callee in ZERO_MEANS_FAILED) and R == ("c", 0) and op == "==":
                    hit = ce
                # asprintf / vasprintf allocate through an out-parameter and answer -1
                if ce is not None and ce.cls == "CallExpr" and ce.callee in ("asprintf", "vasprintf") and ((op == "==" and R == ("c", -1)) or (op == "<" and R == ("c", 0))):
                    hit = ce
            if hit is not None and succ is not None:
                yield b, truth, succ, hit


def static_atomic_rule(prog, rep, only_files=None):
    """A failed operation leaves the unit's own bookkeeping as it was: an integer variable at file scope that was given a computed
    value (incremented, doubled, assigned from an expression) before an acquisition must not still hold it when the acquisition's
    failure edge reaches a failure return -- the recorded capacity or count would then describe storage that was never obtained.
    (An assignment on the way from the failure edge to the return counts as the roll-back; constants and results of lazy
    initialisation are not bookkeeping of this call.)"""
    prog = prog.raw()          # summary-based: the view without inlined helpers (ir.Program.raw)
    from ..dataflow import Solver, edge_kinds
    acq = own.discover_acquirers(prog)
    n = 0
    for u in prog.units.values():
        gids = {g["id"]: g for g in u.globals if g.get("isdef") and not g.get("const") and not g.get("staticlocal")
                and (u.types.get(g.get("ty")) or {}).get("kind") in ("int", "uint", "size", "long", "ulong", "bool", "char", "short", "ushort", "enum")}
        if not gids:
            continue
        for f in u.funcs:
            if f.file != u.path or (only_files is not None and f.file not in only_files):
                continue
            rt = (u.types.get(f.ret) or {}).get("kind")
            if rt != "int":
                continue
            edges = list(failure_edges(f, acq))
            if not edges:
                continue

            def transfer(st, e):
                if e.is_assign or e.is_incdec:
                    t = norm(e.kid(0))
                    if t[0] == "v" and len(t) > 2 and t[2] in gids and gids[t[2]]["name"] == t[1]:
                        st = frozenset(x for x in st if x[0] != t[1])
                        computed = e.is_incdec or e.op != "=" or norm(e.kid(1))[0] != "c"
                        if computed and not (e.op == "=" and e.kid(1) is not None and e.kid(1).strip() is not None and e.kid(1).strip().cls == "CallExpr"):
                            st = st | {(t[1], e.where)}
                return st

            sol = Solver(f, frozenset(), transfer).run()
            for b, truth, succ, hit in edges:
                n += 1
                start = sol.OUT_EDGE.get((b.id, 0 if truth else 1))
                if start is None:
                    continue
                # from the failure edge on, an assignment is the roll-back
                IN = {succ: start}
                work = [succ]
                bad = None
                while work and bad is None:
                    k = work.pop()
                    st = IN[k]
                    blk = f.blocks[k]
                    done = False
                    for e in blk.elems:
                        if e.cls == "ReturnStmt":
                            v = norm(e.kid(0)) if e.kids else None
                            if st and v is not None and v[0] == "c" and v[1] != 0:
                                bad = (e, st)
                            done = True
                            break
                        if e.is_assign or e.is_incdec:
                            t = norm(e.kid(0))
                            if t[0] == "v" and len(t) > 2 and t[2] in gids:
                                st = frozenset(x for x in st if x[0] != t[1])
                    if done or blk.noreturn:
                        continue
                    for s2 in blk.succs:
                        if s2 is None:
                            continue
                        if s2 in IN:
                            j = IN[s2] | st
                            if j != IN[s2]:
                                IN[s2] = j
                                work.append(s2)
                        else:
                            IN[s2] = st
                            work.append(s2)
                inst = "%s in %s" % (hit.text[:50], f.name)
                rep.check(bad is None, "ATOMIC-static", inst, hit.where,
                          "when this acquisition fails the function returns failure with %s still holding the value computed at %s: the unit's "
                          "bookkeeping no longer matches what it owns, and the next call relies on it" % (
                              ", ".join(sorted(x[0] for x in bad[1])) if bad else "", ", ".join(sorted(x[1] for x in bad[1])) if bad else ""),
                          function=f.name, construct="static:" + (sorted(x[0] for x in bad[1])[0] if bad else ""))
    return n


# a discarded answer that is deliberately not looked at: (function, callee) -> reason
DROPPED_OK = {
    ("callback_timeo", "events_network_cancel"): "the registration being cancelled is known to exist (the connect attempt in progress registered it); cancellation of an existing registration allocates nothing",
}


def dropped_rule(prog, rep, only_files=None):
    """"Allocation failure is reported through the return value": in a function that can itself report failure (it returns an int
    or a pointer), the answer of a callee that can fail for lack of memory (own.alloc_fallible: through its own callees) is not
    thrown away -- an expression statement or a cast to void.  (`(void)poke(W); return (0);` reports a write as queued and sent
    when launching it failed.)"""
    prog = prog.raw()          # summary-based: the view without inlined helpers (ir.Program.raw)
    n = 0
    for f in prog.all_funcs():
        if f.file.startswith("/") or (only_files is not None and f.file not in only_files):
            continue
        if (f.unit.types.get(f.ret) or {}).get("kind") not in ("int", "ptr"):
            continue
        parents = {}
        for e in f.all_elems():
            for k in e.kids:
                if k is not None:
                    parents.setdefault(id(k), []).append(e)
        conds = set(id(b.cond) for b in f.blocks.values() if b.cond is not None)
        for c in f.calls():
            if not c.callee or own.alloc_fallible(prog, f, c.callee) is None:
                continue
            n += 1
            ps = parents.get(id(c), [])
            dropped = (not ps and id(c) not in conds) or (bool(ps) and all(p.cls == "CStyleCastExpr" and p.ty == "void" for p in ps))
            if dropped and (f.name, c.callee) in DROPPED_OK:
                rep.ok("DROPPED", "%s in %s" % (c.text[:50], f.name), c.where, "frozen exception: " + DROPPED_OK[(f.name, c.callee)])
                continue
            rep.check(not dropped, "DROPPED", "%s in %s: the answer is looked at" % (c.text[:50], f.name), c.where,
                      "%s() can fail for lack of memory and says so through its return value, which is thrown away here: %s() goes on to report whatever it "
                      "reports as if the call had worked" % (c.callee, f.name), function=f.name, construct="dropped:" + c.callee)
    return n


def reported_rule(prog, rep, only_files=None):
    """"Allocation failure is reported": from the NULL edge of every tested acquisition, every return that can be reached
    carries the function's failure value (non-zero for int functions, NULL for pointer functions) -- a cleanup ladder that
    falls through into the success return reports success with the work undone."""
    prog = prog.raw()          # summary-based: the view without inlined helpers (ir.Program.raw)
    acq = own.discover_acquirers(prog)
    n = 0
    for f in prog.all_funcs():
        if only_files is not None and f.file not in only_files:
            continue
        rt = (f.unit.types.get(f.ret) or {}).get("kind")
        if rt not in ("int", "ptr"):
            continue
        stat = {}
        pids = set(p["id"] for p in f.params)
        for b in f.blocks.values():
            if b.cond is None or len(b.succs) != 2:
                continue
            for truth, succ in ((True, b.succs[0]), (False, b.succs[1])):
                hit = None
                for op, L, R, Le, Re in cond_atoms(b.cond, truth):
                    ce = Le.strip() if Le is not None else None
                    if ce is not None and ce.cls == "CallExpr" and (ce.callee in acq or ce.callee in ZERO_MEANS_FAILED) and R == ("c", 0) and op == "==":
                        hit = ce
                    # asprintf / vasprintf allocate through an out-parameter and answer -1
                    if ce is not None and ce.cls == "CallExpr" and ce.callee in ("asprintf", "vasprintf") and ((op == "==" and R == ("c", -1)) or (op == "<" and R == ("c", 0))):
                        hit = ce
                if hit is None or succ is None:
                    continue
                n += 1
                vals, seen = f.returns_from(succ)
                wrong = [v for v in vals if v is not None and v[0] == "c" and ((v[1] == 0) if rt == "int" else (v[1] != 0))]
                if rt == "int" and not wrong:
                    # `return (rc)`: the status variable must not hold the success value on any path from the failure edge
                    for v in vals:
                        if v is not None and v[0] == "v" and len(v) > 2 and v[2] not in pids:
                            sv = stat.get(v)
                            if sv is None:
                                sv = stat[v] = _status_values(f, v)
                            for re_, st in _status_returns_from(f, v, sv, b.id, 0 if truth else 1):
                                if 0 in st:
                                    wrong.append(("v", "%s (== 0 here)" % v[1]))
                                    break
                inst = "%s in %s" % (hit.text[:50], f.name)
                key = (f.unit.path if f.static else f.file, f.name, hit.callee)
                if wrong and key in REPORTED_EXCEPTIONS:
                    rep.unknown("REPORTED", inst, hit.where, "frozen exception: " + REPORTED_EXCEPTIONS[key])
                    continue
                rep.check(not wrong, "REPORTED", inst, hit.where,
                          "when this acquisition fails a path reaches `return %s`, the function's success value: the failure is not reported to the caller" % (
                              show(wrong[0]) if wrong else ""), function=f.name, construct="reported:" + hit.callee)
    return n



def register_atomic_rule(prog, rep):
    """A failed events_network_register() leaves nothing registered: on every path to its failure return the slot it was
    going to fill is NULL again and no pollfd entry has been added (a successful call to a helper that grows the pollfd
    array -- recognised as a same-unit function that changes nfds -- must not be followed by a failure return; a stored event
    record must have been released and the slot cleared).  A left-over pollfd entry with events == 0 is polled for ever and
    trips the POLLNVAL assertion once the caller closes the descriptor."""
    prog = prog.raw()          # summary-based: the view without inlined helpers (ir.Program.raw)
    from ..dataflow import Solver
    up = "events/events_network.c"
    u = prog.unit(up)
    f = u.func("events_network_register")
    if f is None:
        raise cdb.AnalysisBroken("anchor missing: events_network_register")
    growers = set()
    for g in u.funcs:
        if g.file == up and g is not f and any(ir.step(e) and ir.step(e)[0] == "+=" and ir.step(e)[1][0] == "v" and ir.step(e)[1][1] == "nfds" for e in g.all_elems()):
            growers.add(g.name)
    if not growers:
        rep.defer_broken("ATOMIC: no helper that grows the pollfd array found in events_network.c")
        return

    def transfer(st, e):
        tags, pend = st
        if e.is_assign and e.op == "=" and norm(e.kid(0))[0] == "*" and norm(e.kid(0))[1][0] == "v":
            rhs = e.kid(1).strip() if e.kid(1) is not None else None
            if norm(e.kid(1)) == ("c", 0):
                return (tags - {"slot"}, pend)
            if rhs is not None and rhs.cls == "CallExpr":
                return (tags, pend | {(rhs.pos, "slot", "ptr")})
            return (tags | {"slot"}, pend)
        if e.cls == "CallExpr" and e.callee in growers:
            return (tags, pend | {(e.pos, "pollfd", "int")})
        if ir.step(e) and ir.step(e)[0] == "+=" and ir.step(e)[1][0] == "v" and ir.step(e)[1][1] == "nfds":
            return (tags | {"pollfd"}, pend)
        return st

    def refine(st, cond, kind):
        tags, pend = st
        if kind not in (True, False) or not pend:
            return st
        for op, L, R, Le, Re in cond_atoms(cond, kind):
            ce = Le.strip() if Le is not None else None
            if ce is None or ce.cls != "CallExpr":
                continue
            for (pos, tag, fk) in list(pend):
                if pos != ce.pos:
                    continue
                fail = None
                if fk == "ptr" and R == ("c", 0) and op in ("==", "!="):
                    fail = op == "=="
                if fk == "int" and R == ("c", 0) and op in ("==", "!="):
                    fail = op == "!="
                if fail is None:
                    continue
                pend = pend - {(pos, tag, fk)}
                if not fail:
                    tags = tags | {tag}
        return (tags, pend)
    sv = Solver(f, (frozenset(), frozenset()), transfer, refine, lambda a, b: (a[0] | b[0], a[1] | b[1])).run()
    bad = []

    def visit(e, st):
        if own.is_failure_return(e):
            tags, pend = st
            left = set(tags) | set(t for _, t, _ in pend)
            if left:
                bad.append((e, sorted(left)))
    sv.visit(visit)
    rep.check(not bad, "ATOMIC", "events_network_register(): a failed registration leaves nothing registered", f.loc,
              "at the failure return %s the following is still in place: %s (slot = the event record pointer stored for this descriptor/direction, "
              "pollfd = an entry added to the pollfd array)" % ((bad[0][0].loc, bad[0][1]) if bad else ("", "")), function=f.name, construct="register-atomic")



def reserve_flag_rule(prog, rep):
    """netbuf_write_reserve() marks the writer as having space reserved before it allocates; when the allocation fails
    it returns NULL, so no reservation exists, and the mark must be gone again: every later reserve, write and completion
    handler asserts that nothing is reserved, so a stale mark turns the next call on that writer into an abort."""
    prog = prog.raw()          # summary-based: the view without inlined helpers (ir.Program.raw)
    from ..dataflow import Solver
    u = prog.unit("netbuf/netbuf_write.c")
    f = u.func("netbuf_write_reserve")
    if f is None:
        raise cdb.AnalysisBroken("anchor missing: netbuf_write_reserve")

    def transfer(st, e):
        if e.is_assign and e.op == "=" and norm(e.kid(0))[0] == "." and norm(e.kid(0))[2] == "reserved":
            v = norm(e.kid(1))
            return v[1] if v[0] == "c" else "?"
        return st
    sv = Solver(f, 0, transfer, None, lambda a, b: a if a == b else "?").run()
    bad = []
    sets = [e for e in f.all_elems() if e.is_assign and norm(e.kid(0))[0] == "." and norm(e.kid(0))[2] == "reserved"]

    nomark = []

    def visit(e, st):
        if own.is_failure_return(e) and st != 0:
            bad.append(e)
        # ... and a successful one leaves the mark: consume() asserts it, and (with assertions compiled out) a reserve that is not
        # marked lets the completion handler start the next write over space that is still being filled
        if e.cls == "ReturnStmt" and e.kids and not own.is_failure_return(e) and st != 1:
            nomark.append(e)
    sv.visit(visit)
    if not sets:
        rep.defer_broken("ATOMIC: netbuf_write_reserve no longer stores the reservation mark")
        return
    rep.check(not bad, "ATOMIC", "netbuf_write_reserve(): a failed reservation leaves nothing reserved", f.loc,
              "at the failure return %s W->reserved may still be set although NULL is returned: the next netbuf_write_reserve / netbuf_write_write on this writer, "
              "and the completion of a write already in flight, abort on their `reserved == 0` assertions" % (bad[0].loc if bad else ""),
              function=f.name, construct="reserved-flag")
    rep.check(not nomark, "ATOMIC", "netbuf_write_reserve(): a successful reservation is marked", f.loc,
              "the success return %s is reached with W->reserved not set" % (nomark[0].loc if nomark else ""), function=f.name, construct="reserved-set")
    g = u.func("netbuf_write_consume")
    if g is not None:
        clr = [e for e in g.all_elems() if e.is_assign and e.op == "=" and norm(e.kid(0))[0] == "." and norm(e.kid(0))[2] == "reserved" and norm(e.kid(1)) == ("c", 0)]
        rep.check(len(clr) >= 1 and all(not own.is_failure_return(r) or True for r in g.returns()), "ATOMIC", "netbuf_write_consume() ends the reservation", g.loc, "", function=g.name, construct="reserved-clear")


def atomic_rule(prog, rep):
    prog = prog.raw()          # summary-based: the view without inlined helpers (ir.Program.raw)
    A = own.Atomic(prog)
    for up in CONTAINER_UNITS:
        u = prog.unit(up)
        for f in u.funcs:
            if not f.params or not any(own.is_failure_return(r) for r in f.returns()):
                continue
            t = u.types.get(f.params[0]["ty"], {})
            if t.get("kind") != "ptr" or u.types.get(t.get("pointee"), {}).get("kind") != "struct":
                continue
            v = A.analyze(f)
            inst = "%s(*%s)" % (f.name, f.params[0]["name"])
            if v:
                r, m = v[0]
                rep.bad("ATOMIC", inst, m.where,
                        "the container may already have been modified here (%s) on a path to the failure return at %s" % (m.text[:60], r.loc),
                        function=f.name, construct="atomic")
            else:
                rep.ok("ATOMIC", inst, f.loc, "no store through the object and no successful mutating callee on any path to a failure return")


def infallible_rule(prog, rep):
    prog = prog.raw()          # summary-based: the view without inlined helpers (ir.Program.raw)
    memo = {}

    def alloc_reach(g, stack=()):
        key = (g.unit.path, g.name)
        if key in memo:
            return memo[key]
        memo[key] = False
        r = False
        for c in g.calls():
            if c.callee in own.ALLOCATORS:
                r = True
                break
            h = prog.resolve(g, c.callee) if c.callee else None
            if h is not None and alloc_reach(h):
                r = True
                break
        memo[key] = r
        return r

    def tested(f, call):
        """Is the call's value (directly or through the variable it is
        assigned to) the subject of a branch with distinct successors?"""
        tgt = None
        for e in f.all_elems():
            if e.is_assign and e.op == "=" and e.kid(1) is not None and e.kid(1).strip() is call:
                tgt = norm(e.kid(0))
        for b in f.blocks.values():
            c = b.cond
            if c is None or len(b.succs) != 2 or b.succs[0] == b.succs[1]:
                continue
            for op, L, R, Le, Re in cond_atoms(c, True):
                ce = Le.strip() if Le is not None else None
                if ce is call or (tgt is not None and L == tgt):
                    return True
        return False

    def walk(f, op, seen):
        key = (f.unit.path, f.name)
        if key in seen:
            return
        seen.add(key)
        for c in f.calls():
            cal = c.callee
            if cal in own.ALLOCATORS:
                rep.check(tested(f, c), "INFALLIBLE", "%s reached from %s" % (c.text[:50], op.name), c.where,
                          "an allocation inside an operation that cannot fail must have its failure handled locally",
                          function=f.name, construct="infallible:" + cal)
                continue
            g = prog.resolve(f, cal) if cal else None
            if g is None:
                continue
            if own.may_fail(prog, g) and alloc_reach(g):
                if cal in INFALLIBLE_EXCEPTIONS:
                    rep.unknown("INFALLIBLE", "%s reached from %s" % (cal, op.name), c.where, "frozen exception: " + INFALLIBLE_EXCEPTIONS[cal])
                    continue
                rep.check(tested(f, c), "INFALLIBLE", "%s reached from %s" % (c.text[:50], op.name), c.where,
                          "%s can fail for lack of memory; inside an operation that cannot fail its result must be tested and handled" % cal,
                          function=f.name, construct="infallible:" + cal)
            else:
                walk(g, op, seen)

    n = 0
    for up in ANCHOR_UNITS:
        u = prog.unit(up)
        for f in u.funcs:
            if f.file != up or f.ret != "void" or not INFALLIBLE_NAME.search(f.name):
                continue
            n += 1
            before = len(rep.obls)
            walk(f, f, set())
            if len(rep.obls) == before:
                rep.ok("INFALLIBLE", f.name, f.loc, "no callee that can fail for lack of memory is reachable")
    if n < 25:
        raise cdb.AnalysisBroken("INFALLIBLE: only %d deleters/cancels/destructors found in the anchored units (>= 25 confirmed)" % n)


def run(tier):
    rep = report.Report("C14", tier,
        "Decided over every function of the library (74 units) on every CFG path: NULLCHK, LEAK (failure returns only), DANGLE, "
        "REALLOC; over the five containers' fallible operations: ATOMIC (object unchanged on every path to a failure return); "
        "over the void deleters/shrinkers/cancels/destructors of the anchored units: INFALLIBLE (allocation failure handled locally). "
        "DOUBLE-FREE: no path that has passed an allocation-failure edge releases an object twice, within a function or across a failed call whose "
        "callee releases an argument on its own failure path. "
        "These are the error-discipline clauses of the property for the k-th failing allocation at every k, since every acquisition "
        "site's failure edge is followed. Not decided: leaks on success paths, libc behaviour under real exhaustion, "
        "the refinement of container contents.",
        trusted=["acquire/release pairing tables (discovered constructor/destructor names + libc/OpenSSL list)",
                 "LEAK_EXCEPTIONS and INFALLIBLE_EXCEPTIONS (one symbol, one reason each)"])
    configs = [cdb.HOST]
    if tier == "thorough":
        configs += [cdb.Config("nofeat", features=[]), cdb.Config("host-ndebug", extra=["-DNDEBUG"])]
    for cfg in configs:
        prog = ir.Program(None, cfg)
        rep.add_stats(prog)
        acq = leak_rules(prog, rep)
        atomic_rule(prog, rep)
        register_atomic_rule(prog, rep)
        reserve_flag_rule(prog, rep)
        infallible_rule(prog, rep)
        reported_rule(prog, rep)
        if dropped_rule(prog, rep) < 50:
            rep.defer_broken("DROPPED: fewer than 50 calls of functions that can fail for lack of memory found")
        if static_atomic_rule(prog, rep) < 3:
            rep.defer_broken("ATOMIC-static: fewer than 3 tested acquisitions found in units that keep integer bookkeeping at file scope")
        if destroy_then_fail_rule(prog, rep) < 12:
            rep.defer_broken("ATOMIC: fewer than 12 release/delete calls found in the event, timer and I/O units")
        if realloc_nonzero_rule(prog, rep) < 4:
            rep.defer_broken("REALLOC-nonzero: fewer than 4 realloc calls found in the library")
        if double_free_rule(prog, rep) < 100:
            rep.defer_broken("DOUBLE-FREE: fewer than 100 release calls found in the library")
        from . import c07
        c07.orphan_rule(prog, rep)     # a queue-resident buffer must not be orphaned when launching its write fails
        # "the operation reports failure through its documented return value": an asynchronous read or write reports through its
        # callback -- a registration that cannot be renewed (it allocates) ends the request with one callback carrying -1, never
        # silently (callback linearity and the re-arm rule of the two transport units, shared with C06)
        from . import c06
        for up in ("network/network_read.c", "network/network_write.c"):
            rec, rel, ctor, cancel = c06.UNITS[up]
            L6, kinds = c06.lin_rule(prog, rep, up, rec, rel)
            c06.n2_n3(prog, rep, up, L6)
    rep.notes.append("acquirers discovered from the program: " + ", ".join(sorted(set(acq) - set(own.LIBC_ACQ))))
    n = len(configs)
    rep.require_min("LEAK", 180 * n)
    rep.require_min("NULLCHK", 150 * n)
    rep.require_min("ATOMIC", 12 * n)
    rep.require_min("REALLOC", 4 * n)
    rep.require_min("INFALLIBLE", 25 * n)
    rep.require_min("REPORTED", 90 * n)
    return rep
