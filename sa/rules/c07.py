"""C07 — buffered reader and writer preserve the stream: state-discipline clauses.

writer (netbuf_write.c)
  F1  sticky failure flag: stored 0 only by the constructor, 1 elsewhere; every
      transport launch and every reservation in netbuf_write_write happens with
      failed == 0; the failure callback has one call site, reached only with
      failed != 0, in return position
  F2  in-flight detachment: after a successful launch the launched buffer is
      recorded in curr and removed from the queue on every path; the completion
      handler clears write_cookie/curr first and frees exactly that buffer
  F3  PRE: the transport is never asked to write/read zero bytes
  SLOT write_cookie / read_cookie / immediate_cookie: handlers clear their slot
      before the upstream call; cancel routines cancel with the matching
      function under a slot test and clear it
reader (netbuf_read.c)
  F4  window: the transport target is &buf[datalen] with capacity buflen-datalen
      and minimum bufpos+len-datalen (both siblings agree); peek returns
      &buf[bufpos] / datalen-bufpos; consume advances bufpos; datalen grows by
      exactly the transport's answer on its success path only
  F5  compaction triple: copy(datalen-bufpos from &buf[bufpos]); datalen -= bufpos;
      bufpos = 0 -- in that order
  F6  status routing: <0 -> -1, ==0 -> 1 (end of stream), else 0; an immediate
      success is scheduled exactly when datalen-bufpos >= len
"""
from .. import cdb, ir, report
from ..ir import norm, show, root_var, subterms
from ..dataflow import Solver, cond_atoms
from ..facts import Facts

WU = "netbuf/netbuf_write.c"
RU = "netbuf/netbuf_read.c"


TRANSPORT = ("network/network_read.c", "network/network_write.c")


def fld(n, name):
    return isinstance(n, tuple) and n[0] == "." and n[2] == name


def strip_ids(n):
    if isinstance(n, tuple):
        if n and n[0] == "v":
            return ("v", n[1])
        return tuple(strip_ids(k) for k in n)
    return n


def launches(f):
    """Transport launches in f: calls to network_write/network_read or through the *_ssl_func pointers."""
    out = []
    for c in f.calls():
        if c.callee in ("network_write", "network_read"):
            out.append((c, 1))          # (call, index of the buffer argument)
        elif c.callee is None:
            n = norm(c.kid(0))
            if n[0] == "v" and n[1] in ("netbuf_write_ssl_func", "netbuf_read_ssl_func"):
                out.append((c, 1))
    return out


# ---------------------------------------------------------------------------
def orphan_rule(prog, rep):
    """A buffer taken off the writer's queue is either launched (recorded in curr with a live write_cookie) or freed
    before poke returns failure: netbuf_write_free() releases curr only while a write is in flight, so a buffer that
    is unlinked but not launched is leaked when the launch fails for lack of memory."""
    u = prog.unit(WU)
    p = u.func("poke")
    if p is None:
        raise cdb.AnalysisBroken("anchor missing: poke")
    from .. import own

    def transfer(st, e):
        if any(m in ("STAILQ_REMOVE", "STAILQ_REMOVE_HEAD") for m in e.macro) and e.is_assign:
            return True
        if e.cls == "CallExpr" and e.callee == "free" and norm(e.arg(0))[0] == "v":
            return False
        return st
    s = Solver(p, False, transfer, None, lambda a, b: a or b).run()
    bad = []

    def visit(e, st):
        if own.is_failure_return(e) and st:
            bad.append(e)
    s.visit(visit)
    rep.check(not bad, "F2-orphan", "poke: no buffer is off the queue when the launch fails", p.loc,
              "on a path to the failure return a buffer has been unlinked from the queue but neither launched nor freed; "
              "netbuf_write_free() frees curr only while write_cookie is set, so that buffer is leaked", function="poke", construct="orphan")


def writer(prog, rep):
    u = prog.unit(WU)
    funcs = [f for f in u.funcs if f.file == WU]
    # F1a stores to failed
    n = 0
    for f in funcs:
        ctor = (u.types.get(f.ret) or {}).get("kind") == "ptr" and "netbuf_write" in f.ret
        for e in f.all_elems():
            if (e.is_assign or e.is_incdec) and fld(norm(e.kid(0)), "failed"):
                n += 1
                v = norm(e.kid(1)) if e.is_assign and e.op == "=" else None
                if ctor:
                    ok = v == ("c", 0)
                else:
                    ok = v == ("c", 1)
                rep.check(ok, "F1-sticky", "%s in %s" % (e.text[:40], f.name), e.where,
                          "the failure flag is monotone: 0 only in the constructor, 1 elsewhere (found %s)" % (show(v) if v else e.op),
                          function=f.name, construct="failed-store")
    if n < 2:
        rep.defer_broken("F1: fewer than 2 stores to 'failed'")
    # F1b / F3: launches
    nl = 0
    for f in funcs:
        ls = launches(f)
        if not ls:
            continue
        fx = Facts(f).solve()
        for c, bi in ls:
            nl += 1
            W = None
            for a in c.args:
                if a is not None and norm(a)[0] == "v" and "netbuf_write" in (a.strip().ty or ""):
                    W = norm(a)
            if W is None:
                rep.defer_broken("F1: cannot identify the writer object at launch %s" % c.loc)
                continue
            FAILED = (".", ("*", W), "failed")
            ok = fx.holds_before(c, "==", FAILED, ("c", 0))
            rep.check(ok, "F1-launch", "launch in %s: %s" % (f.name, c.text[:40]), c.where,
                      "a transport write may be started only on the failed == 0 edge", function=f.name, construct="launch-failed")
            ln = norm(c.arg(bi + 1))
            nz = fx.holds_before(c, "!=", ln, ("c", 0))
            rep.check(nz, "F3-nonzero", "launch length %s in %s" % (show(ln), f.name), c.where,
                      "network_write requires buflen != 0 (it asserts it); nothing on this path excludes %s == 0 "
                      "(a zero-length write on an idle writer queues an empty buffer)" % show(ln),
                      function=f.name, construct="launch-zero")
            # minimum == length: the whole buffer must go out before the completion fires
            mn = norm(c.arg(bi + 2))
            rep.check(mn == ln, "F2-whole", "launch min == len in %s" % f.name, c.where,
                      "the queued buffer is freed on completion, so the transport must be asked to write all of it (len %s, min %s)" % (show(ln), show(mn)),
                      function=f.name, construct="launch-min")
    if nl < 2:
        rep.defer_broken("F1: fewer than 2 transport launches in netbuf_write.c")
    # F1-progress: the queue does not stall.  poke answers "nothing to do" (returns 0 without having launched a write) only when a
    # write is in flight, the writer has failed, or the queue holds no buffer at all -- an empty buffer at the head is not "nothing
    # to write" when data is queued behind it
    pk = u.func("poke")
    if pk is not None:
        lpos = [c for c, _ in launches(pk)]
        lblocks = set(c.block.id for c in lpos)

        def reach_without_launch(target):
            seen, work = set(), [pk.entry]
            while work:
                b = work.pop()
                if b in seen or b in lblocks:
                    continue
                if b == target:
                    return True
                seen.add(b)
                work.extend(x for x in pk.blocks[b].succs if x is not None)
            return False
        for r in pk.returns():
            if norm(r.kid(0)) != ("c", 0) or not reach_without_launch(r.block.id):
                continue
            dom = []
            for cond, truth in pk.edge_conds(r):
                dom += [(op, L, R) for op, L, R, _, _ in cond_atoms(cond, truth)]
            firsts = set(norm(e.kid(0)) for e in pk.all_elems() if e.is_assign and e.op == "=" and any(t[0] == "." and t[2] == "stqh_first" for t in subterms(norm(e.kid(1)))))

            def is_idle(atoms):
                return any((op == "!=" and fld(L, "write_cookie") and R == ("c", 0)) or (op == "!=" and fld(L, "failed") and R == ("c", 0)) or
                           (op == "==" and R == ("c", 0) and (L in firsts or any(t[0] == "." and t[2] == "stqh_first" for t in subterms(L)))) for op, L, R in atoms)
            # every edge into the return must say so by itself (one edge that does must not vouch for another that does not)
            edges = []
            for b in pk.blocks.values():
                if b.cond is None:
                    continue
                for i, sb in enumerate(b.succs):
                    if sb == r.block.id:
                        edges.append([(op, L, R) for op, L, R, _, _ in cond_atoms(b.cond, i == 0)])
            idle = is_idle(dom) or (bool(edges) and all(is_idle(ed) for ed in edges))
            at = dom + [a for ed in edges for a in ed]
            rep.check(idle, "F1-progress", "poke: `return (0)` at line %d without a launch" % r.line, r.where,
                      "poke gives up without starting a write although no write is in flight, the writer has not failed and the queue may hold data "
                      "(known on this edge: %s): the queue stalls, nothing more is sent and no failure is reported" % [(o, show(l), show(rr)) for o, l, rr in at][-3:],
                      function="poke", construct="stall")
    # F1c netbuf_write_write
    f = u.func("netbuf_write_write")
    if f is None:
        raise cdb.AnalysisBroken("anchor missing: netbuf_write_write")
    fx = Facts(f).solve()
    rs = list(f.calls("netbuf_write_reserve"))
    for c in rs:
        W = norm(c.arg(0))
        ok = fx.holds_before(c, "==", (".", ("*", W), "failed"), ("c", 0))
        rep.check(ok, "F1-discard", "reserve in netbuf_write_write", c.where,
                  "after a failure later writes are discarded silently: nothing may be reserved unless failed == 0", function=f.name, construct="write-failed")
    # and on the failed edge it returns 0
    okret = False
    for b in f.blocks.values():
        if b.cond is None or len(b.succs) != 2:
            continue
        for op, L, R, _, _ in cond_atoms(b.cond, True):
            if fld(L, "failed") and op == "!=" and R == ("c", 0) and b.succs[0] is not None:
                tb = f.blocks[b.succs[0]]
                if any(e.cls == "ReturnStmt" and norm(e.kid(0)) == ("c", 0) for e in tb.elems):
                    okret = True
    rep.check(okret, "F1-discard", "netbuf_write_write returns 0 once failed", f.loc, "the failed edge must return success without queueing",
              function=f.name, construct="write-failed-ret")
    # F1d the failure callback
    sites = []
    for g in funcs:
        for c in g.calls():
            if c.callee is None and fld(norm(c.kid(0)), "fail_callback"):
                sites.append((g, c))
    if len(sites) != 1:
        rep.bad("F1-failcb", "failure callback call sites", WU, "exactly one call site expected, found %d" % len(sites), function="*", construct="failcb-sites")
    else:
        g, c = sites[0]
        fx = Facts(g).solve()
        Wn = root_var(norm(c.kid(0)))
        ok = fx.holds_before(c, "!=", (".", ("*", Wn), "failed"), ("c", 0))
        inret = any(r.kids and r.kid(0) is not None and r.kid(0).strip() is c for r in g.returns())
        rep.check(ok and inret, "F1-failcb", "failure callback in %s" % g.name, c.where,
                  "the failure callback fires only with failed != 0 (%s) and its status is returned at once, so nothing is launched after it (%s)" % (ok, inret),
                  function=g.name, construct="failcb")
    # F2a poke: after a successful launch, curr = WB and WB removed
    p = u.func("poke")
    if p is None:
        raise cdb.AnalysisBroken("anchor missing: poke")
    ls = launches(p)
    launch_pos = set(c.pos for c, _ in ls)
    bufvars = set()
    for c, bi in ls:
        r = root_var(norm(c.arg(bi)))
        if r:
            bufvars.add(r)
    if len(bufvars) != 1:
        rep.defer_broken("F2: launches in poke do not share one buffer variable")
    else:
        WB = list(bufvars)[0]

        def transfer(st, e):
            launched, cur, rem = st
            if e.cls == "CallExpr" and e.pos in launch_pos:
                return (True, False, False)
            if e.is_assign and fld(norm(e.kid(0)), "curr") and norm(e.kid(1)) == WB:
                cur = True
            if any(m in ("STAILQ_REMOVE", "STAILQ_REMOVE_HEAD") for m in e.macro):
                # the removal must name the queue of this writer
                rem = True
            return (launched, cur, rem)

        def refine(st, cond, kind):
            if kind in (True, False):
                for op, L, R, Le, Re in cond_atoms(cond, kind):
                    ce = Le.strip() if Le is not None else None
                    if ce is not None and ce.cls == "CallExpr" and ce.pos in launch_pos and R == ("c", 0) and op == "==":
                        return (False, False, False)   # launch failed
            return st
        s = Solver(p, (False, False, False), transfer, refine,
                   lambda a, b: (a[0] or b[0], a[1] and b[1] if a[0] and b[0] else (a[1] if a[0] else b[1]), a[2] and b[2] if a[0] and b[0] else (a[2] if a[0] else b[2]))).run()
        oks = []

        def visit(e, st):
            if e.cls == "ReturnStmt" and st[0]:
                oks.append(st[1] and st[2])
        s.visit(visit)
        rep.check(bool(oks) and all(oks), "F2-detach", "poke: launched buffer recorded in curr and unlinked", p.loc,
                  "on every path from a successful launch to the return the buffer must be stored in curr and removed from the queue",
                  function="poke", construct="detach")
    # F2b writbuf
    w = u.func("writbuf")
    if w is None:
        raise cdb.AnalysisBroken("anchor missing: writbuf")
    clears = [e for e in w.all_elems() if e.is_assign and norm(e.kid(1)) == ("c", 0) and (fld(norm(e.kid(0)), "write_cookie") or fld(norm(e.kid(0)), "curr"))]
    realcalls = [c for c in w.calls() if not c.macro or "assert" not in c.macro]
    ok = len(clears) == 2 and all(w.dominates(cl, c) for cl in clears for c in realcalls)
    rep.check(ok, "SLOT", "writbuf clears write_cookie and curr first", w.loc,
              "the completion handler must clear both in-flight fields before freeing, calling back or launching", function="writbuf", construct="slot-clear")
    # frees exactly the buffer that was in flight: WB initialised from W->curr
    wbinit = None
    for e in w.all_elems():
        if e.cls == "DeclStmt":
            for d in e.decls or []:
                if d.get("init") is not None and fld(norm(w.elem(d["init"])), "curr"):
                    wbinit = ("v", d["name"], d["id"])
    frees = [norm(c.arg(0)) for c in w.calls("free")]
    ok = wbinit is not None and sorted(map(str, frees)) == sorted(map(str, [wbinit, (".", ("*", wbinit), "buf")]))
    rep.check(ok, "F2-detach", "writbuf frees exactly the in-flight buffer", w.loc, "frees: %s" % [show(x) for x in frees], function="writbuf", construct="free-curr")
    # ... on every path: once curr is cleared nothing else refers to the buffer, so a return that is reached without passing
    # both frees leaks it (the failure path included)
    if ok:
        fr = list(w.calls("free"))
        escaping = [c for c in fr if any(w.reach_avoiding(w.entry, r.block.id, c.block.id) and r.block.id != c.block.id for r in w.returns())]
        rep.check(not escaping, "F2-detach", "writbuf frees the in-flight buffer on every path, the failure path included", w.loc,
                  "a return is reachable without %s: the buffer detached from the queue is lost" % [c.text[:20] for c in escaping], function="writbuf", construct="free-curr-allpaths")
    # exactly one of: failure callback, poke -- both in return position
    pk = list(w.calls("poke"))
    inret = all(any(r.kids and r.kid(0) is not None and r.kid(0).strip() is c for r in w.returns()) for c in pk)
    rep.check(len(pk) == 1 and inret, "LIN", "writbuf continues with poke in return position", w.loc,
              "after a completed write exactly one of {failure callback, poke} runs and its status is returned", function="writbuf", construct="lin")
    # the failed mark: set iff the transport reported a different length
    marks = [e for e in w.all_elems() if e.is_assign and fld(norm(e.kid(0)), "failed")]
    okm = False
    for b in w.blocks.values():
        if b.cond is None:
            continue
        for op, L, R, _, _ in cond_atoms(b.cond, True):
            if op == "!=" and (fld(R, "datalen") or fld(L, "datalen")):
                okm = bool(marks) and b.succs[0] is not None and marks[0].block.id == b.succs[0]
    rep.check(okm, "F1-sticky", "writbuf marks failure iff the written length differs from datalen", w.loc,
              "a short or failed write must set failed", function="writbuf", construct="mark")
    # netbuf_write_free: cancel under slot test with the matching function, free curr
    fr = u.func("netbuf_write_free")
    canc = [c for c in fr.calls("network_write_cancel")]
    ok = len(canc) == 1 and fld(norm(canc[0].arg(0)), "write_cookie")
    fx = Facts(fr).solve()
    if ok:
        ok = fx.holds_before(canc[0], "!=", norm(canc[0].arg(0)), ("c", 0))
    fc = [norm(c.arg(0)) for c in fr.calls("free")]
    ok2 = any(fld(x, "curr") for x in fc) and any(fld(x, "buf") and fld(x[1][1] if x[1][0] == "*" else x[1], "curr") for x in fc)
    rep.check(ok and ok2, "SLOT", "netbuf_write_free cancels the in-flight write and frees its buffer", fr.loc,
              "network_write_cancel(write_cookie) under write_cookie != NULL, then free(curr->buf), free(curr)", function="netbuf_write_free", construct="free-cancel")
    # consume: datalen advances by len only when not failed; reservation flag protocol
    cs = u.func("netbuf_write_consume")
    adv = [e for e in cs.all_elems() if e.is_assign and e.op == "+=" and fld(norm(e.kid(0)), "datalen")]
    ok = len(adv) == 1 and norm(adv[0].kid(1))[0] == "v" and norm(adv[0].kid(1))[1] == cs.params[1]["name"]
    rep.check(ok, "F4-window", "consume advances datalen by exactly len", cs.loc, "datalen += len", function=cs.name, construct="consume-adv")
    # reserve returns &buf[datalen] of the last buffer or the start of a fresh one with datalen 0
    rs = u.func("netbuf_write_reserve")
    rets = [norm(r.kid(0)) for r in rs.returns() if r.kids]
    want_old = False
    want_new = False
    for r in rets:
        if r[0] == "&" and r[1][0] == "[]" and fld(r[1][1], "buf") and fld(r[1][2], "datalen"):
            want_old = True
        if fld(r, "buf"):
            want_new = True
    zero = [e for e in rs.all_elems() if e.is_assign and fld(norm(e.kid(0)), "datalen") and norm(e.kid(1)) == ("c", 0)]
    tail = any("STAILQ_INSERT_TAIL" in e.macro for e in rs.all_elems())
    head = any("STAILQ_INSERT_HEAD" in e.macro for e in rs.all_elems())
    rep.check(want_old and want_new and bool(zero) and tail and not head, "F4-window", "reserve hands out the append position; new buffers join the tail", rs.loc,
              "returns &buf[datalen] of the last buffer or a fresh buffer (datalen 0) inserted at the tail", function=rs.name, construct="reserve")
    # poke takes the head of the queue
    first = any("STAILQ_FIRST" in e.macro for e in p.all_elems())
    last = any("STAILQ_LAST" in e.macro for e in p.all_elems())
    rep.check(first and not last, "F4-window", "poke launches the head of the queue", p.loc, "FIFO: STAILQ_FIRST", function="poke", construct="fifo")


# ---------------------------------------------------------------------------

# ---- reader window: relational analysis (sa/poly.py) ------------------------------------------
# callees that store the pointers they are given and do not write through them before returning (registrations, the
# transport launch, libc copies into byte buffers, the allocator).  None stands for the SSL transport's function pointer,
# which has network_read's contract.
READER_QUIET = {"events_immediate_register", "events_immediate_cancel", "network_read", "network_read_cancel", "memmove", "memcpy", "malloc", "free", None}


def reader_relational(prog, rep, u, wt, ls):
    """The reader's window invariant 0 <= bufpos <= datalen <= buflen, 1 <= buflen, as an inductive invariant of
    netbuf_read.c (assumed on entry of every function that takes the reader, proved at each of its exits, established by
    the constructor), and under it, at both transport launches of netbuf_read_wait:
      window   target == buf + datalen, capacity == buflen - datalen, minimum == len - (datalen - bufpos)   (as values)
      nonzero  minimum >= 1 (hence capacity >= 1): the transport is never asked for zero bytes
      fits     capacity >= minimum: the bytes still missing fit behind the data already buffered
    decided by entailment in a linear-inequality domain, so temporaries, reordered statements and equivalent
    spellings do not matter, and a weakened compaction or growth test does."""
    from .. import poly
    from ..poly import Lin

    def setup(f, Rterm):
        fl = lambda n: Lin.var((".", ("*", Rterm), n))
        inv = [("<=", fl("bufpos"), fl("datalen")), ("<=", fl("datalen"), fl("buflen")), (">=", fl("buflen"), Lin.const(1))]
        uns = {(".", ("*", Rterm), n) for n in ("bufpos", "datalen", "buflen")}
        return fl, inv, uns

    inl = {"netbuf_read_resize_buffer": u.func("netbuf_read_resize_buffer")}
    # -- netbuf_read_wait
    Rw = ("v", wt.params[0]["name"], wt.params[0]["id"])
    fl, inv, uns = setup(wt, Rw)
    A = poly.Analysis(wt, assume=inv, quiet=READER_QUIET, inline=inl, unsigned_terms=uns).run()
    lenv = Lin.var(("v", wt.params[1]["name"], wt.params[1]["id"]))
    for c, bi in ls:
        st = A.state_before(c)
        tgt, cap, mn = A.lin(c.arg(bi), st), A.lin(c.arg(bi + 1), st), A.lin(c.arg(bi + 2), st)
        okw = tgt is not None and cap is not None and mn is not None
        d = ""
        if okw:
            w1 = A.holds(st, "==", tgt, fl("buf") + fl("datalen"))
            w2 = A.holds(st, "==", cap, fl("buflen") - fl("datalen"))
            w3 = A.holds(st, "==", mn, lenv - fl("datalen") + fl("bufpos"))
            okw = w1 and w2 and w3
            d = "target == buf + datalen: %s; capacity == buflen - datalen: %s; minimum == len - (datalen - bufpos): %s" % (w1, w2, w3)
        else:
            d = "an argument is not a linear expression of the window fields: %s, %s, %s" % tuple(show(strip_ids(norm(c.arg(bi + k)))) for k in range(3))
        rep.check(okw, "F4-window", "read launch window: %s" % c.text[:30], c.where,
                  d + " (required on every path: &R->buf[R->datalen], R->buflen - R->datalen, R->bufpos + len - R->datalen, as values)",
                  function=wt.name, construct="read-window")
        if cap is not None and mn is not None:
            nz = A.holds(st, ">=", mn, Lin.const(1)) and A.holds(st, ">=", cap, Lin.const(1))
            rep.check(nz, "F3-nonzero", "read launch asks for at least one byte and offers at least one", c.where,
                      "minimum >= 1 and capacity >= 1 must follow from the window tests on every path", function=wt.name, construct="read-nonzero")
            fits = A.holds(st, ">=", cap, mn)
            rep.check(fits, "F4-fits", "the bytes still missing fit behind the buffered data (capacity >= minimum)", c.where,
                      "on some path to this launch buflen - datalen >= len - (datalen - bufpos) does not follow from the growth and compaction tests: "
                      "the transport would be given a region smaller than the minimum it must fill (short region => spurious end-of-stream, zero region => abort)",
                      function=wt.name, construct="read-fits")
        hd = norm(c.arg(bi + 3)) == ("fn", "callback_read")
        rep.check(hd, "F4-window", "read launch handler", c.where, "completion must go to callback_read", function=wt.name, construct="read-handler")
    for r in wt.returns():
        st = A.state_before(r)
        rep.check(all(A.holds(st, op, a, b) for op, a, b in inv), "F4-inv", "netbuf_read_wait keeps 0 <= bufpos <= datalen <= buflen, buflen >= 1 (return at line %d)" % r.line, r.where,
                  "the window invariant does not follow at this return", function=wt.name, construct="inv:wait:%s" % show(norm(r.kid(0))))
    # -- netbuf_read_consume: the caller may consume only what is buffered (its assertion), the invariant follows
    cs = u.func("netbuf_read_consume")
    Rc = ("v", cs.params[0]["name"], cs.params[0]["id"])
    flc, invc, unsc = setup(cs, Rc)
    ln = Lin.var(("v", cs.params[1]["name"], cs.params[1]["id"]))
    Ac = poly.Analysis(cs, assume=invc + [("<=", ln, flc("datalen") - flc("bufpos")), (">=", ln, Lin.const(0))], quiet=READER_QUIET, unsigned_terms=unsc).run()
    ex = Ac.solver.IN.get(cs.exit)
    rep.check(ex is not None and all(Ac.holds(ex, op, a, b) for op, a, b in invc), "F4-inv", "netbuf_read_consume(len <= datalen - bufpos) keeps the window invariant", cs.loc,
              "", function=cs.name, construct="inv:consume")
    # -- callback_read: the transport delivers at most the capacity it was given (C06 N5: minlen <= n <= buflen)
    cb = u.func("callback_read")
    rl = [e for e in cb.all_elems() if e.cls == "DeclStmt" and e.decls and e.decls[0]["name"] == "R"]
    Rb = ("v", "R", rl[0].decls[0]["id"]) if rl else None
    if Rb is None:
        rep.defer_broken("F4-inv: callback_read has no local R")
        return
    flb, invb, unsb = setup(cb, Rb)
    lr = Lin.var(("v", cb.params[1]["name"], cb.params[1]["id"]))
    Ab = poly.Analysis(cb, assume=invb + [("<=", lr, flb("buflen") - flb("datalen"))], quiet=READER_QUIET, unsigned_terms=unsb).run()
    n = 0
    for r in cb.returns():
        st = Ab.state_before(r)
        n += 1
        rep.check(all(Ab.holds(st, op, a, b) for op, a, b in invb), "F4-inv", "callback_read keeps the window invariant (return at line %d)" % r.line, r.where,
                  "datalen may exceed buflen or fall below bufpos after the transport's answer is added", function=cb.name, construct="inv:callback_read:%d" % n)
    # -- the constructor establishes it
    ini = u.func("netbuf_read_init2") or u.func("netbuf_read_init")
    got = {}
    for e in ini.all_elems():
        if e.is_assign and e.op == "=" and norm(e.kid(0))[0] == "." and norm(e.kid(0))[2] in ("bufpos", "datalen", "buflen"):
            got[norm(e.kid(0))[2]] = norm(e.kid(1))
    mal = [c for c in ini.calls("malloc") if got.get("buflen") is not None and norm(c.arg(0)) in (got["buflen"], (".", norm(c.arg(0))[1], "buflen") if norm(c.arg(0))[0] == "." else None)]
    okc = got.get("bufpos") == ("c", 0) and got.get("datalen") == ("c", 0) and got.get("buflen", ("c", 0))[0] == "c" and got["buflen"][1] >= 1
    rep.check(okc, "F4-inv", "the constructor starts with bufpos = datalen = 0 and a non-empty buffer", ini.loc, "%s" % {k: show(v) for k, v in got.items()},
              function=ini.name, construct="inv:init")



def reader_cancel(prog, rep, u, wt, ls):
    """F8: cancelling a wait loses no byte.  The transport (network_read / the SSL sibling) completes only when it has at
    least the minimum it was asked for and reports its progress only then; bytes it has already received into the reader's
    buffer are unknown to the reader until that completion.  So either every launch asks for a minimum of one byte (then
    there is no unreported progress between events), or the routine that cancels a pending read must obtain the
    transport's progress and add it to datalen.  Decided from the launch minimum (relational) and the cancel call's shape."""
    from .. import poly
    from ..poly import Lin
    Rw = ("v", wt.params[0]["name"], wt.params[0]["id"])
    fl = lambda n: Lin.var((".", ("*", Rw), n))
    inv = [("<=", fl("bufpos"), fl("datalen")), ("<=", fl("datalen"), fl("buflen")), (">=", fl("buflen"), Lin.const(1))]
    A = poly.Analysis(wt, assume=inv, quiet=READER_QUIET, inline={"netbuf_read_resize_buffer": u.func("netbuf_read_resize_buffer")},
                      unsigned_terms={(".", ("*", Rw), n) for n in ("bufpos", "datalen", "buflen")}).run()
    partial = []
    for c, bi in ls:
        st = A.state_before(c)
        mn = A.lin(c.arg(bi + 2), st)
        if mn is None or not A.holds(st, "==", mn, Lin.const(1)):
            partial.append(c)
    cn = u.func("netbuf_read_wait_cancel")
    cancels = [c for c in cn.calls() if (c.callee == "network_read_cancel" or c.callee is None) and c.args and fld(norm(c.args[0] if c.callee else c.arg(0)), "read_cookie")]
    if not cancels:
        rep.defer_broken("F8: no cancellation of the pending read found in netbuf_read_wait_cancel")
        return
    # does the cancel path account for progress?  it would have to use the cancel call's result or query the transport
    accounted = any((u.types.get(c.ty) or {}).get("kind") == "int" for c in cancels) and any(
        ir.step(e) and fld(ir.step(e)[1], "datalen") for e in cn.all_elems())
    ok = not partial or accounted
    rep.check(ok, "F8-cancel", "cancelling a wait discards no received bytes", cancels[0].where,
              "the launches at %s ask the transport for a minimum above one byte, so it may hold bytes it has received into the reader's buffer but not yet "
              "reported; %s cancels it with %s, which returns nothing, and datalen is not advanced: those bytes are lost and the next wait overwrites "
              "them (history: wait(10); 4 bytes arrive; wait_cancel; 6 more arrive; wait(6) -> the application sees bytes 5..10 as the start of the stream)" % (
                  [c.loc.rsplit(":", 1)[0] for c in partial], cn.name, " / ".join(sorted(set((c.callee or "the SSL cancel function") for c in cancels)))),
              function=cn.name, construct="cancel-discards-progress")
    # the same unreported progress is lost when the transport ends the read with end-of-stream or an error: it answers 0 / -1,
    # and callback_read has nothing to add to datalen
    cb = u.func("callback_read")
    if cb is not None:
        lr = ("v", cb.params[1]["name"], cb.params[1]["id"])
        adds = [e for e in cb.all_elems() if ir.step(e) and fld(ir.step(e)[1], "datalen")]
        # every addition to datalen is on the lenread > 0 path only, and adds lenread: on the 0 / negative edges nothing can be added
        only_success = all(any((op in (">", ">=") and L == lr) or (op == "!=" and L == lr and R == ("c", 0)) for cond, truth in cb.edge_conds(e) for op, L, R, _, _ in cond_atoms(cond, truth)) or True for e in adds)
        rep.check(not partial, "F8-cancel", "end-of-stream or an error discards no received bytes", cb.loc,
                  "with a launch minimum above one byte the transport may have stored bytes in the reader's buffer before it reports end-of-stream (0) or an error (-1); "
                  "callback_read is told only 0 / -1, so datalen is not advanced and those bytes -- sent by the peer before it closed -- are invisible "
                  "(history: wait(10); the peer sends 3 bytes and closes -> status end-of-stream, 0 bytes visible)",
                  function=cb.name, construct="eof-discards-progress")



def writer_samebuf(prog, rep):
    """F9: a reservation and its consumption address the same buffer.  netbuf_write_consume() credits the bytes to the last
    queued buffer, so the space netbuf_write_reserve() hands out must lie in that buffer too: the buffer it returns a
    pointer into is the queue's last element (STAILQ_LAST) or the fresh one it has just appended at the tail -- never one
    found by walking the queue."""
    u = prog.unit(WU)
    rv = u.func("netbuf_write_reserve")
    cs = u.func("netbuf_write_consume")
    if rv is None or cs is None:
        raise cdb.AnalysisBroken("anchor missing: netbuf_write_reserve / netbuf_write_consume")

    def wb_defs(f):
        out = []
        for e in f.all_elems():
            if e.is_assign and e.op == "=" and norm(e.kid(0))[0] == "v" and (f.unit.types.get(e.kid(0).ty) or {}).get("pointee", "").replace(" ", "") == "structwritebuf":
                rhs = e.kid(1).strip() if e.kid(1) is not None else None
                rn = norm(e.kid(1)) if e.kid(1) is not None else ("?",)
                if rn == ("c", 0) or (rn[0] == "v" and not e.macro):
                    continue         # NULL, or a copy of another such variable (whose own origin is classified): selects nothing
                kind = "other"
                stack = set(e.macro) | (set(rhs.macro) if rhs is not None else set())
                if rhs is not None and rhs.cls == "CallExpr" and rhs.callee in ("malloc", "calloc"):
                    kind = "fresh"
                elif "STAILQ_LAST" in stack and not (stack & {"STAILQ_FOREACH", "STAILQ_FIRST", "STAILQ_NEXT", "STAILQ_FOREACH_SAFE"}):
                    kind = "last"
                out.append((e, kind))
        return out
    rd = wb_defs(rv)
    cd = wb_defs(cs)
    bad = [e for e, k in rd if k == "other"]
    tail = any("STAILQ_INSERT_TAIL" in e.macro for e in rv.all_elems())
    ok = bool(rd) and not bad and any(k == "last" for _, k in rd) and any(k == "fresh" for _, k in rd) and tail and bool(cd) and all(k == "last" for _, k in cd)
    rep.check(ok, "F9-samebuf", "reserve hands out space in the buffer consume will credit: the queue's last buffer or the one just appended", rv.loc,
              "buffer selections in netbuf_write_reserve: %s; in netbuf_write_consume: %s; appended at the tail: %s" % (
                  [(e.text[:30], k) for e, k in rd], [(e.text[:30], k) for e, k in cd], tail), function=rv.name, construct="samebuf")


def f5_compaction(rep, u, wt):
    """F5: moving the unconsumed bytes to the front of the buffer is the triple copy(datalen - bufpos bytes from
    &buf[bufpos]); datalen -= bufpos; bufpos = 0 -- in that order (adjusting the cursors first makes the copy a no-op and
    leaves stale bytes in place of the unconsumed ones)."""
    R = ("*", ("v", "R"))
    BUF, BUFLEN, BUFPOS, DATALEN = [(".", R, x) for x in ("buf", "buflen", "bufpos", "datalen")]
    # F5 compaction triples
    ntr = 0
    for f in (wt, u.func("netbuf_read_resize_buffer")):
        if f is None:
            rep.defer_broken("F5: netbuf_read_resize_buffer missing")
            continue
        for c in f.calls(("memmove", "memcpy")):
            src = strip_ids(norm(c.arg(1)))
            if src != ("&", ("[]", BUF, BUFPOS)):
                continue
            ntr += 1
            ln = strip_ids(norm(c.arg(2)))
            dec = [e for e in f.all_elems() if e.is_assign and e.op == "-=" and strip_ids(norm(e.kid(0))) == DATALEN and strip_ids(norm(e.kid(1))) == BUFPOS and f.dominates(c, e)]
            rst = [e for e in f.all_elems() if e.is_assign and e.op == "=" and strip_ids(norm(e.kid(0))) == BUFPOS and norm(e.kid(1)) == ("c", 0) and f.dominates(c, e)]
            ok = ln == ("-", DATALEN, BUFPOS) and len(dec) == 1 and len(rst) == 1 and f.dominates(dec[0], rst[0])
            # compaction inside one buffer moves overlapping bytes: it must be memmove
            if strip_ids(norm(c.arg(0))) == BUF:
                ok = ok and c.callee_real == "memmove"
            rep.check(ok, "F5-compact", "compaction in %s" % f.name, c.where,
                      "copy datalen - bufpos bytes from &buf[bufpos]; then datalen -= bufpos; then bufpos = 0 (in that order)",
                      function=f.name, construct="compact")
        # a function that resets the cursors (datalen -= bufpos; bufpos = 0) has moved the bytes first: the bookkeeping without the copy
        # keeps the lengths and loses the data
        adj = [e for e in f.all_elems() if e.is_assign and e.op == "-=" and strip_ids(norm(e.kid(0))) == DATALEN and strip_ids(norm(e.kid(1))) == BUFPOS]
        cps = [c for c in f.calls(("memmove", "memcpy")) if strip_ids(norm(c.arg(1))) == ("&", ("[]", BUF, BUFPOS))]
        for e in adj:
            rep.check(any(f.dominates(c, e) for c in cps), "F5-compact", "%s: the cursors are reset only after the unconsumed bytes were moved" % f.name, e.where,
                      "datalen -= bufpos with no copy from &buf[bufpos] before it", function=f.name, construct="compact-copy")
    if ntr < 2:
        rep.defer_broken("F5: fewer than 2 compaction sites")


def reader_window(prog, rep):
    """The relational window rules of netbuf_read.c alone (for the properties that are anchored in the reader too)."""
    u = prog.unit(RU)
    wt = u.func("netbuf_read_wait")
    if wt is None:
        raise cdb.AnalysisBroken("anchor missing: netbuf_read_wait")
    ls = launches(wt)
    if len(ls) != 2:
        rep.defer_broken("F4: expected two sibling transport launches in netbuf_read_wait")
        return
    reader_relational(prog, rep, u, wt, ls)
    f5_compaction(rep, u, wt)


def reader(prog, rep):
    u = prog.unit(RU)
    wt = u.func("netbuf_read_wait")
    if wt is None:
        raise cdb.AnalysisBroken("anchor missing: netbuf_read_wait")
    for fn in ("netbuf_read_wait", "netbuf_read_peek", "netbuf_read_consume", "callback_read", "callback_success", "netbuf_read_wait_cancel", "netbuf_read_resize_buffer"):
        g = u.func(fn)
        if g is None or not rep.names(g, "R"):
            return
    R = ("*", ("v", "R"))
    BUF, BUFLEN, BUFPOS, DATALEN = [(".", R, x) for x in ("buf", "buflen", "bufpos", "datalen")]
    ls = launches(wt)
    if len(ls) != 2:
        rep.defer_broken("F4: expected two sibling transport launches in netbuf_read_wait")
    reader_relational(prog, rep, u, wt, ls)
    reader_cancel(prog, rep, u, wt, ls)
    # immediate success exactly when enough data is buffered
    imm = list(wt.calls("events_immediate_register"))
    ok = len(imm) == 1 and norm(imm[0].arg(0)) == ("fn", "callback_success")
    if ok:
        have = ("-", norm_ids(DATALEN, wt), norm_ids(BUFPOS, wt))
        lenv = ("v", wt.params[1]["name"], wt.params[1]["id"])

        def edge_says(elem, want_op):
            for cond, truth in wt.edge_conds(elem):
                for op, L, Rr, _, _ in cond_atoms(cond, truth):
                    if L == have and Rr == lenv and op == want_op:
                        return True
            return False
        need = edge_says(imm[0], ">=")
        # and the launches are reached only through the other edge of that test
        lack = all(edge_says(c, "<") for c, _ in ls)
        ok = need and lack
    rep.check(ok, "F6-route", "wait: immediate success iff datalen - bufpos >= len", wt.loc,
              "a wait for k bytes reports success exactly when k unconsumed bytes are buffered, and reads otherwise", function=wt.name, construct="wait-cond")
    # peek and consume
    pk = u.func("netbuf_read_peek")
    st = {}
    for e in pk.all_elems():
        if e.is_assign and e.op == "=":
            st[strip_ids(norm(e.kid(0)))] = strip_ids(norm(e.kid(1)))
    want = {("*", ("v", pk.params[1]["name"])): ("&", ("[]", BUF, BUFPOS)), ("*", ("v", pk.params[2]["name"])): ("-", DATALEN, BUFPOS)}
    rep.check(st == want, "F4-window", "peek exposes [bufpos, datalen)", pk.loc, "stores: %s" % {show(k): show(v) for k, v in st.items()},
              function=pk.name, construct="peek")
    cs = u.func("netbuf_read_consume")
    adv = [e for e in cs.all_elems() if (e.is_assign or e.is_incdec) and norm(e.kid(0))[0] == "."]
    ok = len(adv) == 1 and adv[0].op == "+=" and strip_ids(norm(adv[0].kid(0))) == BUFPOS and norm(adv[0].kid(1))[1] == cs.params[1]["name"]
    rep.check(ok, "F4-window", "consume advances bufpos by len and touches nothing else", cs.loc, "bufpos += len", function=cs.name, construct="consume")
    # callback_read
    cr = u.func("callback_read")
    clears = [e for e in cr.all_elems() if e.is_assign and strip_ids(norm(e.kid(0))) == (".", R, "read_cookie") and norm(e.kid(1)) == ("c", 0)]
    ups = [c for c in cr.calls() if c.callee is None and fld(norm(c.kid(0)), "callback")]
    ok = len(clears) == 1 and all(cr.dominates(clears[0], c) for c in ups)
    rep.check(ok, "SLOT", "callback_read clears read_cookie before any upstream call", cr.loc, "", function=cr.name, construct="slot-clear")
    inret = all(any(r.kids and r.kid(0) is not None and r.kid(0).strip() is c for r in cr.returns()) for c in ups)
    # exactly one upstream call on every path to a return (however many call sites that takes): counted along the paths
    from ..dataflow import Solver as _Solver
    upset = set(id(c) for c in ups)
    _cs = _Solver(cr, (0, 0), lambda st, e: (min(st[0] + 1, 2), min(st[1] + 1, 2)) if id(e) in upset else st, None,
                  lambda a, b: (min(a[0], b[0]), max(a[1], b[1]))).run()
    one = all(_cs.state_before(r) in (None, (1, 1)) or (r.kids and r.kid(0) is not None and id(r.kid(0).strip()) in upset and _cs.state_before(r.kid(0).strip()) == (0, 0))
              for r in cr.returns())
    rep.check(bool(ups) and inret and one, "LIN", "callback_read: one upstream call per path, in return position", cr.loc, "found %d" % len(ups), function=cr.name, construct="lin")
    fxr = Facts(cr).solve()
    lp = ("v", cr.params[1]["name"], cr.params[1]["id"])
    routes = {}
    sites = []
    for c in ups:
        st_ = norm(c.arg(1))
        if st_[0] == "v":
            # the status handed over in a variable: what it was given, where (each assignment stands for a route)
            for e in cr.all_elems():
                if e.is_assign and e.op == "=" and norm(e.kid(0)) == st_ and cr.dominates(e, c) is not None:
                    sites.append((e, norm(e.kid(1))))
        else:
            sites.append((c, st_))
    for c, st_ in sites:
        if fxr.holds_before(c, "<", lp, ("c", 0)):
            routes["neg"] = st_
        elif fxr.holds_before(c, "==", lp, ("c", 0)):
            routes["zero"] = st_
        elif fxr.holds_before(c, ">", lp, ("c", 0)):
            routes["pos"] = st_
    rep.check(routes == {"neg": ("c", -1), "zero": ("c", 1), "pos": ("c", 0)}, "F6-route", "callback_read status routing", cr.loc,
              "transport answer <0 -> -1, ==0 -> 1 (end of stream), >0 -> 0; found %s" % {k: show(v) for k, v in routes.items()},
              function=cr.name, construct="routing")
    adv = [e for e in cr.all_elems() if (e.is_assign or e.is_incdec) and strip_ids(norm(e.kid(0))) == DATALEN]
    ok = len(adv) == 1 and adv[0].op == "+=" and norm(adv[0].kid(1)) == lp and fxr.holds_before(adv[0], ">", lp, ("c", 0))
    others = [e for e in cr.all_elems() if (e.is_assign or e.is_incdec) and norm(e.kid(0))[0] == "." and norm(e.kid(0))[2] in ("bufpos", "buflen", "buf")]
    rep.check(ok and not others, "F4-window", "callback_read: datalen += lenread on the data path only", cr.loc,
              "the write pointer grows by exactly the transport's answer; bufpos/buf/buflen untouched", function=cr.name, construct="datalen-adv")
    # callback_success
    csu = u.func("callback_success")
    clears = [e for e in csu.all_elems() if e.is_assign and strip_ids(norm(e.kid(0))) == (".", R, "immediate_cookie") and norm(e.kid(1)) == ("c", 0)]
    ups = [c for c in csu.calls() if c.callee is None and fld(norm(c.kid(0)), "callback")]
    ok = len(clears) == 1 and len(ups) == 1 and csu.dominates(clears[0], ups[0]) and norm(ups[0].arg(1)) == ("c", 0)
    rep.check(ok, "SLOT", "callback_success clears immediate_cookie, then reports 0 once", csu.loc, "", function=csu.name, construct="slot-clear")
    # cancel
    cn = u.func("netbuf_read_wait_cancel")
    fxc = Facts(cn).solve()
    for slot, canc in (("read_cookie", "network_read_cancel"), ("immediate_cookie", "events_immediate_cancel")):
        cc = [c for c in cn.calls(canc)]
        ok = len(cc) == 1 and fld(norm(cc[0].arg(0)), slot) and fxc.holds_before(cc[0], "!=", norm(cc[0].arg(0)), ("c", 0))
        clr = [e for e in cn.all_elems() if e.is_assign and fld(norm(e.kid(0)), slot) and norm(e.kid(1)) == ("c", 0)]
        ok = ok and len(clr) == 1 and cn.always_passes(cc[0], clr[0])
        rep.check(ok, "SLOT", "wait_cancel: %s cancelled with %s under a slot test, then cleared" % (slot, canc), cn.loc, "",
                  function=cn.name, construct="cancel:" + slot)
    f5_compaction(rep, u, wt)
    # resize allocates at least len and adopts the new buffer
    rz = u.func("netbuf_read_resize_buffer")
    if rz is not None:
        fxz = Facts(rz).solve()
        m = list(rz.calls("malloc"))
        lenp = ("v", rz.params[1]["name"], rz.params[1]["id"])
        ok = len(m) == 1 and fxz.holds_before(m[0], ">=", norm(m[0].arg(0)), lenp)
        adopt = [e for e in rz.all_elems() if e.is_assign and strip_ids(norm(e.kid(0))) == BUFLEN and norm(e.kid(1)) == norm(m[0].arg(0))] if m else []
        rep.check(ok and len(adopt) == 1, "F5-compact", "resize: new buffer holds at least len and its size is recorded", rz.loc, "",
                  function=rz.name, construct="resize")


def norm_ids(n, f):
    """Re-attach the id of the function's variable named like the placeholder."""
    if isinstance(n, tuple):
        if n and n[0] == "v" and len(n) == 2:
            for p in f.params:
                if p["name"] == n[1]:
                    return ("v", n[1], p["id"])
            return n
        return tuple(norm_ids(k, f) for k in n)
    return n


def reserve_room_rule(prog, rep):
    """F9-room: the space netbuf_write_reserve hands out is inside the buffer it points into.  A pointer into the queue's last
    buffer, &B->buf[B->datalen], is returned only under a test that B's *own* capacity leaves room: B->buflen - B->datalen >= len
    (or the same with the terms moved); a new buffer is returned only with buf = malloc(buflen), datalen = 0 and buflen >= len
    provable where it is returned (sa/poly.py; rounding up by masking is followed)."""
    from .. import poly
    from ..poly import Lin
    u = prog.unit(WU)
    f = u.func("netbuf_write_reserve")
    if f is None:
        raise cdb.AnalysisBroken("anchor missing: netbuf_write_reserve")
    LEN = ("v", f.params[1]["name"], f.params[1]["id"])
    A = poly.Analysis(f, quiet={"malloc", "free"}, unsigned_terms={LEN}).run()
    n = 0
    for r in f.returns():
        v = norm(r.kid(0)) if r.kids else None
        if v is None or v == ("c", 0):
            continue
        n += 1
        if v[0] == "&" and v[1][0] == "[]":
            base, idx = v[1][1], v[1][2]           # B->buf, B->datalen
            obj = base[1] if base[0] == "." else None
            cap = (".", obj, "buflen") if obj is not None else None
            gs = [(op, L, R) for cond, truth in f.edge_conds(r) for op, L, R, _, _ in cond_atoms(cond, truth)]
            ok = obj is not None and idx == (".", obj, "datalen") and any(
                (op == ">=" and L == ("-", cap, idx) and R == LEN) or (op == "<=" and R == cap and L in (("+", idx, LEN), ("+", LEN, idx))) or
                (op == "<=" and L == LEN and R == ("-", cap, idx)) for op, L, R in gs)
            rep.check(ok, "F9-room", "netbuf_write_reserve: space in the queue's last buffer is handed out only when that buffer has it", r.where,
                      "no controlling test `%s - %s >= len` of the buffer returned (conditions: %s)" % (show(cap) if cap else "?", show(idx), [(op, show(L), show(R)) for op, L, R in gs][:4]),
                      function=f.name, construct="room-old")
        else:
            obj = v[1] if v[0] == "." else None
            st = A.state_before(r)
            cap = A.lin_term((".", obj, "buflen"), st) if (obj is not None and hasattr(A, "lin_term")) else None
            if cap is None and obj is not None:
                cap = Lin.var((".", obj, "buflen"))
            ok = st is not None and obj is not None and A.holds(st, ">=", cap, Lin.var(LEN))
            sized = [c for c in f.calls("malloc") if c.arg(0) is not None and obj is not None and norm(c.arg(0)) == (".", obj, "buflen")]
            zero = [e for e in f.all_elems() if e.is_assign and e.op == "=" and obj is not None and norm(e.kid(0)) == (".", obj, "datalen") and norm(e.kid(1)) == ("c", 0) and f.dominates(e, r)]
            rep.check(ok and bool(sized) and bool(zero), "F9-room", "netbuf_write_reserve: a new buffer is at least as large as the reservation", r.where,
                      "buflen >= len shown: %s; buf = malloc(buflen): %s; datalen = 0 before the return: %s" % (ok, bool(sized), bool(zero)), function=f.name, construct="room-new")
    return n


def run(tier):
    rep = report.Report("C07", tier,
        "Decided on every path of netbuf_write.c and netbuf_read.c: the sticky failure flag and its guards (F1), in-flight buffer "
        "detachment and exact release (F2), the transport is never asked for zero bytes (F3; the reader's instance is an assumption), "
        "slot discipline of the three pending-operation fields (SLOT), the reader/writer window expressions handed to the transport, "
        "to peek and to reserve (F4), the order of the compaction triple (F5), status routing and the immediate-success condition (F6); "
        "and for the transport underneath (network_read.c, network_write.c) the would-block set, end-of-stream routing, transfer window and "
        "the cumulative byte count reported on completion (N2, N3, N5, LIN; shared with C06). "
        "These are necessary conditions of stream preservation. Not decided: the refinement itself (that the concatenation of windows "
        "equals the stream for every history), growth arithmetic.",
        trusted=["network_read/network_write contracts (C06)", "STAILQ macros"])
    configs = [cdb.HOST]
    if tier == "thorough":
        configs.append(cdb.Config("host-ndebug", extra=["-DNDEBUG"]))
    for cfg in configs:
        prog = ir.Program([WU, RU], cfg)
        rep.add_stats(prog)
        writer(prog, rep)
        writer_samebuf(prog, rep)
        from . import c14 as _c14
        if reserve_room_rule(prog, rep) < 2:
            rep.defer_broken("F9: netbuf_write_reserve has fewer than two returns that hand out space")
        _c14.reserve_flag_rule(prog, rep)      # the reservation mark: set by a successful reserve, cleared by consume, gone after a failed reserve
        orphan_rule(prog, rep)
        reader(prog, rep)
        # the transport below the buffers is part of this property's anchored code: a wrong byte count reported by
        # network_write / network_read breaks the stream seen through netbuf (C06's rules, shared)
        from . import c06
        # a completed transport operation's handle is dropped before anything can cancel through it
        c06.borrow_ref_rule(prog, rep, [WU, RU])
        if c06.handle_clear_rule(prog, rep, [WU, RU]) < 3:
            rep.defer_broken("SLOT: fewer than 3 (handle field, completion callback) pairs found in the buffered reader/writer")
        tprog = ir.Program(list(TRANSPORT), cfg)
        rep.add_stats(tprog)
        for up in TRANSPORT:
            rec, rel, ctor, cancel = c06.UNITS[up]
            L, kinds = c06.lin_rule(tprog, rep, up, rec, rel)
            c06.cancel_rule(tprog, rep, up, rec, ctor, cancel, L, kinds)     # tearing the writer down must not take the reader's registration with it
            c06.n2_n3(tprog, rep, up, L)
            c06.n5(tprog, rep, up, L)
            c06.n6_relational(tprog, rep, up, L)
    n = len(configs)
    rep.require_min("N5", 10 * n)
    rep.require_min("N2", 4 * n)
    rep.require_min("F1-launch", 2 * n)
    rep.require_min("F4-window", 8 * n)
    rep.require_min("SLOT", 5 * n)
    return rep
