"""C19 — AWS Signature Version 4: template and provenance clauses.

A1  one clock sample per signing function; both strftime calls format gmtime_r of
    that same sample with %Y%m%d / %Y%m%dT%H%M%SZ into 9 / 17 byte buffers
A2  the key-derivation chain of aws_sign: "AWS4"+secret -> date -> region ->
    service -> "aws4_request" -> string-to-sign, each HMAC keyed by the previous
    output (32 bytes); the string-to-sign template and its argument order
A3  canonical request self-consistency per variant: header names lower case,
    sorted, equal to the signed-headers line, which equals SignedHeaders= in the
    result; credential scope in the result equals the one signed; the payload
    hash is hex(SHA-256(body, body ? bodylen : 0)) and is what is returned; the
    returned timestamp is the signed one; query-string parameters sorted and
    identical in request and result apart from the appended signature
"""
import re
from .. import cdb, ir, report
from ..ir import norm, show, root_var, subterms

UNIT = "aws/aws_sign.c"


def render(call, fmt_index):
    """Render a printf-style call as a template: %s/%d arguments become <name> tokens."""
    f = call.arg(fmt_index).strip()
    if f is None or f.strv is None:
        return None
    fmt = f.strv.decode("latin1")
    out = []
    ai = fmt_index + 1
    i = 0
    while i < len(fmt):
        if fmt[i] != "%":
            out.append(fmt[i]); i += 1; continue
        if fmt[i + 1] == "%":
            out.append("%"); i += 2; continue
        m = re.match(r"%[-+ #0]*\d*(?:\.\d+)?(?:hh|h|ll|l|z|j|t)?([sdiuxXc])", fmt[i:])
        if not m:
            return None
        a = call.arg(ai)
        ai += 1
        an = norm(a) if a is not None else ("?",)
        tok = an[1].decode("latin1") if an[0] == "s" else "<%s>" % show(an)
        out.append(tok)
        i += len(m.group(0))
    return "".join(out)


def a1(prog, rep, f):
    ts = list(f.calls("time"))
    sf = sorted(f.calls("strftime"), key=lambda c: c.line)
    ok = len(ts) == 1 and len(sf) == 2
    if ok:
        tv = norm(ts[0].arg(0))
        fm = [(c.arg(2).strip().strv or b"").decode() for c in sf]
        sz = [norm(c.arg(1)) for c in sf]
        bufs = [c.arg(0) for c in sf]
        bsz = []
        for b in bufs:
            e = b
            while e is not None and e.cls in ("ImplicitCastExpr", "CStyleCastExpr"):
                if e.op == "ArrayToPointerDecay":
                    bsz.append((f.unit.types.get(e.kid(0).ty) or {}).get("size"))
                e = e.kid(0)
        gm = []
        for c in sf:
            g = c.arg(3).strip()
            gm.append(g.callee == "gmtime_r" and norm(g.arg(0)) == tv)
        ok = fm == ["%Y%m%d", "%Y%m%dT%H%M%SZ"] and sz == [("c", 9), ("c", 17)] and bsz == [9, 17] and all(gm) and all(f.dominates(ts[0], c) for c in sf)
        ok = ok and [show(norm(b)) for b in bufs] == ["date", "datetime"]
        # time() failure is tested
        ok = ok and any(op == "==" and L[0] == "call" and L[1] == "time" for b in f.blocks.values() if b.cond is not None for op, L, R, _, _ in __import__("sa.dataflow", fromlist=["cond_atoms"]).cond_atoms(b.cond, True))
    rep.check(ok, "A1-clock", "%s: one clock sample, date and datetime formatted from it (UTC)" % f.name, f.loc, "", function=f.name, construct="clock")


def a2(prog, rep):
    u = prog.unit(UNIT)
    f = u.func("aws_sign")
    if f is None:
        raise cdb.AnalysisBroken("anchor missing: aws_sign")
    if not rep.names(f, "key_secret", "date", "datetime", "region", "service", "creq", "sigbuf"):
        return
    hm = sorted(f.calls("HMAC_SHA256_Buf"), key=lambda c: c.line)
    got = [tuple(show(norm(a)).replace(" ", "") for a in c.args) for c in hm]
    want = [("AWS4_key", "strlen(AWS4_key)", "date", "strlen(date)", "kDate"),
            ("kDate", "32", "region", "strlen(region)", "kRegion"),
            ("kRegion", "32", "service", "strlen(service)", "kService"),
            ("kService", "32", "b'aws4_request'", "12", "kSigning"),
            ("kSigning", "32", "STS", "strlen(STS)", "hmac")]
    # local names may differ: compare by chaining instead of by name
    ok = len(hm) == 5
    detail = ""
    if ok:
        outs = [norm(c.arg(4)) for c in hm]
        keys = [norm(c.arg(0)) for c in hm]
        klen = [norm(c.arg(1)) for c in hm]
        data = [norm(c.arg(2)) for c in hm]
        dlen = [norm(c.arg(3)) for c in hm]
        P = {p["name"]: ("v", p["name"], p["id"]) for p in f.params}
        chain = all(keys[i + 1] == outs[i] and klen[i + 1] == ("c", 32) for i in range(4))
        sizes = all((u.types.get(f_ty) or {}).get("size") == 32 for f_ty in [d["ty"] for e in f.all_elems() if e.cls == "DeclStmt" for d in (e.decls or []) if ("v", d["name"], d["id"]) in outs])
        d_ok = data[0] == P["date"] and data[1] == P["region"] and data[2] == P["service"] and data[3] == ("s", b"aws4_request")
        l_ok = all(dlen[i] == ("call", "strlen", data[i]) for i in (0, 1, 2, 4)) and dlen[3] in (("call", "strlen", data[3]), ("c", 12))
        k0 = klen[0] == ("call", "strlen", keys[0])
        ap = [c for c in f.calls("asprintf")]
        first = [c for c in ap if norm(c.arg(0)) == ("&", keys[0])]
        k0 = k0 and len(first) == 1 and render(first[0], 1) == "AWS4<key_secret>" and f.dominates(first[0], hm[0])
        sts = [c for c in ap if norm(c.arg(0)) == ("&", data[4])]
        sts_ok = len(sts) == 1 and f.dominates(sts[0], hm[4])
        hx = [c for c in f.calls("hexify") if norm(c.arg(0)) == outs[4]]
        fin = len(hx) == 1 and norm(hx[0].arg(1)) == P["sigbuf"] and norm(hx[0].arg(2)) == ("c", 32) and f.dominates(hm[4], hx[0])
        ok = chain and sizes and d_ok and l_ok and k0 and sts_ok and fin
        detail = "chain %s sizes %s data %s lengths %s first-key %s sts %s final %s" % (chain, sizes, d_ok, l_ok, k0, sts_ok, fin)
    rep.check(ok, "A2-chain", "aws_sign: HMAC chain AWS4+secret -> date -> region -> service -> aws4_request -> string to sign", f.loc, detail, function="aws_sign", construct="chain")
    # string to sign
    if ok:
        t = render(sts[0], 1)
        sh = [c for c in f.calls("SHA256_Buf")]
        hx2 = [c for c in f.calls("hexify") if sh and norm(c.arg(0)) == norm(sh[0].arg(2))]
        ok2 = len(sh) == 1 and norm(sh[0].arg(0)) == P["creq"] and norm(sh[0].arg(1)) == ("call", "strlen", P["creq"]) and len(hx2) == 1 and norm(hx2[0].arg(2)) == ("c", 32)
        hname = show(norm(hx2[0].arg(1))) if hx2 else "?"
        want_t = "AWS4-HMAC-SHA256\n<datetime>\n<date>/<region>/<service>/aws4_request\n<%s>" % hname
        rep.check(ok2 and t == want_t and f.dominates(hx2[0], sts[0]), "A2-chain", "string to sign = algorithm, timestamp, scope, hex(SHA-256(canonical request))", sts[0].where,
                  "rendered %r" % t, function="aws_sign", construct="sts")


def a3_headers(prog, rep, f, service_expr):
    """service_expr: how the service appears in the scope ('s3', 'dynamodb' literal or '<svc>')."""
    if not rep.names(f, "key_id", "key_secret", "region", "body", "bodylen", "x_amz_content_sha256", "x_amz_date", "authorization"):
        return
    ap = sorted(f.calls("asprintf"), key=lambda c: c.line)
    if len(ap) != 2:
        rep.bad("A3-canonical", "%s: canonical request and authorization header" % f.name, f.loc, "expected two asprintf calls, found %d" % len(ap), function=f.name, construct="templates")
        return
    creq, auth = render(ap[0], 1), render(ap[1], 1)
    lines = creq.split("\n")
    ok = len(lines) >= 7
    problems = []
    if ok:
        payload = lines[-1]
        signed = lines[-2]
        blank = lines[-3]
        headers = lines[3:-3]
        names = [h.split(":", 1)[0] for h in headers]
        if blank != "":
            problems.append("no blank line after the header block")
        if lines[2] != "":
            problems.append("query string line is %r, expected empty" % lines[2])
        if names != sorted(names) or any(n != n.lower() for n in names):
            problems.append("header names %s are not lower-case and sorted" % names)
        if ";".join(names) != signed:
            problems.append("signed-headers line %r differs from the header block %s" % (signed, names))
        m = re.search(r"SignedHeaders=([^,]*),", auth)
        if not m or m.group(1) != signed:
            problems.append("SignedHeaders= in the Authorization header differs from the signed line")
        hv = dict(h.split(":", 1) for h in headers)
        if hv.get("x-amz-date") != "<datetime>":
            problems.append("x-amz-date header is %r, expected the formatted timestamp" % hv.get("x-amz-date"))
        if hv.get("x-amz-content-sha256") != payload:
            problems.append("payload hash line %r differs from the x-amz-content-sha256 header" % payload)
        if not hv.get("host", "").endswith(".amazonaws.com"):
            problems.append("host header %r" % hv.get("host"))
        # scope
        sg = [c for c in f.calls("aws_sign")]
        if len(sg) != 1:
            problems.append("aws_sign call count %d" % len(sg))
        else:
            a = [norm(x) for x in sg[0].args]
            svc = a[4][1].decode() if a[4][0] == "s" else "<%s>" % show(a[4])
            scope = "<date>/<region>/%s/aws4_request" % svc
            m2 = re.search(r"Credential=<key_id>/(.*?),", auth)
            if not m2 or m2.group(1) != scope:
                problems.append("credential scope in the result %r differs from the signed scope %r" % (m2.group(1) if m2 else None, scope))
            if [show(x) for x in a[:4]] != ["key_secret", "date", "datetime", "region"] or show(a[5]) != show(norm(ap[0].arg(0)))[1:] or not auth.endswith("Signature=<%s>" % show(a[6])):
                problems.append("aws_sign arguments / signature buffer do not line up with the templates")
            # host names the same service/region as the scope
            if svc.strip("<>") not in hv.get("host", "") or (svc != "s3" and "<region>" not in hv.get("host", "")):
                problems.append("host header %r does not name the signed service/region" % hv.get("host"))
        if not auth.startswith("AWS4-HMAC-SHA256 Credential="):
            problems.append("Authorization header does not start with the algorithm and credential")
        # payload hash provenance
        sh = list(f.calls("SHA256_Buf"))
        okp = len(sh) == 1 and show(norm(sh[0].arg(0))) == "body" and show(norm(sh[0].arg(1))).replace(" ", "") in ("?:(body,bodylen,0)", "?:((body!=0),bodylen,0)")
        hx = [c for c in f.calls("hexify") if sh and norm(c.arg(0)) == norm(sh[0].arg(2))]
        okp = okp and len(hx) == 1 and "<%s>" % show(norm(hx[0].arg(1))) == payload and norm(hx[0].arg(2)) == ("c", 32)
        if not okp:
            problems.append("payload hash is not hexify(SHA256_Buf(body, body ? bodylen : 0))")
        # returned values
        ret = {}
        for e in f.all_elems():
            if e.is_assign and e.op == "=" and norm(e.kid(0))[0] == "*" and e.kid(1).strip().cls == "CallExpr" and e.kid(1).strip().callee == "strdup":
                ret[show(norm(e.kid(0)))] = "<%s>" % show(norm(e.kid(1).strip().arg(0)))
        if ret != {"*x_amz_content_sha256": payload, "*x_amz_date": "<datetime>"}:
            problems.append("returned headers %s are not the signed payload hash and timestamp" % ret)
        if show(norm(ap[1].arg(0))) != "authorization":
            problems.append("authorization header is not written to the caller's pointer")
    else:
        problems.append("canonical request has %d lines" % len(lines))
    rep.check(not problems, "A3-canonical", "%s: canonical request / Authorization header self-consistency" % f.name, ap[0].where, "; ".join(problems) or "ok", function=f.name, construct="canonical")
    return creq


def a3_query(prog, rep, f):
    if not rep.names(f, "key_id", "key_secret", "region", "method", "bucket", "path", "expiry"):
        return
    ap = sorted(f.calls("asprintf"), key=lambda c: c.line)
    problems = []
    if len(ap) != 2:
        problems.append("expected two asprintf calls")
    else:
        creq, res = render(ap[0], 1), render(ap[1], 1)
        lines = creq.split("\n")
        if len(lines) != 7:
            problems.append("canonical request has %d lines" % len(lines))
        else:
            q = lines[2]
            params = [p.split("=", 1)[0] for p in q.split("&")]
            if params != sorted(params):
                problems.append("query parameters %s are not sorted" % params)
            if not res.startswith(q + "&X-Amz-Signature=<"):
                problems.append("the returned query string is not the signed one plus the signature")
            if lines[3] != "host:<bucket>.s3.amazonaws.com" or lines[4] != "" or lines[5] != "host" or lines[6] != "UNSIGNED-PAYLOAD":
                problems.append("header block / signed headers / payload lines are %r" % lines[3:])
            if "X-Amz-SignedHeaders=host" not in q or "X-Amz-Algorithm=AWS4-HMAC-SHA256" not in q:
                problems.append("algorithm or signed-headers parameter missing")
            m = re.search(r"X-Amz-Credential=<key_id>%2F(.*?)&", q)
            sg = list(f.calls("aws_sign"))
            if len(sg) != 1:
                problems.append("aws_sign call count")
            else:
                a = [norm(x) for x in sg[0].args]
                svc = a[4][1].decode() if a[4][0] == "s" else "<%s>" % show(a[4])
                scope = "<date>%%2F<region>%%2F%s%%2Faws4_request" % svc
                if not m or m.group(1) != scope.replace("%%", "%"):
                    problems.append("credential scope %r differs from the signed scope" % (m.group(1) if m else None))
                if [show(x) for x in a[:4]] != ["key_secret", "date", "datetime", "region"]:
                    problems.append("aws_sign arguments")
                if not res.endswith("X-Amz-Signature=<%s>" % show(a[6])):
                    problems.append("signature buffer")
            if "X-Amz-Date=<datetime>" not in q or "X-Amz-Expires=<expiry>" not in q:
                problems.append("date / expiry parameters")
            if lines[0] != "<method>" or lines[1] != "<path>":
                problems.append("method/path lines")
    rep.check(not problems, "A3-canonical", "%s: presigned query string self-consistency" % f.name, f.loc, "; ".join(problems) or "ok", function=f.name, construct="canonical")


def a3_stable(prog, rep, f):
    """The templates are compared by the names of their arguments, which stands for equality of values only while no name
    changes its value between two of its uses: no variable handed to the formatting / hashing / signing calls is assigned
    after one such use and before another (a parameter normalised before its first use is untouched by this)."""
    def after(a, b):
        return (a.block.id == b.block.id and b.i > a.i) or b.block.id in f.reach_from(a.block.id)
    calls = [c for c in f.calls() if c.callee]
    n = 0
    for e in f.all_elems():
        if not (e.is_assign or e.is_incdec):
            continue
        t = norm(e.kid(0))
        if t[0] != "v":
            continue
        n += 1
        uses = [c for c in calls if any(a is not None and t in set(subterms(norm(a))) for a in c.args) and not (e.is_assign and c.pos == getattr(e.kid(1).strip(), "pos", None))]
        before = [c for c in uses if after(c, e)]
        later = [c for c in uses if after(e, c)]
        if before and later:
            rep.bad("A3-stable", "%s: %s keeps one value across its uses" % (f.name, t[1]), e.where,
                    "%s is used by %s(...) at line %d, assigned here, and used again by %s(...) at line %d: what is signed and what is returned differ"
                    % (t[1], before[0].callee, before[0].line, later[0].callee, later[0].line), function=f.name, construct="reassigned:" + t[1])
    rep.ok("A3-stable", "%s: no argument of the signing calls changes value between two uses" % f.name, f.loc, "%d assignments to variables examined" % n)


def a4_pure(prog, rep):
    """A signature is a function of the call's arguments and the clock sample only: the signing code keeps no state
    between calls (a cached key or scope would make the result depend on call history)."""
    u = prog.unit(UNIT)
    muts = [g for g in u.globals if g.get("file") == UNIT and not g.get("const") and g.get("isdef")]
    rep.check(not muts, "A4-stateless", "aws_sign.c defines no mutable file-scope or static-local state", UNIT,
              "%s" % [(g["name"], g["loc"]) for g in muts], function="aws_sign.c", construct="static-state")
    wr = []
    for f in u.funcs:
        if f.file != UNIT:
            continue
        for e in f.all_elems():
            if (e.is_assign or e.is_incdec):
                r = root_var(norm(e.kid(0)))
                if r is not None:
                    d = [x for x in f.all_elems() if x.cls == "DeclRefExpr" and x.decl and x.decl.get("id") == r[2]]
                    if d and d[0].decl.get("kind") in ("global", "staticlocal"):
                        wr.append(e)
    rep.check(not wr, "A4-stateless", "no signing function writes a global or static variable", UNIT, "%s" % [e.loc for e in wr], function="aws_sign.c", construct="static-write")


def a5_format(cfg, rep):
    """util/asprintf.c (every template of this property goes through it): the string handed back is the complete formatted
    string.  vsnprintf answers the length L the full output needs whatever space it was given (trusted C semantics, one L per
    function since every pass formats the same format and arguments); so for every pass that writes somewhere, either the space
    given is at least L + 1 where the pass is made, or every later use of what it wrote is reached only with L + 1 <= space
    (sa/poly.py decides the inequalities; the allocation handed out is at least the space given)."""
    from .. import poly
    from ..poly import Lin
    up = "util/asprintf.c"
    prog = ir.Program([up], cfg)
    rep.add_stats(prog)
    u = prog.unit(up)
    f = u.func("asprintf") or u.func("libcperciva_asprintf")
    if f is None:
        raise cdb.AnalysisBroken("anchor missing: asprintf in %s" % up)
    L = Lin.var(("$fmtlen",))
    SPACE = Lin.var(("$space",))

    def contract(A, call, st, cs):
        r = Lin.var(("$ret", A.f.name, call.pos))
        d = norm(call.arg(0))
        while d[0] == "cast":
            d = d[1]
        if d != ("c", 0):
            # a pass that writes: $space is the space the latest such pass was given
            cs = A._kill(list(cs), lambda v: v == ("$space",))
            sz = A.lin(call.arg(1), st)
            if sz is not None:
                cs = list(cs) + poly.cons("==", SPACE, sz)
        return [list(cs) + poly.cons("==", r, L) + poly.cons(">=", L, Lin.const(0)), list(cs) + poly.cons("<=", r, Lin.const(-1))]
    A = poly.Analysis(f, quiet={"vsnprintf", "malloc", "strdup", "free", "__builtin_va_start", "__builtin_va_end"}, post={"vsnprintf": contract}).run()
    passes = sorted(f.calls("vsnprintf"), key=lambda c: c.line)
    if not passes:
        raise cdb.AnalysisBroken("asprintf no longer formats with vsnprintf: the completeness rule has nothing to decide")
    def after(a, b):
        """element b may execute after element a"""
        return (a.block.id == b.block.id and b.i > a.i) or b.block.id in f.reach_from(a.block.id)
    writing = 0
    for c in passes:
        dst = norm(c.arg(0))
        while dst[0] == "cast":
            dst = dst[1]
        if dst == ("c", 0):
            continue
        writing += 1
        st = A.state_before(c)
        size = A.lin(c.arg(1), st)
        inst = "vsnprintf(%s, %s, ...)" % (show(dst), show(norm(c.arg(1))))
        if size is None:
            rep.bad("A5-format", inst, c.where, "the space given is not a linear quantity the analysis can follow", function=f.name, construct="space")
            continue
        # the space given does not exceed the object written
        root = root_var(dst)
        obj = None
        if dst[0] == "v":
            d = [x for x in f.all_elems() if x.cls == "DeclRefExpr" and x.decl and x.decl.get("id") == dst[2]]
            t = u.types.get(d[0].ty) if d else None
            if t and t.get("kind") == "array":
                obj = Lin.const(t.get("size") or 0)
        if obj is None:
            # heap: the allocation stored into the same lvalue
            for e in f.all_elems():
                if e.is_assign and e.op == "=" and norm(e.kid(0)) == dst:
                    r = e.kid(1).strip()
                    if r is not None and r.cls == "CallExpr" and r.callee == "malloc" and f.dominates(e, c):
                        obj = A.lin(r.arg(0), A.state_before(r))
        okobj = obj is not None and A.holds(st, "<=", size, obj)
        rep.check(okobj, "A5-format", inst + ": the space given is within the object written", c.where,
                  "space %s, object %s" % (size, obj), function=f.name, construct="object")
        if A.holds(st, ">=", size, L + Lin.const(1)):
            rep.ok("A5-format", inst + ": complete", c.where, "space >= formatted length + 1 where the pass is made")
            continue
        # otherwise: every later use of what was written needs L + 1 <= the space the latest writing pass was given ($space)
        uses = []
        for e in f.all_elems():
            if e.cls == "CallExpr" and e.pos != c.pos and e.callee not in ("free",) and after(c, e):
                for i, a in enumerate(e.args):
                    if a is None:
                        continue
                    r = root_var(norm(a))
                    if r is not None and root is not None and r == root and not (e.callee == "vsnprintf" and i == 0):
                        uses.append(e)
        if root is not None and root[0] == "v" and any(p["id"] == root[2] for p in f.params):
            uses += [r for r in f.returns() if norm(r.kid(0)) != ("c", -1) and after(c, r)]
        uses = [e for e in uses if not (e.cls == "CallExpr" and e.callee == "realloc")]
        bad = [e for e in uses if A.state_before(e) is not None and not A.holds(A.state_before(e), ">=", SPACE, L + Lin.const(1))]
        rep.check(not bad, "A5-format", inst + ": complete wherever its output is used (%d uses)" % len(uses), (bad[0].where if bad else c.where),
                  "the output is used where the formatted length may reach the space the last pass was given (%s here): the string is cut short" % size,
                  function=f.name, construct="truncation")
    if not writing:
        raise cdb.AnalysisBroken("asprintf: no formatting pass writes anywhere")
    # what is returned on success is the formatted length
    for r in f.returns():
        v = norm(r.kid(0))
        if v == ("c", -1):
            continue
        st = A.state_before(r)
        l = A.lin(r.kid(0), st)
        rep.check(l is not None and A.holds(st, "==", l, L), "A5-format", "asprintf returns the formatted length", r.where,
                  "returned %s" % show(v), function=f.name, construct="length")
    # an empty result is a result: no test of a pass's answer that is true for 0 leads only to the failure returns
    from ..dataflow import decide_with
    holders = set()
    for e in f.all_elems():
        if e.is_assign and e.op == "=" and e.kid(1) is not None and e.kid(1).strip() is not None and e.kid(1).strip().cls == "CallExpr" and e.kid(1).strip().callee == "vsnprintf":
            holders.add(norm(e.kid(0)))
    for b in f.blocks.values():
        if b.cond is None or len(b.succs) != 2:
            continue
        for h in holders:
            for val, sx in ((True, b.succs[0]), (False, b.succs[1])):
                if decide_with(b.cond, h, 0) is val and decide_with(b.cond, h, -1) is not None and sx is not None:
                    vals, _ = f.returns_from(sx)
                    bad = bool(vals) and all(v is not None and v[0] == "c" and v[1] < 0 for v in vals)
                    rep.check(not bad, "A5-format", "asprintf: a zero-length output is not a failure (`%s`)" % b.cond.text[:30], b.cond.where,
                              "with the pass's answer 0 this test leads only to `return (-1)`: formatting an empty string fails", function=f.name, construct="empty-ok")


def run(tier):
    rep = report.Report("C19", tier,
        "Decided: one clock sample formatted twice in UTC (A1); the HMAC key chain and the string-to-sign template of aws_sign with "
        "buffer provenance (A2); for each of the four variants the rendered templates are self-consistent: header names lower-case, "
        "sorted and equal to the signed-headers line and to SignedHeaders= in the result, the credential scope in the result equals "
        "the scope signed and the date is the date part of the timestamp's sample, the payload hash is hex(SHA-256(body)) and is what "
        "is returned, query parameters sorted and returned unchanged plus the signature (A3); no argument of the templates changes value between two "
        "uses (A3-stable); util/asprintf.c hands back the complete formatted string (A5, relational); hexify's table and layout (C17's rules). Error paths are C14's. "
        "Not decided: HMAC/SHA-256 values (C01), percent-encoding (the interface does none).",
        trusted=["strftime/gmtime_r", "HMAC_SHA256_Buf/SHA256_Buf/hexify (C01, C17)"])
    prog = ir.Program([UNIT, "alg/sha256.c", "alg/sha1.c", "alg/md5.c"], cdb.HOST)
    rep.add_stats(prog)
    u = prog.unit(UNIT)
    a2(prog, rep)
    a4_pure(prog, rep)
    # the signature is HMAC-SHA256 all the way down: the spec-fixed HMAC/SHA-256 structure is part of this property's
    # necessary conditions (rules shared with C01)
    from . import c01
    c01.sha256(prog, rep)
    c01.k2_k3_k6(prog, rep)
    c01.k7_regions(prog, rep)       # scratch regions handed to the HMAC helpers are large enough and disjoint (long keys)
    c01.k10_encap(prog, rep)
    c01.k11_vect(prog, rep, only=("alg/sha256.c",))
    c01.ctx_typestate(prog, rep, [UNIT, "alg/sha256.c"])
    # a signing function that cannot allocate must fail, not return success with the signature buffer unwritten (rule shared with C14)
    from . import c14
    c14.reported_rule(prog, rep, only_files=(UNIT,))
    c14.leak_rules(prog, rep, only_files=(UNIT,))
    a5_format(cdb.HOST, rep)
    # every hash and signature is printed by hexify (anchor of this property): table, nibble order, output layout (rules shared with C17)
    from . import c17
    hp = ir.Program(["util/hexify.c"], cdb.HOST)
    rep.add_stats(hp)
    c17.t2_hexify(hp, rep)
    variants = {"aws_sign_s3_headers": "hdr", "aws_sign_svc_headers": "hdr", "aws_sign_dynamodb_headers": "hdr", "aws_sign_s3_querystr": "qs"}
    for name, kind in variants.items():
        f = u.func(name)
        if f is None:
            raise cdb.AnalysisBroken("anchor missing: %s" % name)
        if not rep.names(f, "t_now", "date", "datetime"):
            continue
        a1(prog, rep, f)
        a3_stable(prog, rep, f)
        if kind == "hdr":
            a3_headers(prog, rep, f, None)
        else:
            a3_query(prog, rep, f)
    rep.require_min("A1-clock", 4)
    rep.require_min("A3-canonical", 4)
    rep.require_min("A2-chain", 2)
    return rep
