"""C13 — pointer heap and timer queue: handle-consistency clauses.

H1  every write of a heap slot is followed by a notification carrying that
    slot's element and that same index (or, in the bulk constructor, by a loop
    notifying every index); the notifier and its cookie are forwarded unchanged
    to every helper; a new element is announced at nelems - 1
H2  handle provenance: the timer queue passes the position the notifier stored
    in the record that the caller's cookie designates
H3  the timer queue stores and hands back exactly the caller's pointer, frees
    the record only after reading it
H4  index arithmetic: parent (i-1)/2 only when i != 0, children 2i+1 / 2i+2
    only below N; sift directions use the comparator with the documented sign
"""
from .. import cdb, ir, report
from ..ir import norm, show, root_var, subterms
from ..dataflow import cond_atoms

PH = "datastruct/ptrheap.c"
TQ = "datastruct/timerqueue.c"


def slot(n):
    """(array, index) if n is *ptrlist_get(array, index)."""
    if n[0] == "*" and n[1][0] == "call" and n[1][1] == "ptrlist_get":
        return (n[1][2], n[1][3])
    return None


def is_notifier(c):
    if c.cls != "CallExpr":
        return False
    k = norm(c.kid(0))
    return (k[0] == "v" and k[1] == "setreccookie" and c.callee is None) or (k[0] == "." and k[2] == "setreccookie")


def parent_of(i):
    return ir.B("/", ("-", i, ("c", 1)), ("c", 2))


def child_of(i, k):
    return ir.B("+", ir.B("*", ("c", 2), i), ("c", k))


def h1(prog, rep):
    u = prog.unit(PH)
    nst = 0
    for fn in ("swap", "heapify", "heapifyup"):
        if not rep.names(u.func(fn), "setreccookie", "cookie"):
            return
    for fn in ("ptrheap_delete", "ptrheap_decrease", "ptrheap_increase"):
        if not rep.names(u.func(fn), "rc"):
            return
    for f in u.funcs:
        if f.file != PH:
            continue
        stores = []
        for e in f.all_elems():
            if e.is_assign and e.op == "=":
                s = slot(norm(e.kid(0)))
                if s is not None:
                    stores.append((s, e))
        notes = []
        for c in f.calls():
            if is_notifier(c) and len(c.args) == 3:
                s = slot(norm(c.arg(1)))
                if s is not None and s[1] == norm(c.arg(2)):
                    notes.append((s, c))
                elif s is not None:
                    rep.bad("H1-notify", "notification in %s" % f.name, c.where,
                            "the notifier is given element %s but position %s" % (show(norm(c.arg(1))), show(norm(c.arg(2)))), function=f.name, construct="notify-mismatch")
        for s, e in stores:
            nst += 1
            match = [c for s2, c in notes if s2 == s and (c.block.id in f.reach_from(e.block.id) or (c.block.id == e.block.id and c.i > e.i))]
            ok = bool(match)
            if ok:
                # the only thing that may skip the notification is the test of the notifier itself
                c = match[0]
                conds = [(op, show(L), R) for cond, truth in f.edge_conds(c) for op, L, R, _, _ in cond_atoms(cond, truth)]
                extra = [x for x in conds if not (x[0] in ("!=", ">", ">=", "<", "<=") and "setreccookie" in x[1] and x[2][0] == "c")]
                own = [(op, show(L), R) for cond, truth in f.edge_conds(e) for op, L, R, _, _ in cond_atoms(cond, truth)]
                extra = [x for x in extra if x not in own]
                # loop conditions of a bulk notification loop are fine when the loop covers [0, N)
                if extra and f.name == "ptrheap_create":
                    extra = [x for x in extra if x[1] != show(s[1]) and show(x[2]) != show(s[1])]    # loop bounds on the index: covered by the create-loop rule
                ok = not extra
            rep.check(ok, "H1-notify", "%s in %s" % (e.text[:50], f.name), e.where,
                      "a slot write must be followed by setreccookie(cookie, *slot, same index), skipped only when no notifier is registered",
                      function=f.name, construct="slot-write:" + show(s[1]))
    if nst < 2:
        rep.defer_broken("H1: fewer than 2 heap slot writes in ptrheap.c")
    # bulk constructor: the notification loop covers [0, N)
    cr = u.func("ptrheap_create")
    nl = [c for c in cr.calls() if is_notifier(c)]
    ok = len(nl) == 1
    if ok:
        idx = norm(nl[0].arg(2))
        conds = [(op, L, R) for cond, truth in cr.edge_conds(nl[0]) for op, L, R, _, _ in cond_atoms(cond, truth)]
        lim = [R for op, L, R in conds if op == "<" and L == idx]
        doms = [e for e in cr.all_elems() if e.is_assign and e.op == "=" and norm(e.kid(0)) == idx and cr.dominates(e, nl[0])]
        lastdef = [d for d in doms if not any(cr.dominates(d, o) for o in doms if o is not d)]
        init0 = [d for d in lastdef if norm(d.kid(1)) == ("c", 0)]
        inc = [e for e in cr.all_elems() if e.is_incdec and norm(e.kid(0)) == idx and e.op in ("post++", "pre++")]
        nel = [e for e in cr.all_elems() if e.is_assign and norm(e.kid(0))[0] == "." and norm(e.kid(0))[2] == "nelems"]
        ok = bool(lim) and bool(init0) and bool(inc) and len(nel) == 1 and norm(nel[0].kid(1)) == lim[0]
        # the heapify calls in create run with a NULL notifier, so they must all precede the notification loop
        hs = list(cr.calls("heapify"))
        ok = ok and all(norm(h.arg(4)) == ("c", 0) for h in hs) and all(nl[0].block.id in cr.reach_from(h.block.id) and h.block.id not in cr.reach_from(nl[0].block.id) for h in hs)
    rep.check(ok, "H1-notify", "ptrheap_create announces every index in [0, nelems) after heapifying", cr.loc, "", function=cr.name, construct="create-loop")
    # forwarding of (notifier, cookie)
    for f in u.funcs:
        if f.file != PH or f.name == "ptrheap_create":
            continue
        for c in f.calls(("swap", "heapify", "heapifyup")):
            g = u.func(c.callee)
            pi = [i for i, p in enumerate(g.params) if p["name"] == "setreccookie"][0]
            ci = [i for i, p in enumerate(g.params) if p["name"] == "cookie"][0]
            a, b = norm(c.arg(pi)), norm(c.arg(ci))
            ok = (a[0] == "v" and a[1] == "setreccookie" and b[0] == "v" and b[1] == "cookie") or \
                 (a[0] == "." and a[2] == "setreccookie" and b[0] == "." and b[2] == "cookie")
            rep.check(ok, "H1-forward", "%s(...) in %s forwards the notifier and its cookie" % (c.callee, f.name), c.where,
                      "passed %s, %s" % (show(a), show(b)), function=f.name, construct="forward:" + c.callee)
            if c.callee in ("heapify", "heapifyup"):
                ki = [i for i, p in enumerate(g.params) if p["name"] == "compar"][0]
                k = norm(c.arg(ki))
                rep.check((k[0] == "v" and k[1] == "compar") or (k[0] == "." and k[2] == "compar"), "H1-forward", "%s in %s forwards the comparator" % (c.callee, f.name), c.where, show(k),
                          function=f.name, construct="forward-compar:" + c.callee)
    # add
    ad = u.func("ptrheap_add")
    nt = [c for c in ad.calls() if is_notifier(c)]
    inc = [e for e in ad.all_elems() if ir.step(e) and ir.step(e)[0] == "+=" and ir.step(e)[1][0] == "." and ir.step(e)[1][2] == "nelems" and ir.step(e)[2] == ("c", 1)]
    ap = list(ad.calls("ptrlist_append"))
    up = list(ad.calls("heapifyup"))
    ok = len(nt) == 1 and len(inc) == 1 and len(ap) == 1 and len(up) == 1
    if ok:
        last = ("-", norm(inc[0].kid(0)), ("c", 1))
        ok = norm(nt[0].arg(1)) == ("v", ad.params[1]["name"], ad.params[1]["id"]) and norm(nt[0].arg(2)) == last and norm(up[0].arg(1)) == last \
            and ad.dominates(ap[0], inc[0]) and ad.dominates(inc[0], nt[0]) and ad.dominates(inc[0], up[0]) and up[0].block.id in ad.reach_from(nt[0].block.id) \
            and norm(ap[0].arg(1)) == ("&", ("v", ad.params[1]["name"], ad.params[1]["id"])) and norm(ap[0].arg(2)) == ("c", 1)
    rep.check(ok, "H1-notify", "ptrheap_add appends, counts, announces the element at nelems - 1, then sifts it up from there", ad.loc, "", function=ad.name, construct="add")
    # delete: last element moved into rc; shrink by one; count decremented
    de = u.func("ptrheap_delete")
    sh = list(de.calls("ptrlist_shrink"))
    dec = [e for e in de.all_elems() if e.is_incdec and e.op in ("post--", "pre--") and norm(e.kid(0))[0] == "." and norm(e.kid(0))[2] == "nelems"]
    mv = [e for e in de.all_elems() if e.is_assign and slot(norm(e.kid(0))) is not None]
    ok = len(sh) == 1 and norm(sh[0].arg(1)) == ("c", 1) and len(dec) == 1 and len(mv) == 1
    if ok:
        H = root_var(norm(dec[0].kid(0)))
        NE = norm(dec[0].kid(0))
        rc = ("v", de.params[1]["name"], de.params[1]["id"])
        src = slot(norm(mv[0].kid(1)))
        ok = slot(norm(mv[0].kid(0)))[1] == rc and src is not None and src[1] == ("-", NE, ("c", 1))
        g = any(op == "!=" and L == rc and R == ("-", NE, ("c", 1)) for cond, truth in de.edge_conds(mv[0]) for op, L, R, _, _ in cond_atoms(cond, truth))
        ok = ok and g and de.always_passes(mv[0], sh[0]) and de.dominates(sh[0], dec[0])
    rep.check(ok, "H1-notify", "ptrheap_delete moves the last element into the hole, then drops the last slot", de.loc, "", function=de.name, construct="delete")
    dm = u.func("ptrheap_deletemin")
    cs = list(dm.calls("ptrheap_delete"))
    rep.check(len(cs) == 1 and norm(cs[0].arg(1)) == ("c", 0), "H1-notify", "ptrheap_deletemin deletes position 0", dm.loc, "", function=dm.name, construct="deletemin")
    gm = u.func("ptrheap_getmin")
    rets = [norm(r.kid(0)) for r in gm.returns()]
    ok = len(rets) == 2 and any(slot(r) is not None and slot(r)[1] == ("c", 0) for r in rets) and ("c", 0) in rets
    rep.check(ok, "H1-notify", "ptrheap_getmin returns slot 0 or NULL", gm.loc, "", function=gm.name, construct="getmin")
    for name, callee, pos in (("ptrheap_decrease", "heapifyup", "rc"), ("ptrheap_increase", "heapify", "rc"), ("ptrheap_increasemin", "heapify", 0)):
        f = u.func(name)
        cs = list(f.calls(callee))
        ok = len(cs) == 1
        if ok:
            a = norm(cs[0].arg(1))
            ok = (a == ("c", 0)) if pos == 0 else (a[0] == "v" and a[1] == "rc")
            if callee == "heapify":
                ok = ok and norm(cs[0].arg(2))[0] == "." and norm(cs[0].arg(2))[2] == "nelems"
        rep.check(ok, "H1-forward", "%s sifts position %s with %s" % (name, pos, callee), f.loc, "", function=name, construct="sift")
        # ... on every path: a return that the sift has not preceded is reached only where the position provably has nothing to
        # be compared with (no children below it / no parent above it).  One comparison with one child says nothing of the other
        if ok:
            from .. import poly
            from ..poly import Lin
            SIFTED = Lin.var(("$sifted",))

            def done(A, call, st, cs):
                return list(A._kill(list(cs), lambda v: v == ("$sifted",))) + poly.cons("==", SIFTED, Lin.const(1))
            A = poly.Analysis(f, assume=[("==", SIFTED, Lin.const(0))], quiet={callee}, post={callee: done}).run()
            for r in f.returns():
                st = A.state_before(r)
                if st is None:
                    continue
                p = Lin.const(0) if pos == 0 else Lin.var(("v", f.params[1]["name"], f.params[1]["id"]))
                okr = True
                for P in (st if poly._is_disj(st) else [st]):
                    if A._entailsP(P, poly.cons("==", SIFTED, Lin.const(1))):
                        continue
                    if callee == "heapifyup" and A._entailsP(P, poly.cons("<=", p, Lin.const(0))):
                        continue
                    if callee == "heapify" and A._entailsP(P, poly.cons(">=", p.scale(2) + Lin.const(1), Lin.var((".", ("*", ("v", f.params[0]["name"], f.params[0]["id"])), "nelems")))):
                        continue
                    okr = False
                rep.check(okr, "H1-forward", "%s: no return without the sift unless position %s has no %s" % (name, pos, "children" if callee == "heapify" else "parent"), r.where,
                          "a path leaves %s without calling %s, and nothing on it shows that the position has no %s: the element stays where its new key does not belong"
                          % (name, callee, "children" if callee == "heapify" else "parent"), function=name, construct="sift-always")


def h4(prog, rep):
    u = prog.unit(PH)
    up = u.func("heapifyup")
    dn = u.func("heapify")
    sw = u.func("swap")
    if not (rep.names(up, "i") and rep.names(dn, "i", "N", "min") and rep.names(sw, "i", "j")):
        return
    i = ("v", "i", [p["id"] for p in up.params if p["name"] == "i"][0])
    # heapifyup: every use of (i-1)/2 is dominated by i != 0
    n = 0
    for e in up.all_elems():
        if e.cls == "BinaryOperator" and e.op in ("/", ">>") and norm(e) == parent_of(i):
            n += 1
            ok = any(L == i and ((op in ("!=", ">") and R == ("c", 0)) or (op == ">=" and R == ("c", 1))) for cond, truth in up.edge_conds(e) for op, L, R, _, _ in cond_atoms(cond, truth))
            rep.check(ok, "H4-index", "heapifyup: parent index used only when i != 0", e.where, "", function="heapifyup", construct="parent-guard")
    if n < 1:
        rep.defer_broken("H4: parent index expression (i - 1) / 2 not found in heapifyup")
    # sift-up: stop when compar(elem i, parent) >= 0, else swap(i, parent) and i = parent
    brk = False
    for b in up.blocks.values():
        if b.cond is None:
            continue
        for op, L, R, _, _ in cond_atoms(b.cond, True):
            if op == ">=" and R == ("c", 0) and L[0] == "call" and slot(L[3]) is not None and slot(L[3])[1] == i and slot(L[4]) is not None and slot(L[4])[1] == parent_of(i):
                brk = True
    sws = list(up.calls("swap"))
    mv = [e for e in up.all_elems() if e.is_assign and norm(e.kid(0)) == i and norm(e.kid(1)) == parent_of(i)]
    ok = brk and len(sws) == 1 and norm(sws[0].arg(1)) == i and norm(sws[0].arg(2)) == parent_of(i) and len(mv) == 1 and up.dominates(sws[0], mv[0])
    rep.check(ok, "H4-sift", "heapifyup: stop when not smaller than the parent, else swap with the parent and continue there", up.loc, "", function="heapifyup", construct="siftup")
    # heapify: children only below N, picks the smaller child with '> 0', swaps and descends
    i2 = ("v", "i", [p["id"] for p in dn.params if p["name"] == "i"][0])
    N = ("v", "N", [p["id"] for p in dn.params if p["name"] == "N"][0])
    for k in (1, 2):
        ch = child_of(i2, k)
        uses = [e for e in dn.all_elems() if e.cls == "CallExpr" and e.callee == "ptrlist_get" and norm(e.arg(1)) == ch]
        ok = bool(uses)
        for e in uses:
            g = any(op == "<" and L == ch and R == N for cond, truth in dn.edge_conds(e) for op, L, R, _, _ in cond_atoms(cond, truth))
            ok = ok and g
        rep.check(ok, "H4-index", "heapify: child 2i+%d read only when 2i+%d < N" % (k, k), dn.loc, "", function="heapify", construct="child-guard:%d" % k)
        sel = [e for e in dn.all_elems() if e.is_assign and norm(e.kid(0))[0] == "v" and norm(e.kid(0))[1] == "min" and norm(e.kid(1)) == ch]
        ok = len(sel) == 1
        if ok:
            ok = any(op == ">" and R == ("c", 0) and L[0] == "call" and slot(L[3]) is not None and slot(L[3])[1][1] == "min" and slot(L[4]) is not None and slot(L[4])[1] == ch
                     for cond, truth in dn.edge_conds(sel[0]) for op, L, R, _, _ in cond_atoms(cond, truth))
        rep.check(ok, "H4-sift", "heapify: min moves to child 2i+%d only when the current minimum is greater" % k, dn.loc, "", function="heapify", construct="child-select:%d" % k)
    sws = list(dn.calls("swap"))
    mn = [e for e in dn.all_elems() if e.is_assign and norm(e.kid(0)) == i2 and norm(e.kid(1))[0] == "v" and norm(e.kid(1))[1] == "min"]
    st = [e for e in dn.all_elems() if e.is_assign and norm(e.kid(0))[0] == "v" and norm(e.kid(0))[1] == "min" and norm(e.kid(1)) == i2]
    stop = any(op == "==" and show(L) == "min" and R == i2 for b in dn.blocks.values() if b.cond is not None for op, L, R, _, _ in cond_atoms(b.cond, True))
    ok = len(sws) == 1 and {show(norm(sws[0].arg(1))), show(norm(sws[0].arg(2)))} == {"min", "i"} and len(mn) == 1 and len(st) == 1 and stop and dn.dominates(sws[0], mn[0])
    rep.check(ok, "H4-sift", "heapify: start from i, stop when i is the minimum, else swap and descend to the chosen child", dn.loc, "", function="heapify", construct="siftdown")
    # swap really exchanges the two slots, and tells each element its new position: the function is evaluated with the two
    # slots as abstract cells (initial contents a and b), pointers to the slots held in locals are followed
    ii = ("v", "i", sw.params[1]["id"])
    jj = ("v", "j", sw.params[2]["id"])
    cells = {ii: "a", jj: "b"}
    env = {}
    notes = []
    okev = True

    def cell_of(t):
        """index term k if t designates slot k: *ptrlist_get(elems, k), or *p with p holding that slot's address"""
        s_ = slot(t)
        if s_ is not None:
            return s_[1]
        if t[0] == "*" and t[1] in env and isinstance(env[t[1]], tuple) and env[t[1]][0] == "addr":
            return env[t[1]][1]
        return None

    def val(t):
        k = cell_of(t)
        if k is not None:
            return cells.get(k)
        if t in env:
            return env[t]
        if t[0] == "call" and t[1] == "ptrlist_get" and len(t) >= 4:
            return ("addr", t[3])
        return None
    for bid in sw.rpo():
        for e in sw.blocks[bid].elems:
            if e.cls == "DeclStmt":
                for d in e.decls or []:
                    if isinstance(d, dict) and d.get("init"):
                        env[("v", d["name"], d["id"])] = val(norm(sw.elem(d["init"])))
            elif e.is_assign and e.op == "=":
                lhs, v = norm(e.kid(0)), val(norm(e.kid(1)))
                k = cell_of(lhs)
                if k is not None:
                    cells[k] = v
                elif lhs[0] == "v":
                    env[lhs] = v
                else:
                    okev = False
            elif e.cls == "CallExpr" and e.callee is None and len(e.args) == 3:
                notes.append((val(norm(e.arg(1))), norm(e.arg(2))))
    ok = okev and cells.get(ii) == "b" and cells.get(jj) == "a"
    rep.check(ok, "H4-sift", "swap exchanges slots i and j", sw.loc, "after the function slot i holds %s and slot j holds %s (a, b: what they held before)" % (cells.get(ii), cells.get(jj)),
              function="swap", construct="swap")
    okn = sorted(notes, key=str) == sorted([("b", ii), ("a", jj)], key=str)
    rep.check(okn, "H1-notify", "swap tells each of the two elements the slot it is now in", sw.loc,
              "notifications (element, position): %s; expected the element now in slot i with i and the one now in slot j with j" % [(v, show(p)) for v, p in notes],
              function="swap", construct="swap-notify")


def h6_build(prog, rep):
    """ptrheap_create turns the copied array into a heap: the sift-down pass visits every node that has a child.  Relational
    (sa/poly.py, floor division, C's unsigned subtraction translated only where it provably does not wrap): under N >= 2 the
    index the pass starts from satisfies 2 * start + 3 >= N (start is at or beyond the last internal node, floor(N/2) - 1);
    the pass steps down by one and each step sifts node i within the N elements."""
    from .. import poly
    from ..poly import Lin
    u = prog.unit(PH)
    f = u.func("ptrheap_create")
    if f is None:
        raise cdb.AnalysisBroken("anchor missing: ptrheap_create")
    calls = list(f.calls("heapify"))
    Np = [p for p in f.params if (u.types.get(p["ty"]) or {}).get("kind") == "int"]
    if len(calls) != 1 or len(Np) != 1:
        rep.bad("H4-sift", "ptrheap_create builds the heap with one sift-down pass over the N elements", f.loc,
                "%d heapify calls, %d integer parameters" % (len(calls), len(Np)), function=f.name, construct="build-pass")
        return
    N = ("v", Np[0]["name"], Np[0]["id"])
    c = calls[0]
    iv = norm(c.arg(1))
    okc = iv[0] == "v" and norm(c.arg(2)) == N
    # the loop: head tests i < N, the step is i--
    head = [b for b in f.blocks.values() if b.cond is not None and b.term_cls == "ForStmt" and c.block.id in f.reach_from(b.id) and b.id in f.reach_from(c.block.id)]
    steps = [e for e in f.all_elems() if e.is_incdec and norm(e.kid(0)) == iv and e.block.id in f.reach_from(c.block.id) and c.block.id in f.reach_from(e.block.id)]
    okl = len(head) == 1 and len(steps) == 1 and steps[0].op.endswith("--") and any(op == "<" and L == iv and R == N for op, L, R, _, _ in cond_atoms(head[0].cond, True))
    # the initial value: the assignment to i that reaches the loop head from outside the loop
    A = poly.Analysis(f, assume=[(">=", Lin.var(N), Lin.const(2))], quiet={"heapify", "ptrlist_init", "ptrlist_get", "malloc", "free", None}, unsigned_terms={N}).run()
    inits = [e for e in f.all_elems() if e.is_assign and e.op == "=" and norm(e.kid(0)) == iv and head and head[0].id in f.reach_from(e.block.id)
             and not (e.block.id in f.reach_from(c.block.id))]
    init = None
    for e in inits:
        # the last one before the loop (the one in the block that leads into the head)
        if head and any(p == e.block.id for p in head[0].preds):
            init = e
    start = None
    oks = False
    if init is not None:
        st = A.state_before(init)
        start = A.lin(init.kid(1), st) if st is not None else None
        oks = start is not None and A.holds(st, ">=", start.scale(2) + Lin.const(3), Lin.var(N))
    if not (okc and okl and oks) and norm(c.arg(2)) == N:
        # the same pass written without the wrap-around (`for (i = N; i > 0; i--) heapify(.., i - 1, ..)`, or any other counter):
        # the positions sifted are every index N - 1 .. 0, downwards, one at a time (relational: c01.covers_range)
        from .c01 import covers_range
        a1 = c.arg(1)
        okr, _why = covers_range(f, c, a1, N, c)
        vs = [x for x in subterms(norm(a1)) if isinstance(x, tuple) and len(x) > 2 and x[0] == "v"]
        down = len(vs) == 1 and any(ir.step(e) is not None and ir.step(e)[0] == "-=" and ir.step(e)[1] == vs[0] for e in f.all_elems()
                                    if e.block.id in f.reach_from(c.block.id) and c.block.id in f.reach_from(e.block.id))
        if okr and down:
            okc = okl = oks = True
    rep.check(okc and okl and oks, "H4-sift", "ptrheap_create: the sift-down pass starts at or beyond the last node that has a child and comes down one node at a time", f.loc,
              "heapify(elems, i, N): %s; loop `i < N; i--`: %s; start %s with 2*start + 3 >= N for N >= 2: %s (a start computed with an unsigned subtraction that can wrap, "
              "or below floor(N/2) - 1, leaves the last parent unsifted for some N)" % (okc, okl, start, oks), function=f.name, construct="build-pass")


def h7_keychange(prog, rep):
    """timerqueue_increase: once the record's time has been overwritten the heap is told, on every path to the return (a record
    whose key changed keeps its old position otherwise, and the queue releases timers out of order)."""
    u = prog.unit("datastruct/timerqueue.c")
    f = u.func("timerqueue_increase")
    if f is None:
        raise cdb.AnalysisBroken("anchor missing: timerqueue_increase")
    writes = [c for c in f.calls("memcpy") if any(t[0] == "." and t[2] == "tv" for t in subterms(norm(c.arg(0))))]
    writes += [e for e in f.all_elems() if e.is_assign and any(t[0] == "." and t[2] == "tv" for t in subterms(norm(e.kid(0))))]
    tells = list(f.calls("ptrheap_increase"))
    ok = len(writes) >= 1 and len(tells) == 1
    why = "%d writes of the record's time, %d ptrheap_increase calls" % (len(writes), len(tells))
    if ok:
        for w in writes:
            # every path from the write to the function's exit passes the notification
            if not f.always_passes(w, tells[0]):
                ok = False
                why = "a path leaves timerqueue_increase after the time was stored at %s without ptrheap_increase" % w.loc
    rep.check(ok, "H4-sift", "timerqueue_increase: the heap is told of the later time on every path after it was stored", f.loc, why, function=f.name, construct="increase-notify")


def h5(prog, rep):
    """ptrheap_delete: the element moved into the hole comes from the end of the array, i.e. possibly from another
    subtree, so it may be smaller than its new parent as well as larger than its new children: the deletion must be
    able to sift in both directions."""
    u = prog.unit(PH)
    de = u.func("ptrheap_delete")
    up = list(de.calls("heapifyup"))
    dn = list(de.calls("heapify"))
    sw = list(de.calls("swap"))
    rc = ("v", de.params[1]["name"], de.params[1]["id"])
    ok = bool(dn) and (bool(up) or bool(sw))
    detail = "sift-down calls %d, sift-up calls %d" % (len(dn), len(up) + len(sw))
    if ok:
        # the upward move is taken exactly when the element is smaller than its parent (and has one)
        t = (up + sw)[0]
        at = [(op, L, R) for cond, truth in de.edge_conds(t) for op, L, R, _, _ in cond_atoms(cond, truth)]
        par = parent_of(rc)
        lt = any(op == "<" and R == ("c", 0) and L[0] == "call" and slot(L[3]) is not None and slot(L[3])[1] == rc and slot(L[4]) is not None and slot(L[4])[1] == par for op, L, R in at)
        nz = any(op == ">" and L == rc and R == ("c", 0) for op, L, R in at) or any(op == "!=" and L == rc and R == ("c", 0) for op, L, R in at)
        ok = lt and nz
        # sift-down covers the live elements (all nelems before the count is decremented)
        ok = ok and all(norm(d.arg(1)) == rc and norm(d.arg(2))[0] == "." and norm(d.arg(2))[2] == "nelems" for d in dn)
        detail += "; up-guard compar(elem, parent) < 0: %s, rc > 0: %s" % (lt, nz)
    rep.check(ok, "H4-sift", "ptrheap_delete re-establishes order in both directions (up when smaller than the parent, else down)", de.loc, detail,
              function=de.name, construct="delete-bidirectional")
    # the upward move is the element's own: it is swapped with its parent, and the sift continues from where it went
    par = parent_of(rc)
    X = de.expand
    for w in sw:
        ok2 = {X(norm(w.arg(1))), X(norm(w.arg(2)))} == {rc, par}
        rep.check(ok2, "H4-index", "ptrheap_delete swaps the moved element with its parent", w.where,
                  "swap(%s, %s): expected positions rc and (rc - 1) / 2" % (show(norm(w.arg(1))), show(norm(w.arg(2)))), function=de.name, construct="delete-swap")
    for c in up:
        follows = [w for w in sw if de.dominates(w, c)]
        want = par if follows else rc
        rep.check(X(norm(c.arg(1))) == want, "H4-index", "ptrheap_delete continues the sift-up from the position the element now has", c.where,
                  "heapifyup from %s; the element is at %s" % (show(norm(c.arg(1))), show(want)), function=de.name, construct="delete-continue")


def h2_h3(prog, rep):
    u = prog.unit(TQ)
    ini = u.func("timerqueue_init")
    if not (rep.names(u.func("timerqueue_delete"), "cookie") and rep.names(u.func("timerqueue_increase"), "cookie")):
        return
    phi = list(ini.calls("ptrheap_init"))
    ok = len(phi) == 1 and norm(phi[0].arg(0)) == ("fn", "compar") and norm(phi[0].arg(1)) == ("fn", "setreccookie")
    rep.check(ok, "H2-handle", "the timer queue registers compar and setreccookie with its heap", ini.loc, "", function=ini.name, construct="register")
    src = u.func("setreccookie")
    st = [e for e in src.all_elems() if e.is_assign and e.op == "="]
    alias = {}
    for e in src.all_elems():
        if e.cls == "DeclStmt":
            for d in e.decls or []:
                if d.get("init") is not None:
                    alias[d["name"]] = norm(src.elem(d["init"]))[1]
    ok = len(st) == 1 and norm(st[0].kid(0))[0] == "." and norm(st[0].kid(0))[2] == "rc" and alias.get(root_var(norm(st[0].kid(0)))[1]) == src.params[1]["name"] \
        and norm(st[0].kid(1)) == ("v", src.params[2]["name"], src.params[2]["id"])
    rep.check(ok, "H2-handle", "setreccookie stores the reported position in the record's rc field", src.loc, "", function="setreccookie", construct="store-rc")
    n = 0
    for f in u.funcs:
        if f.file != TQ:
            continue
        for c in f.calls(("ptrheap_delete", "ptrheap_increase", "ptrheap_decrease")):
            n += 1
            a = norm(c.arg(1))
            al = {}
            for e in f.all_elems():
                if e.cls == "DeclStmt":
                    for d in e.decls or []:
                        if d.get("init") is not None:
                            al[d["name"]] = norm(f.elem(d["init"]))
            r = root_var(a)
            ok = a[0] == "." and a[2] == "rc" and r is not None and al.get(r[1], ("?",))[0] == "v" and al[r[1]][1] == "cookie" and \
                norm(c.arg(0))[0] == "." and norm(c.arg(0))[2] == "H"
            rep.check(ok, "H2-handle", "%s in %s uses the rc of the record the caller's cookie designates" % (c.callee, f.name), c.where, show(a), function=f.name, construct="handle")
    if n < 2:
        rep.defer_broken("H2: fewer than 2 handle uses in timerqueue.c")
    # H3
    ad = u.func("timerqueue_add")
    stp = [e for e in ad.all_elems() if e.is_assign and norm(e.kid(0))[0] == "." and norm(e.kid(0))[2] == "ptr" and norm(e.kid(1)) == ("v", ad.params[2]["name"], ad.params[2]["id"])]
    cpt = [c for c in ad.calls("memcpy") if norm(c.arg(0))[0] == "&" and norm(c.arg(0))[1][0] == "." and norm(c.arg(0))[1][2] == "tv" and norm(c.arg(1)) == ("v", ad.params[1]["name"], ad.params[1]["id"])]
    pa = list(ad.calls("ptrheap_add"))
    rets = [norm(r.kid(0)) for r in ad.returns() if norm(r.kid(0)) != ("c", 0)]
    ok = len(stp) == 1 and len(cpt) == 1 and len(pa) == 1 and ad.dominates(stp[0], pa[0]) and ad.dominates(cpt[0], pa[0]) and \
        rets == [root_var(norm(stp[0].kid(0)))] and norm(pa[0].arg(1)) == rets[0]
    rep.check(ok, "H3-pointer", "timerqueue_add stores (tv, ptr) in the record before queueing it and returns the record as the handle", ad.loc, "", function=ad.name, construct="add")
    gp = u.func("timerqueue_getptr")
    ld = [e for e in gp.all_elems() if e.is_assign and norm(e.kid(1))[0] == "." and norm(e.kid(1))[2] == "ptr"]
    fr = list(gp.calls("free"))
    gm = [e for e in gp.all_elems() if e.is_assign and e.kid(1).strip().cls == "CallExpr" and e.kid(1).strip().callee == "ptrheap_getmin"]
    nn = [r for r in gp.returns() if norm(r.kid(0)) != ("c", 0)]
    ok = len(ld) == 1 and len(fr) == 1 and len(gm) == 1 and len(nn) == 1
    if ok:
        r = norm(gm[0].kid(0))
        ok = root_var(norm(ld[0].kid(1))) == r and norm(fr[0].arg(0)) == r and gp.dominates(ld[0], fr[0]) and norm(nn[0].kid(0)) == norm(ld[0].kid(0))
    rep.check(ok, "H3-pointer", "timerqueue_getptr reads the stored pointer of the minimum record, then frees the record, then returns the pointer", gp.loc, "", function=gp.name, construct="getptr")
    de = u.func("timerqueue_delete")
    pd = list(de.calls("ptrheap_delete"))
    fr = list(de.calls("free"))
    ok = len(pd) == 1 and len(fr) == 1 and de.dominates(pd[0], fr[0]) and root_var(norm(pd[0].arg(1))) == norm(fr[0].arg(0))
    rep.check(ok, "H3-pointer", "timerqueue_delete removes the record from the heap before freeing it", de.loc, "", function=de.name, construct="delete")
    gmn = u.func("timerqueue_getmin")
    rets = [norm(r.kid(0)) for r in gmn.returns()]
    ok = any(r[0] == "&" and r[1][0] == "." and r[1][2] == "tv" for r in rets) and ("c", 0) in rets
    rep.check(ok, "H3-pointer", "timerqueue_getmin reports the minimum record's time", gmn.loc, "", function=gmn.name, construct="getmin")


def run(tier):
    rep = report.Report("C13", tier,
        "Decided: every heap slot write is followed by a notification with that slot's element and the same index, the bulk constructor "
        "announces all indices, notifier/cookie/comparator are forwarded unchanged, add announces nelems-1, delete moves the last "
        "element into the hole (H1); the timer queue uses exactly the position its notifier stored in the caller's record (H2) and "
        "stores/returns the caller's pointer, freeing only after reading (H3); parent/child index arithmetic is guarded and the sift "
        "loops use the comparator with the documented sign (H4); the timer comparator is the lexicographic order on all nine orderings and "
        "the queue releases only on its not-later edge (O6, shared with C04). Not decided: that sifting "
        "restores heap order for every history (an inductive invariant over the array).",
        trusted=["elasticarray wrappers (C12, C14)"])
    prog = ir.Program([PH, TQ, "datastruct/elasticarray.c", "events/events_timer.c"], cdb.HOST)
    rep.add_stats(prog)
    h1(prog, rep)
    h4(prog, rep)
    h5(prog, rep)
    h6_build(prog, rep)
    h7_keychange(prog, rep)
    h2_h3(prog, rep)
    # the timer queue's order is its comparator's: lexicographic on (sec, usec) for all nine orderings, release only on the
    # not-later edge, keys stored before the heap is told (rules shared with C04)
    from . import c04
    c04.o6(prog, rep)
    # the heap's storage: a shrink that is silently skipped leaves deleted elements in the array (rule shared with C12)
    from . import c12
    c12.resize_contract(prog, rep)
    rep.require_min("H1-notify", 8)
    rep.require_min("H1-forward", 8)
    rep.require_min("H2-handle", 4)
    rep.require_min("H4-index", 4)
    rep.require_min("O6-compare", 2)
    return rep
