"""C17 — encoders/decoders are mutually inverse and match their standards.

T1  endian helpers: bit-level symbolic evaluation of each of the 12 routines;
    the decoder's result bits and the encoder's stored bytes must be the
    defined byte order for every value (decides the clause completely)
T2  alphabets: b64chars is RFC 4648's alphabet followed by '=', hexchars[i] is
    the digit of i & 15, lower case for i < 16; derived independently here
T3  separator whitespace: after a ',' or ':' separator every JSON list walker
    skips whitespace before it examines the next element (sibling agreement)
T4  sock_addr: serialize's (field, size) sequence equals deserialize's; dup and
    cmp cover exactly the record's fields; the printers' format is the form
    sock_resolve accepts
"""
import string
from .. import cdb, ir, report
from ..ir import norm, show, root_var, subterms
from ..dataflow import Solver, cond_atoms

UNK = ("?",)


class BitEval:
    """Evaluate an expression to a list of bits (LSB first): 0, 1, or a source bit ('b', byte, k) / ('x', k)."""

    def __init__(self, f, ptr_names, val_name=None):
        self.f = f
        self.u = f.unit
        self.ptr_names = ptr_names
        self.val_name = val_name

    def width(self, e):
        t = self.u.types.get(e.ty) or {}
        return 8 * (t.get("size") or 0)

    def signed(self, e):
        t = self.u.types.get(e.ty) or {}
        return bool(t.get("signed"))

    def ev(self, e):
        w = self.width(e)
        c = e.cls
        if c in ("ImplicitCastExpr", "CStyleCastExpr"):
            k = e.kid(0)
            if e.op in ("LValueToRValue", "NoOp"):
                return self.ev(k)
            if e.op == "IntegralCast":
                b = self.ev(k)
                if b is None:
                    return None
                if len(b) >= w:
                    return b[:w]
                fill = 0
                if self.signed(k) and b and b[-1] != 0:
                    fill = UNK     # sign extension of a possibly set top bit
                return b + [fill] * (w - len(b))
            return None
        if e.val is not None and c != "DeclRefExpr":
            v = e.val & ((1 << w) - 1) if w else e.val
            return [(v >> i) & 1 for i in range(w)]
        if c == "ArraySubscriptExpr":
            base = norm(e.kid(0))
            idx = e.kid(1).strip().val if e.kid(1) is not None else None
            if base[0] == "v" and base[1] in self.ptr_names and idx is not None and w == 8:
                return [("b", idx, k) for k in range(8)]
            return None
        if c == "DeclRefExpr":
            if self.val_name and e.decl["name"] == self.val_name:
                return [("x", k) for k in range(w)]
            return None
        if c == "BinaryOperator":
            a, b = self.ev(e.kid(0)), self.ev(e.kid(1))
            if e.op in ("<<", ">>"):
                sh = e.kid(1).strip().val
                if a is None or sh is None:
                    return None
                a = a[:w] + [0] * max(0, w - len(a))
                if e.op == "<<":
                    return ([0] * sh + a)[:w]
                fill = 0 if not self.signed(e.kid(0)) or a[-1] == 0 else UNK
                return (a[sh:] + [fill] * sh)[:w]
            if a is None or b is None:
                return None
            a = a[:w] + [0] * max(0, w - len(a))
            b = b[:w] + [0] * max(0, w - len(b))
            if e.op == "|" or e.op == "+" or e.op == "^":
                out = []
                for x, y in zip(a, b):
                    if x == 0:
                        out.append(y)
                    elif y == 0:
                        out.append(x)
                    elif e.op == "|" and x == y:
                        out.append(x)
                    else:
                        out.append(UNK)
                return out
            if e.op == "&":
                out = []
                for x, y in zip(a, b):
                    if x == 0 or y == 0:
                        out.append(0)
                    elif x == 1:
                        out.append(y)
                    elif y == 1:
                        out.append(x)
                    elif x == y:
                        out.append(x)
                    else:
                        out.append(UNK)
                return out
            return None
        if c == "ParenExpr":
            return self.ev(e.kid(0))
        return None


def t1(prog, rep):
    # any unit that includes sysendian.h carries the 12 inline helpers
    u = None
    for cand in ("alg/sha256.c", "alg/md5.c"):
        if cand in prog.units:
            u = prog.units[cand]
    fs = {}
    for uu in prog.units.values():
        for f in uu.funcs:
            if f.file == "util/sysendian.h" and f.name not in fs:
                fs[f.name] = f
    n = 0
    for end in ("be", "le"):
        for W in (2, 4, 8):
            for kind in ("dec", "enc"):
                name = "%s%d%s" % (end, 8 * W, kind)
                f = fs.get(name)
                if f is None:
                    rep.defer_broken("T1: %s not found (sysendian.h)" % name)
                    continue
                n += 1
                ptrs = set([f.params[0]["name"]])
                for e in f.all_elems():
                    if e.cls == "DeclStmt":
                        for d in e.decls or []:
                            if d.get("init") is not None:
                                i = norm(f.elem(d["init"]))
                                if i[0] == "v" and i[1] in ptrs:
                                    ptrs.add(d["name"])

                def bytepos(k):      # which source byte holds value bits [8k, 8k+8)
                    return (W - 1 - k) if end == "be" else k
                if kind == "dec":
                    rets = [r for r in f.returns()]
                    ok = len(rets) == 1
                    got = BitEval(f, ptrs).ev(rets[0].kid(0)) if ok else None
                    want = []
                    for k in range(W):
                        want += [("b", bytepos(k), j) for j in range(8)]
                    rep.check(got == want, "T1-endian", name, f.loc,
                              "result bits must be bytes %s (value bits 0-7 first); evaluated: %s" % ([bytepos(k) for k in range(W)], _fmt(got)),
                              function=name, construct="byteorder")
                else:
                    x = f.params[1]["name"]
                    stores = {}
                    bad = False
                    for e in f.all_elems():
                        if e.is_assign and e.op == "=" and e.kid(0).cls == "ArraySubscriptExpr":
                            b = norm(e.kid(0).kid(0))
                            idx = e.kid(0).kid(1).strip().val
                            if b[0] == "v" and b[1] in ptrs and idx is not None:
                                v = BitEval(f, ptrs, x).ev(e.kid(1))
                                if idx in stores:
                                    bad = True
                                stores[idx] = v[:8] if v else None
                            else:
                                bad = True
                        elif e.is_assign or e.is_incdec or (e.cls == "CallExpr"):
                            bad = True
                    want = {}
                    for k in range(W):
                        want[bytepos(k)] = [("x", 8 * k + j) for j in range(8)]
                    rep.check(stores == want and not bad, "T1-endian", name, f.loc,
                              "byte i must receive value bits of position %s; evaluated: %s" % (
                                  {bytepos(k): "%d-%d" % (8 * k, 8 * k + 7) for k in range(W)}, {i: _fmt(v) for i, v in sorted(stores.items())}),
                              function=name, construct="byteorder")
    return n


def _fmt(bits):
    if bits is None:
        return "not evaluable"
    out = []
    for i in range(0, len(bits), 8):
        g = bits[i:i + 8]
        if all(isinstance(b, tuple) and len(b) == 3 and b[0] == "b" and b[1] == g[0][1] and b[2] == j for j, b in enumerate(g)):
            out.append("byte%d" % g[0][1])
        elif all(isinstance(b, tuple) and len(b) == 2 and b[0] == "x" and b[1] == g[0][1] + j for j, b in enumerate(g)):
            out.append("x[%d..%d]" % (g[0][1], g[0][1] + 7))
        elif all(b == 0 for b in g):
            out.append("0")
        else:
            out.append("mixed")
    return out


def t2(prog, rep):
    u = prog.unit("util/b64encode.c")
    tb = u.global_ints("b64chars")
    rfc = string.ascii_uppercase + string.ascii_lowercase + string.digits + "+/"
    want = [ord(c) for c in rfc] + [ord("=")] + [0]
    rep.check(tb is not None and (tb == want or tb + [0] == want), "T2-alphabet", "b64chars", (u.global_("b64chars") or {}).get("loc", ""),
              "must be RFC 4648's alphabet (A-Z a-z 0-9 + /) followed by '=' at index 64", function="b64chars", construct="table")
    t2_hexify(prog, rep)
    # the decoders reduce the table position with the matching mask
    for up, fn, mask in (("util/hexify.c", "unhexify", 0x0f), ("util/b64encode.c", "b64decode", 0x3f)):
        f = prog.func(up, fn)
        if not rep.names(f, "pos"):
            continue
        masks = [e for e in f.all_elems() if e.cls == "BinaryOperator" and e.op == "&" and e.kid(1) is not None and e.kid(1).strip().val is not None and norm(e.kid(0))[0] == "v" and norm(e.kid(0))[1] == "pos"]
        rep.check(bool(masks) and all(m.kid(1).strip().val == mask for m in masks), "T2-alphabet", "%s reduces the table position with & %#x" % (fn, mask), f.loc,
                  "found %s" % [hex(m.kid(1).strip().val) for m in masks], function=fn, construct="mask")
    # b64encode pads with '='
    f = prog.func("util/b64encode.c", "b64encode")
    pads = [e for e in f.all_elems() if e.is_assign and e.op == "=" and norm(e.kid(1)) == ("c", ord("="))]
    rep.check(len(pads) == 1, "T2-alphabet", "b64encode pads with '='", f.loc, "", function="b64encode", construct="pad")


def t2_hexify(prog, rep):
    """The hex table and the order hexify emits nibbles in (also what C19's signatures are printed with)."""
    u = prog.unit("util/hexify.c")
    th = u.global_ints("hexchars")
    if th is not None and len(th) == 32:
        th = th + [0]
    ok = th is not None and len(th) == 33 and th[32] == 0
    if ok:
        for i in range(32):
            c = chr(th[i])
            if c not in string.hexdigits or int(c, 16) != (i & 15):
                ok = False
            if i < 16 and c != c.lower():
                ok = False
    rep.check(ok, "T2-alphabet", "hexchars", (u.global_("hexchars") or {}).get("loc", ""),
              "hexchars[i] must be the hex digit of i & 15, lower case for i < 16 (decoding takes pos & 15)", function="hexchars", construct="table")
    # hexify emits the high nibble first
    f = prog.func("util/hexify.c", "hexify")
    idx = []
    for e in sorted([e for e in f.all_elems() if e.cls == "ArraySubscriptExpr" and norm(e.kid(0))[0] == "v" and norm(e.kid(0))[1] == "hexchars"], key=lambda e: (e.line, e.i)):
        s = e.kid(1).strip()
        while s is not None and s.cls in ("ImplicitCastExpr", "CStyleCastExpr", "ParenExpr"):
            s = s.kid(0)
        idx.append((s.op, s.kid(1).strip().val) if s is not None and s.cls == "BinaryOperator" else None)
    rep.check(idx == [(">>", 4), ("&", 15)], "T2-alphabet", "hexify writes the high nibble, then the low nibble", f.loc, "found %s" % idx,
              function="hexify", construct="nibble-order")
    hexify_layout(prog, rep)


def hexify_layout(prog, rep):
    """hexify's output layout, relationally (sa/poly.py), however the loop is written: the high nibble of in[j] is stored at
    out + 2j, the low nibble at out + 2j + 1, with 0 <= j < len at both, and the terminating NUL at out + 2*len."""
    from .. import poly
    from ..poly import Lin
    f = prog.func("util/hexify.c", "hexify")
    if f is None:
        raise cdb.AnalysisBroken("anchor missing: hexify")
    pin, pout, plen = [("v", p["name"], p["id"]) for p in f.params[:3]]
    O0, N0 = Lin.var(("$entry", "out")), Lin.var(("$entry", "len"))
    I0 = Lin.var(("$entry", "in"))
    A = poly.Analysis(f, assume=[("==", Lin.var(pout), O0), ("==", Lin.var(plen), N0), (">=", N0, Lin.const(0)), ("==", Lin.var(pin), I0)],
                      unsigned_terms={plen, ("$entry", "len")}).run()

    def addr(e):
        lhs = e.kid(0).strip()
        if lhs.cls == "UnaryOperator" and lhs.op == "*":
            sub = lhs.kid(0).strip()
            if sub.is_incdec and sub.op == "post++":
                st = A.state_before(sub)
                return A.lin(sub.kid(0), st), st
            st = A.state_before(e)
            return A.lin(sub, st), st
        if lhs.cls == "ArraySubscriptExpr":
            st = A.state_before(e)
            b, i = A.lin(lhs.kid(0), st), A.lin(lhs.kid(1), st)
            return (b + i if b is not None and i is not None else None), st
        return None, None
    seen = {"hi": 0, "lo": 0, "nul": 0}
    for e in f.all_elems():
        if not (e.is_assign and e.op == "="):
            continue
        lhs = norm(e.kid(0))
        if lhs[0] not in ("*", "[]"):
            continue
        v = norm(e.kid(1))
        a, st = addr(e)
        if v == ("c", 0):
            seen["nul"] += 1
            rep.check(a is not None and A.holds(st, "==", a, O0 + N0.scale(2)), "T2-layout", "hexify: the NUL goes to out + 2*len", e.where,
                      "address %s" % a, function="hexify", construct="nul")
            continue
        if not (v[0] == "[]" and v[1][0] == "v" and v[1][1] == "hexchars"):
            rep.bad("T2-layout", "hexify: store of something other than a hex digit or the NUL", e.where, show(v), function="hexify", construct="store")
            continue
        ix = v[2]
        which = "hi" if ix[0] == ">>" and ix[2] == ("c", 4) else "lo" if ix[0] == "&" and ix[2] == ("c", 15) else None
        src = ix[1] if which else None
        j = None
        if src is not None and src[0] == "[]" and src[1] == pin:
            # the element of the value read: find it to ask for its index in the state of the store
            for x in f.all_elems():
                if x.cls == "ArraySubscriptExpr" and norm(x) == src and x.block.id == e.block.id and x.i < e.i:
                    j = A.lin(x.kid(1), A.state_before(e))
        if src is not None and src[0] == "*" and src[1][0] == "v":
            # the input walked with the pointer itself: byte j is the one at (in - in at entry)
            sb = A.state_before(e)
            for x in f.all_elems():
                if x.cls == "UnaryOperator" and x.op == "*" and norm(x) == src and x.block.id == e.block.id and x.i < e.i and x.kid(0) is not None:
                    l = A.lin(x.kid(0), A.state_before(x))
                    j = (l - I0) if l is not None else None
        if which is None or j is None:
            rep.bad("T2-layout", "hexify: digit store", e.where, "value %s is not the high or low nibble of in[j]" % show(v), function="hexify", construct="store")
            continue
        seen[which] += 1
        off = 0 if which == "hi" else 1
        ok = a is not None and A.holds(st, "==", a, O0 + j.scale(2) + Lin.const(off)) and A.holds(st, ">=", j, Lin.const(0)) and A.holds(st, "<", j, N0)
        rep.check(ok, "T2-layout", "hexify: the %s nibble of in[j] goes to out + 2j%s, 0 <= j < len" % ("high" if which == "hi" else "low", " + 1" if off else ""),
                  e.where, "address %s, j = %s" % (a, j), function="hexify", construct=which)
    rep.check(seen == {"hi": 1, "lo": 1, "nul": 1}, "T2-layout", "hexify: one high-nibble store, one low-nibble store, one NUL store", f.loc, "%s" % seen,
              function="hexify", construct="stores")

# --------------------------------------------------------------------------
# T5: the base-64 group arithmetic (bit provenance, sa/finite.py)
# --------------------------------------------------------------------------
def _int_locals(f):
    out = {}
    for e in f.all_elems():
        if e.cls == "DeclStmt":
            for d in e.decls or []:
                if isinstance(d, dict) and d.get("kind") == "local":
                    t = f.unit.types.get(d.get("ty")) or {}
                    if t.get("kind") in ("int", "enum", "bool") and t.get("size"):
                        out[("v", d["name"], d["id"])] = (bool(t.get("signed", True)), 8 * t["size"])
    return out


def _loop_of(f, var):
    """(head block, body entry block) of the `while (var)` loop."""
    for b in f.blocks.values():
        if b.term_cls == "WhileStmt" and b.cond is not None and norm(b.cond) == var and len(b.succs) == 2 and b.succs[0] is not None:
            return b, b.succs[0]
    return None, None


def t5_b64(prog, rep):
    """The arithmetic of the base-64 codec, for every input: one iteration of each routine's main loop is evaluated in the
    bit-provenance domain (sa/finite.py: every bit of the 24-bit accumulator is 0 or a named bit of a named input byte /
    input character; the inner loops have constant trip counts and unroll under constant propagation of their counters; the
    remaining length is the interval [3, inf) or the constant 1 or 2).  Encoder: an iteration reads the next min(len, 3)
    bytes, stores the four characters b64chars[sextet k of (b0 << 16 | b1 << 8 | b2)] with '=' in the places RFC 4648
    pads, advances the output by 4 and the length by what it read; after the loop a NUL.  Decoder: an iteration reads four
    characters, stores the three bytes of (p0 << 18 | p1 << 12 | p2 << 6 | p3) where p is the 6-bit table position
    (which is 0 for '='), advances input by 4, output and *outlen by 3.  Per-iteration exactness plus these advances is the
    inductive step of "encoding is RFC 4648 and decoding returns the original" over all lengths."""
    from .. import finite
    from ..finite import Bits, Iv
    up = "util/b64encode.c"
    enc = prog.func(up, "b64encode")
    dec = prog.func(up, "b64decode")
    if enc is None or dec is None:
        raise cdb.AnalysisBroken("anchor missing: b64encode / b64decode")
    tab = [g for g in prog.unit(up).globals if g["name"] == "b64chars"]
    if not tab:
        raise cdb.AnalysisBroken("anchor missing: b64chars")

    class TabChar:
        def __init__(self, idx):
            self.idx = idx

        def __repr__(self):
            return "b64chars[%r]" % (self.idx,)

    # ---------------- encoder
    pin, pout, plen = [("v", q["name"], q["id"]) for q in enc.params[:3]]
    head, body = _loop_of(enc, plen)
    if head is None:
        raise cdb.AnalysisBroken("b64encode: the `while (len)` loop was not found")
    tracked = _int_locals(enc)
    tracked.update({pin: (False, 64), pout: (False, 64), plen: (False, 64)})

    def grp_sextet(nbytes, k):
        """bits (LSB first) of sextet k of the big-endian 24-bit group made of the first nbytes input bytes"""
        grp = [0] * 24
        for j in range(nbytes):
            for i in range(8):
                grp[16 - 8 * j + i] = ("in%d" % j, i)
        return tuple(grp[18 - 6 * k: 24 - 6 * k])
    for label, lenv, nread in (("one byte left", 1, 1), ("two bytes left", 2, 2), ("three or more left", Iv(3), 3)):
        reads, stores = [], []

        def rd(n, env):
            a = finite.ev(n[1], env) if n[0] == "*" else None
            if n[0] == "[]" and n[1][0] == "v" and n[1][1] == "b64chars":
                i = finite.ev(n[2], env)
                return TabChar(i) if isinstance(i, Bits) else None
            if n[0] == "[]":
                b, i = finite.ev(n[1], env), finite.ev(n[2], env)
                a = b + i if isinstance(b, int) and isinstance(i, int) else None
            if not isinstance(a, int):
                return None
            if a not in reads:
                reads.append(a)
            return Bits.sym("in%d" % a, 8)

        def st(tgt, v, env, e):
            a = finite.ev(tgt[1], env) if tgt[0] == "*" else None
            stores.append((a, v))
        W = finite.Walker(enc, tracked, lambda e: e.block.id == head.id, store=st)
        env = {k: None for k in tracked}
        env.update({pin: 0, pout: 0, plen: lenv, "$read": rd})
        try:
            outs = W.run(body, 0, env)
        except finite.Budget:
            raise cdb.AnalysisBroken("b64encode: evaluation of one iteration did not finish")
        ok = len(outs) == 1 and outs[0][0] == "stop"
        why = "the iteration does not come back to the loop test on a single path (%d outcomes)" % len(outs)
        if ok:
            e2 = outs[0][2]
            want = []
            for k in range(4):
                want.append((k, grp_sextet(nread, k)) if k <= nread else (k, "="))
            got = []
            for a, v in stores:
                if isinstance(v, TabChar):
                    got.append((a, tuple(v.idx.resize(6).b) if all(x == 0 for x in v.idx.b[6:]) else "wide"))
                elif v == ord("="):
                    got.append((a, "="))
                else:
                    got.append((a, v))
            newlen = e2.get(plen)
            lenok = (newlen == 0) if nread < 3 else (isinstance(newlen, Iv) and newlen.lo == 0 and newlen.hi is None)
            ok = got == want and sorted(reads) == list(range(nread)) and e2.get(pin) == nread and e2.get(pout) == 4 and lenok
            why = "stores %s (expected %s); input bytes read %s, input advanced by %s, output by %s, length left %s" % (got, want, sorted(reads), e2.get(pin), e2.get(pout), newlen)
        rep.check(ok, "T5-b64", "b64encode, %s: the four characters are RFC 4648's for the group, cursors advance by what was used" % label, enc.loc, why,
                  function="b64encode", construct="group:" + label)
    # after the loop: the terminator at the output cursor
    stores = []
    W = finite.Walker(enc, tracked, lambda e: False, store=lambda tgt, v, env, e: stores.append((finite.ev(tgt[1], env) if tgt[0] == "*" else None, v)))
    env = {k: None for k in tracked}
    env.update({pin: 0, pout: 0, plen: 0})
    outs = W.run(enc.entry, 0, env)
    rep.check(len(outs) <= 1 and stores == [(0, 0)], "T5-b64", "b64encode: with nothing left, exactly a NUL is stored at the output cursor", enc.loc, "stores %s" % stores,
              function="b64encode", construct="terminator")

    # ---------------- decoder
    din, dilen, dout, dolen = [("v", q["name"], q["id"]) for q in dec.params[:4]]
    head, body = _loop_of(dec, dilen)
    if head is None:
        raise cdb.AnalysisBroken("b64decode: the `while (inlen)` loop was not found")
    tracked = _int_locals(dec)
    OL = ("*", dolen)
    tracked.update({din: (False, 64), dout: (False, 64), dilen: (False, 64), OL: (False, 64)})
    reads, stores = [], []

    def rd2(n, env):
        if n[0] == "[]":
            b, i = finite.ev(n[1], env), finite.ev(n[2], env)
            a = b + i if isinstance(b, int) and isinstance(i, int) else None
        else:
            a = finite.ev(n[1], env)
        if not isinstance(a, int):
            return None
        if a not in reads:
            reads.append(a)
        return ("char", a)

    class TabPtr:
        def __init__(self, ch):
            self.ch = ch

        def __sub__(self, o):
            if o == "b64chars-base" and isinstance(self.ch, tuple):
                # the position of a validated character in the table: 0..64, 64 for '='; its low six bits are the character's value
                return Bits.sym("p%d" % self.ch[1], 7, 64)
            raise finite.Undecided()

    def call(n, env):
        if n[1] == "strchr" and len(n) == 4 and n[2][0] == "v" and n[2][1] == "b64chars":
            return TabPtr(finite.ev(n[3], env))
        return None

    def st2(tgt, v, env, e):
        if tgt[0] == "[]":
            b, i = finite.ev(tgt[1], env), finite.ev(tgt[2], env)
            a = b + i if isinstance(b, int) and isinstance(i, int) else None
        else:
            a = finite.ev(tgt[1], env) if tgt[0] == "*" else None
        # a store into a byte keeps the low eight bits
        w = 8 * ((dec.unit.types.get(e.kid(0).ty) or {}).get("size") or 0)
        if isinstance(v, Bits) and w:
            v = v.resize(w).resize(max(w, 8))
        stores.append((a, v))
    tabv = [k for k in [("v", "b64chars", g.get("id")) for g in tab]]
    W = finite.Walker(dec, tracked, lambda e: e.block.id == head.id, store=st2)
    env = {k: None for k in tracked}
    env.update({din: 0, dout: 0, dilen: Iv(4), OL: 0, "$read": rd2, "$call": call})
    for e in dec.all_elems():
        if e.cls == "DeclRefExpr" and e.decl and e.decl.get("name") == "b64chars":
            env[norm(e)] = "b64chars-base"
    try:
        outs = W.run(body, 0, env)
    except finite.Budget:
        raise cdb.AnalysisBroken("b64decode: evaluation of one iteration did not finish")
    ok = len(outs) == 1 and outs[0][0] == "stop"
    why = "the iteration does not come back to the loop test on a single path (%d outcomes)" % len(outs)
    if ok:
        e2 = outs[0][2]
        grp = [0] * 24
        for j in range(4):
            for i in range(6):
                grp[18 - 6 * j + i] = ("p%d" % j, i)
        want = [(k, tuple(grp[16 - 8 * k: 24 - 8 * k])) for k in range(3)]
        got = [(a, tuple(v.resize(8).b) if isinstance(v, Bits) and all(x == 0 for x in v.b[8:]) else v) for a, v in stores]
        il = e2.get(dilen)
        ok = got == want and sorted(reads) == [0, 1, 2, 3] and e2.get(din) == 4 and e2.get(dout) == 3 and e2.get(OL) == 3 and isinstance(il, Iv) and il.lo == 0 and il.hi is None
        why = "stores %s (expected %s); characters read %s, input advanced by %s, output by %s, *outlen by %s, inlen left %s" % (got, want, sorted(reads), e2.get(din), e2.get(dout), e2.get(OL), il)
    rep.check(ok, "T5-b64", "b64decode: four characters give the three bytes of their 6-bit values, most significant first; cursors and *outlen advance by 4 / 3 / 3", dec.loc, why,
              function="b64decode", construct="group")


def t5_hex(prog, rep):
    """unhexify's conversion loop, for every input (same domain as T5-b64): iteration i reads in[2i] and in[2i+1] and leaves
    out[i] == (low four bits of the first character's table position) << 4 | (low four bits of the second's); the table
    has the digit of k & 15 at position k (T2), so that is the byte the two digits denote."""
    from .. import finite
    from ..finite import Bits, Iv
    up = "util/hexify.c"
    f = prog.func(up, "unhexify")
    if f is None:
        raise cdb.AnalysisBroken("anchor missing: unhexify")
    pin, pout, plen = [("v", q["name"], q["id"]) for q in f.params[:3]]
    tracked = _int_locals(f)
    tracked.update({pin: (False, 64), pout: (False, 64), plen: (False, 64)})
    heads = [b for b in f.blocks.values() if b.term_cls == "ForStmt" and b.cond is not None and norm(b.cond)[0] == "<" and norm(b.cond)[2] == plen and norm(b.cond)[1][0] == "v"]
    if len(heads) != 1:
        raise cdb.AnalysisBroken("unhexify: the conversion loop `for (i ...; i < len; ...)` was not found (%d candidates)" % len(heads))
    head = heads[0]
    ivar = norm(head.cond)[1]

    class TabPtr:
        def __init__(self, ch):
            self.ch = ch

        def __sub__(self, o):
            if o == "hexchars-base" and isinstance(self.ch, tuple):
                return Bits.sym("p%d" % self.ch[1], 6, 64)       # a validated character's position in the 32-entry table
            raise finite.Undecided()
    for i0 in (0, 3):
        mem = {}
        reads = []

        def rd(n, env):
            if n[0] == "[]":
                b, i = finite.ev(n[1], env), finite.ev(n[2], env)
                base = n[1]
            else:
                b, i, base = finite.ev(n[1], env), 0, n[1]
            if not isinstance(b, int) or not isinstance(i, int):
                return None
            if root_var(base) is not None and root_var(base)[1:] == pout[1:]:
                return mem.get(b + i)
            if b + i not in reads:
                reads.append(b + i)
            return ("char", b + i)

        def call(n, env):
            if n[1] == "strchr" and len(n) == 4 and n[2][0] == "v" and n[2][1] == "hexchars":
                return TabPtr(finite.ev(n[3], env))
            return None

        def st(tgt, v, env, e):
            if tgt[0] == "[]":
                b, i = finite.ev(tgt[1], env), finite.ev(tgt[2], env)
                a = b + i if isinstance(b, int) and isinstance(i, int) else None
            else:
                a = finite.ev(tgt[1], env) if tgt[0] == "*" else None
            w = 8 * ((f.unit.types.get(e.kid(0).ty) or {}).get("size") or 0)
            if isinstance(v, Bits) and w:
                v = v.resize(w)
            mem[a] = v
        W = finite.Walker(f, tracked, lambda e: e.block.id == head.id, store=st)
        env = {k: None for k in tracked}
        env.update({pin: 0, pout: 0, plen: Iv(i0 + 1), ivar: i0, "$read": rd, "$call": call})
        for e in f.all_elems():
            if e.cls == "DeclRefExpr" and e.decl and e.decl.get("name") == "hexchars":
                env[norm(e)] = "hexchars-base"
        body = head.succs[0]
        try:
            outs = W.run(body, 0, env)
        except finite.Budget:
            raise cdb.AnalysisBroken("unhexify: evaluation of one iteration did not finish")
        ok = len(outs) == 1 and outs[0][0] == "stop"
        why = "%d outcomes" % len(outs)
        if ok:
            e2 = outs[0][2]
            want = Bits([("p%d" % (2 * i0 + 1), k) for k in range(4)] + [("p%d" % (2 * i0), k) for k in range(4)])
            got = mem.get(i0)
            ok = got == want and set(mem) == {i0} and sorted(reads) == [2 * i0, 2 * i0 + 1] and e2.get(ivar) == i0 + 1 and e2.get(pin) == 0 and e2.get(pout) == 0
            why = "out[%d] = %r (expected %r); stores at %s, characters read %s, index after the step %s" % (i0, got, want, sorted(mem, key=repr), sorted(reads), e2.get(ivar))
        rep.check(ok, "T5-hex", "unhexify, iteration %d: out[i] is the byte the two digits in[2i], in[2i+1] denote" % i0, f.loc, why, function="unhexify", construct="pair:%d" % i0)



def t2_padding(prog, rep):
    """b64decode accepts exactly the strings b64encode can produce: '=' only as a suffix of at most two characters.  The
    validation pass counts '=' characters; an alphabet character seen while that count is non-zero is rejected, a count
    above two is rejected, and the count is what is subtracted from the output length.  (The alphabet test itself and the
    multiple-of-four test are J2 / T2.)"""
    f = prog.func("util/b64encode.c", "b64decode")
    if f is None:
        raise cdb.AnalysisBroken("anchor missing: b64decode")
    EQ = ("c", ord("="))
    # the counter: the variable incremented on the `in[i] == '='` edge
    cnt = None
    for e in f.all_elems():
        st = ir.step(e)
        if st and st[0] == "+=" and st[2] == ("c", 1) and st[1][0] == "v":
            at = [(op, L, R) for cond, truth in f.edge_conds(e) for op, L, R, _, _ in cond_atoms(cond, truth)]
            if any(op == "==" and R == EQ and L[0] == "[]" for op, L, R in at):
                cnt = st[1]
                inc = e
    if cnt is None:
        rep.bad("T2-padding", "b64decode counts '=' characters", f.loc, "no counter incremented exactly on the in[i] == '=' edge was found", function=f.name, construct="pad-count")
        return
    rets = {norm(r.kid(0)): r for r in f.returns()}
    bad = [r for v, r in rets.items() if v != ("c", 0)]
    # edges into the rejecting return: collect the atom sets of the branches that lead straight to it
    def rejects(pred):
        for b in f.blocks.values():
            if b.cond is None or len(b.succs) != 2:
                continue
            for truth, succ in ((True, b.succs[0]), (False, b.succs[1])):
                if succ is None:
                    continue
                vals, seen = f.returns_from(succ)
                if not vals or any(v == ("c", 0) for v in vals):
                    continue
                # the atoms known on this edge: the branch's own and those of dominating branches of the same condition chain
                at = [(op, L, R) for op, L, R, _, _ in cond_atoms(b.cond, truth)]
                for cond, tr in f.edge_conds(b.cond) if b.cond is not None else []:
                    at += [(op, L, R) for op, L, R, _, _ in cond_atoms(cond, tr)]
                if pred(at):
                    return True
        return False
    after = rejects(lambda at: any(op == "!=" and R == EQ and L[0] == "[]" for op, L, R in at) and any((op == ">" and L == cnt and R == ("c", 0)) or (op == "!=" and L == cnt and R == ("c", 0)) for op, L, R in at))
    rep.check(after, "T2-padding", "an alphabet character after a '=' is rejected", f.loc,
              "no rejecting edge under (in[i] != '=' and the '=' count is non-zero): '=' could appear inside the text, e.g. \"AA=A\"", function=f.name, construct="pad-suffix")
    many = rejects(lambda at: any(op == ">" and L == cnt and R == ("c", 2) for op, L, R in at))
    rep.check(many, "T2-padding", "more than two '=' are rejected", f.loc, "no rejecting edge under count > 2", function=f.name, construct="pad-max")
    # a length that is not a multiple of four is rejected, one that is is not (by this test)
    ilen = ("v", f.params[1]["name"], f.params[1]["id"])
    mod4 = lambda t: t in (("&", ilen, ("c", 3)), ("%", ilen, ("c", 4)))
    notmult = rejects(lambda at: any(mod4(L) and R == ("c", 0) and op == "!=" for op, L, R in at))
    wrong = rejects(lambda at: any(mod4(L) and R == ("c", 0) and op == "==" for op, L, R in at) and not any(L[0] == "[]" or L == cnt for op, L, R in at))
    rep.check(notmult and not wrong, "T2-padding", "a length that is not a multiple of four is rejected (and only such a length, by the length test)", f.loc,
              "rejecting edge under inlen %% 4 != 0: %s; rejecting edge under inlen %% 4 == 0 alone: %s" % (notmult, wrong), function=f.name, construct="len-mod4")
    # the validation pass looks at every character: index from 0 up to the length
    iv = None
    for b in f.blocks.values():
        if b.cond is not None and b.term_cls == "ForStmt":
            for op, L, R, _, _ in cond_atoms(b.cond, True):
                if op == "<" and R == ilen and L[0] == "v":
                    iv = (L, b)
    okv = False
    if iv is not None:
        inits = [e for e in f.all_elems() if e.is_assign and e.op == "=" and norm(e.kid(0)) == iv[0] and any(p == e.block.id for p in iv[1].preds)]
        stepsv = [e for e in f.all_elems() if ir.step(e) and ir.step(e)[1] == iv[0] and e.block.id in f.reach_from(iv[1].id) and iv[1].id in f.reach_from(e.block.id)]
        okv = len(inits) == 1 and norm(inits[0].kid(1)) == ("c", 0) and len(stepsv) == 1 and ir.step(stepsv[0])[0] == "+=" and ir.step(stepsv[0])[2] == ("c", 1)
    rep.check(okv, "T2-padding", "the validation pass visits every character: i = 0; i < inlen; i++", f.loc, "", function=f.name, construct="validate-range")
    # accepted input answers 0, rejected input non-zero
    vals = sorted(set(v[1] for v in rets if v[0] == "c"))
    succ = [r for v, r in rets.items() if v == ("c", 0)]
    oks = len(succ) == 1 and all(sub_.block.id in f.dominators().get(succ[0].block.id, ()) or True for sub_ in []) and bool(bad)
    rep.check(oks and 0 in vals and any(v != 0 for v in vals), "T2-padding", "b64decode answers 0 for accepted input and non-zero for rejected input", f.loc, "constants returned: %s" % vals,
              function=f.name, construct="result")
    # ... the count itself, or a variable that was handed it (a validation helper's result passed back through a pointer)
    cnts = {cnt} | set(norm(e.kid(0)) for e in f.all_elems() if e.is_assign and e.op == "=" and norm(e.kid(1)) == cnt and norm(e.kid(0))[0] == "v"
                       and len([x for x in f.all_elems() if (x.is_assign or x.is_incdec) and norm(x.kid(0)) == norm(e.kid(0))]) == 1)
    sub = [e for e in f.all_elems() if e.is_assign and e.op == "-=" and norm(e.kid(1)) in cnts and norm(e.kid(0))[0] == "*"]
    rep.check(len(sub) == 1, "T2-padding", "the output length is reduced by the number of '=' characters", f.loc, "", function=f.name, construct="pad-len")



def t3_escape(prog, rep):
    """skip_string keeps track of escapes: after a backslash the next character is consumed whatever it is (so an escaped
    backslash cannot hide the closing quote and an escaped quote cannot end the string), and after \\u four more.  Otherwise a
    string value such as "C:\\\\" desynchronises the walker and json_find misses every later key."""
    u = prog.unit("util/json.c")
    f = u.func("skip_string")
    if f is None:
        raise cdb.AnalysisBroken("anchor missing: skip_string")
    ps = [p for p in f.params if p["name"] == "buf"]
    if not ps:
        rep.defer_broken("T3-escape: skip_string has no parameter buf")
        return
    P = ("v", "buf", ps[0]["id"])
    BS, U, Q = ("c", ord("\\")), ("c", ord("u")), ("c", ord('"'))
    # reads that consume: *buf++
    reads = [e for e in f.all_elems() if e.cls == "UnaryOperator" and e.op == "*" and norm(e) == ("*", ("upost++", P))]
    def atoms_of(e):
        return [(op, L, R) for cond, truth in f.edge_conds(e) for op, L, R, _, _ in cond_atoms(cond, truth)]
    esc = [r for r in reads if any(op == "==" and R == BS for op, L, R in atoms_of(r))]
    ok = len(esc) == 1
    why = "no consuming read on the backslash edge" if not esc else ""
    if ok:
        at = atoms_of(esc[0])
        # the consumption must not depend on what the next character is: no dominating test of the unread byte
        peek = [(op, L, R) for op, L, R in at if L in (("*", P), ("[]", P, ("c", 0))) and R[0] == "c"]
        ok = not peek
        why = "the character after a backslash is consumed only when it is %s: other escapes (an escaped backslash) are not skipped" % [chr(R[1]) for _, _, R in peek] if peek else ""
    rep.check(ok, "T3-escape", "skip_string consumes the character after a backslash unconditionally", (esc[0].where if esc else f.loc), why, function=f.name, construct="escape-next")
    adv = [e for e in f.all_elems() if ir.step(e) and ir.step(e)[1] == P and ir.step(e)[0] == "+=" and ir.step(e)[2] == ("c", 4)]
    ok4 = len(adv) == 1 and any(op == "==" and R == U for op, L, R in atoms_of(adv[0])) and any(op == ">=" and R == ("c", 4) and L[0] == "-" for op, L, R in atoms_of(adv[0]))
    rep.check(ok4, "T3-escape", "\\u consumes four more characters, behind end - buf >= 4", (adv[0].where if adv else f.loc), "", function=f.name, construct="escape-u")
    # the closing quote is recognised only on an unescaped character: the quote test is on the loop's first read
    first = [r for r in reads if r not in esc]
    okq = len(first) == 1 and any(op == "==" and R == Q for b in f.blocks.values() if b.cond is not None for op, L, R, _, _ in cond_atoms(b.cond, True))
    rep.check(okq, "T3-escape", "the closing quote is tested on the unescaped read", f.loc, "", function=f.name, construct="escape-quote")


JSON_WS = {0x09, 0x0A, 0x0D, 0x20}
JSON_ESC = {ord('"'): 34, ord("\\"): 92, ord("/"): 47, ord("b"): 8, ord("f"): 12, ord("n"): 10, ord("r"): 13, ord("t"): 9}


def t3_tables(prog, rep):
    """The two tables of the JSON grammar the finder relies on.  Whitespace: with the byte under the cursor set to each value
    0..255 in turn, the skipping loop advances exactly for HT, LF, CR and SP (decided per value, so the spelling of the test does
    not matter).  Escapes: in the comparison of a member name with the key, the switch on the character after a backslash gives
    exactly the eight simple escapes their characters."""
    from ..dataflow import decide_with, edge_kinds
    u = prog.unit("util/json.c")
    f = u.func("skip_ws")
    if f is None:
        raise cdb.AnalysisBroken("anchor missing: skip_ws")
    P = ("v", f.params[0]["name"], f.params[0]["id"])
    terms = (("[]", P, ("c", 0)), ("*", P))
    tests = [b for b in f.blocks.values() if b.cond is not None and (
        (b.term_cls == "SwitchStmt" and norm(b.cond) in terms) or
        (b.term_cls != "SwitchStmt" and len(b.succs) == 2 and any(decide_with(b.cond, t, 0) is not None for t in terms)))]
    order = {bid: i for i, bid in enumerate(f.rpo())}
    tests.sort(key=lambda b: order.get(b.id, 1 << 30))
    if not tests:
        rep.bad("T3-tables", "skip_ws tests the byte under the cursor", f.loc, "no comparison of buf[0] with a constant found", function=f.name, construct="ws-set")
    else:
        skipped = set()
        for k in range(256):
            cur, hops, out = tests[0].id, 0, None
            while out is None and hops < 64:
                hops += 1
                blk = f.blocks[cur]
                if any(ir.step(e) and ir.step(e)[1] == P for e in blk.elems):
                    out = "skip"
                    break
                if any(e.cls == "ReturnStmt" for e in blk.elems) or not blk.succs:
                    out = "stop"
                    break
                if blk.cond is not None and blk.term_cls == "SwitchStmt" and norm(blk.cond) in terms:
                    nxt = None
                    kinds = edge_kinds(blk)
                    for (cnd, kind), sx in zip(kinds, blk.succs):
                        if isinstance(kind, tuple) and kind[0] == "case" and k in f.blocks[sx].case_values():
                            nxt = sx
                    if nxt is None:
                        for (cnd, kind), sx in zip(kinds, blk.succs):
                            if isinstance(kind, tuple) and kind[0] == "default":
                                nxt = sx
                    cur = nxt
                    if cur is None:
                        out = "stop"
                    continue
                if blk.cond is not None and len(blk.succs) == 2:
                    d = None
                    for t in terms:
                        if d is None:
                            d = decide_with(blk.cond, t, k)
                    if d is None:
                        out = "stop"       # a condition about something else (the end of the buffer): leaves the table walk
                        break
                    cur = blk.succs[0] if d else blk.succs[1]
                else:
                    cur = blk.succs[0]
                if cur is None:
                    out = "stop"
            if out == "skip":
                skipped.add(k)
        rep.check(skipped == JSON_WS, "T3-tables", "skip_ws skips exactly HT, LF, CR and SP", tests[0].cond.where,
                  "bytes skipped: %s; JSON whitespace: %s" % (sorted(hex(x) for x in skipped), sorted(hex(x) for x in JSON_WS)), function=f.name, construct="ws-set")
    g = u.func("match_str")
    if g is None:
        raise cdb.AnalysisBroken("anchor missing: match_str")
    sw = [b for b in g.blocks.values() if b.term_cls == "SwitchStmt" and any(ord("n") in g.blocks[x].case_values() for x in b.succs if x is not None)]
    if len(sw) != 1:
        rep.defer_broken("T3-tables: the escape switch of match_str was not found")
        return
    got = {}
    for x in sw[0].succs:
        if x is None:
            continue
        for cv in g.blocks[x].case_values():
            cur, hops = g.blocks[x], 0
            while cur is not None and hops < 6:
                hops += 1
                asg = [e for e in cur.elems if e.is_assign and e.op == "=" and norm(e.kid(0))[0] == "v" and norm(e.kid(1))[0] == "c"]
                if asg:
                    got[cv] = norm(asg[0].kid(1))[1]
                    break
                if any(e.is_assign or e.cls in ("ReturnStmt", "CallExpr") for e in cur.elems):
                    break
                nxt = [y for y in cur.succs if y is not None]
                cur = g.blocks[nxt[0]] if len(nxt) == 1 else None
    simple = {k: v for k, v in got.items() if k in JSON_ESC}
    extra = sorted(chr(k) for k in got if k not in JSON_ESC)
    rep.check(simple == JSON_ESC and not extra, "T3-tables", "match_str decodes the eight simple escapes to their characters", sw[0].cond.where if sw[0].cond is not None else g.loc,
              "decoded: %s; JSON: %s%s" % ({chr(k): v for k, v in sorted(simple.items())}, {chr(k): v for k, v in sorted(JSON_ESC.items())},
                                           ("; also given a character: %s" % extra) if extra else ""), function=g.name, construct="escape-table")


JSON_NUMCHARS = set(b"+-0123456789.eE")


def _byte_truth(u, f, e, term, k, depth=0):
    """Truth of condition e when `term` is the byte k: dataflow.decide_with, extended with strchr(table, term) against a constant
    table defined in the unit (NULL unless the table holds k; the terminator counts, as in C) and with one-argument helper
    functions of the unit whose body is a single return of such a condition."""
    from ..dataflow import decide_with
    e = e.strip() if e is not None else None
    if e is None:
        return None
    if e.cls == "UnaryOperator" and e.op == "!":
        v = _byte_truth(u, f, e.kid(0), term, k, depth)
        return None if v is None else not v
    if e.cls == "BinaryOperator" and e.op in ("&&", "||"):
        a, b = _byte_truth(u, f, e.kid(0), term, k, depth), _byte_truth(u, f, e.kid(1), term, k, depth)
        if e.op == "&&":
            return False if (a is False or b is False) else (True if (a is True and b is True) else None)
        return True if (a is True or b is True) else (False if (a is False and b is False) else None)

    def ptr_nonnull(x):
        x = x.strip() if x is not None else None
        if x is not None and x.cls == "CallExpr" and x.callee == "strchr" and x.arg(0) is not None and x.arg(1) is not None and norm(x.arg(1)) == term:
            g = norm(x.arg(0))
            tab = None
            if g[0] == "v":
                for gl in u.globals:
                    if gl.get("name") == g[1] and isinstance(gl.get("init"), dict) and gl["init"].get("str") is not None:
                        tab = bytes.fromhex(gl["init"]["str"])
                if tab is None and x.arg(0).strip() is not None and x.arg(0).strip().strv is not None:
                    tab = x.arg(0).strip().strv
            elif x.arg(0).strip() is not None and x.arg(0).strip().strv is not None:
                tab = x.arg(0).strip().strv
            if tab is not None:
                return (k in tab) or k == 0
        return None
    if e.cls == "BinaryOperator" and e.op in ("==", "!=") and (norm(e.kid(1)) == ("c", 0) or norm(e.kid(0)) == ("c", 0)):
        other = e.kid(0) if norm(e.kid(1)) == ("c", 0) else e.kid(1)
        nn = ptr_nonnull(other)
        if nn is not None:
            return nn if e.op == "!=" else not nn
    nn = ptr_nonnull(e)
    if nn is not None:
        return nn
    if e.cls == "CallExpr" and e.callee and depth < 2 and len(e.args) == 1 and e.arg(0) is not None and norm(e.arg(0)) == term:
        g = u.func(e.callee)
        if g is not None and len(g.params) == 1:
            # walk the helper's CFG with its parameter known: each branch is one operand of its && / || chains; a chain of && and ||
            # (no negation around a chain) has the truth value of the operand evaluated last
            P = ("v", g.params[0]["name"], g.params[0]["id"])
            cur, last, hops = g.entry, None, 0
            came_by_branch = False
            while cur is not None and hops < 64:
                hops += 1
                blk = g.blocks[cur]
                rets = [x for x in blk.elems if x.cls == "ReturnStmt"]
                if rets:
                    r = rets[0].kid(0).strip() if rets[0].kids and rets[0].kid(0) is not None else None
                    if r is None:
                        return None
                    if r.cls == "BinaryOperator" and r.op in ("&&", "||"):
                        if "!(" in r.text.replace(" ", "") and any(r.text.replace(" ", "")[i:i + 3] == "!((" for i in range(len(r.text))):
                            return None
                        if not came_by_branch:
                            # no edge short-circuited past the last operand: it was evaluated on the way here, and is the value
                            rk = r.kid(1)
                            return _byte_truth(u, g, rk, P, k, depth + 1) if rk is not None else None
                        return last
                    return _byte_truth(u, g, r, P, k, depth + 1)
                if blk.cond is not None and len(blk.succs) == 2:
                    d = _byte_truth(u, g, blk.cond, P, k, depth + 1)
                    if d is None:
                        return None
                    last = d
                    came_by_branch = True
                    cur = blk.succs[0] if d else blk.succs[1]
                else:
                    if blk.elems:
                        came_by_branch = False
                    cur = blk.succs[0] if blk.succs else None
            return None
    return decide_with(e, term, k)


def t3_numchars(prog, rep):
    """skip_number passes exactly the fifteen characters a JSON number is made of (sign, digits, point, either exponent marker):
    with the byte under the cursor set to each value 0..255, the loop advances exactly for "+-0123456789.eE" -- whether the test is
    a strchr over a table, a helper function or a chain of comparisons.  A number with an exponent the scanner stops in ends the
    search for every later key."""
    u = prog.unit("util/json.c")
    f = u.func("skip_number")
    if f is None:
        raise cdb.AnalysisBroken("anchor missing: skip_number")
    P = ("v", f.params[0]["name"], f.params[0]["id"])
    terms = (("[]", P, ("c", 0)), ("*", P))
    order = {bid: i for i, bid in enumerate(f.rpo())}
    tests = sorted([b for b in f.blocks.values() if b.cond is not None and len(b.succs) == 2 and any(_byte_truth(u, f, b.cond, t, 48) is not None for t in terms)],
                   key=lambda b: order.get(b.id, 1 << 30))
    if not tests:
        rep.bad("T3-tables", "skip_number tests the byte under the cursor", f.loc, "no decidable test of buf[0] found", function=f.name, construct="numchars")
        return
    passed = set()
    for k in range(256):
        cur, hops, out = tests[0].id, 0, None
        while out is None and hops < 64:
            hops += 1
            blk = f.blocks[cur]
            if any(ir.step(e) and ir.step(e)[1] == P for e in blk.elems):
                out = "skip"
                break
            if any(e.cls == "ReturnStmt" for e in blk.elems) or not blk.succs:
                out = "stop"
                break
            if blk.cond is not None and len(blk.succs) == 2:
                d = None
                for t in terms:
                    if d is None:
                        d = _byte_truth(u, f, blk.cond, t, k)
                if d is None:
                    out = "stop"
                    break
                cur = blk.succs[0] if d else blk.succs[1]
            else:
                cur = blk.succs[0]
            if cur is None:
                out = "stop"
        if out == "skip":
            passed.add(k)
    want = set(JSON_NUMCHARS) | {0}
    rep.check(passed in (set(JSON_NUMCHARS), want), "T3-tables", "skip_number passes exactly the characters of a JSON number", tests[0].cond.where,
              "bytes passed: %r; a JSON number is made of %r" % (bytes(sorted(passed - {0})), bytes(sorted(JSON_NUMCHARS))), function=f.name, construct="numchars")


def t3_literals(prog, rep):
    """skip_literal recognises exactly the three JSON literals, each by comparing its own length of bytes, only when that many bytes
    remain, and steps over exactly that many: for each return of &buf[n] the controlling conditions say memcmp(buf, L, n) == 0 with
    L one of "false", "null", "true" and n its length, and (end - buf) >= n."""
    u = prog.unit("util/json.c")
    f = u.func("skip_literal")
    if f is None:
        raise cdb.AnalysisBroken("anchor missing: skip_literal")
    B = ("v", f.params[0]["name"], f.params[0]["id"])
    E = ("v", f.params[1]["name"], f.params[1]["id"])
    seen = set()
    bad = []
    for r in f.returns():
        v = norm(r.kid(0)) if r.kids else None
        if v is None or v == E:
            continue
        if not (v[0] == "&" and v[1][0] == "[]" and v[1][1] == B and v[1][2][0] == "c"):
            bad.append("`%s` is neither the end nor buf advanced by a constant" % r.text[:30])
            continue
        n = v[1][2][1]
        lit, room = None, False
        for cond, truth in f.edge_conds(r):
            for op, L, R, Le, _ in cond_atoms(cond, truth):
                k = Le.strip() if Le is not None else None
                if k is not None and k.cls == "CallExpr" and k.callee in ("memcmp", "strncmp") and op == "==" and R == ("c", 0) and k.arg(0) is not None and norm(k.arg(0)) == B and \
                        k.arg(1) is not None and k.arg(1).strip() is not None and k.arg(1).strip().strv is not None and k.arg(2) is not None and norm(k.arg(2)) == ("c", n):
                    lit = k.arg(1).strip().strv
                if op == ">=" and L == ("-", E, B) and R == ("c", n):
                    room = True
        if lit is None or len(lit) != n or lit not in (b"false", b"null", b"true") or not room:
            bad.append("advance by %d under literal %r, room test for %d bytes: %s" % (n, lit, n, room))
        else:
            seen.add(lit)
    rep.check(not bad and seen == {b"false", b"null", b"true"}, "T3-tables", "skip_literal steps over exactly false, null and true", f.loc,
              "; ".join(bad) if bad else "literals recognised: %s" % sorted(seen), function=f.name, construct="literals")


def t3_unicode(prog, rep):
    """Names written with \\u escapes never match: in match_str, every way through the 'u' arm of the escape switch either
    answers `end` or stores 0 into *foundit before it rejoins the other arms (the verdict is sticky: nothing stores 1 after the
    start).  A comparison of a made-up character against the key does not do it -- once the key is exhausted it compares equal."""
    u = prog.unit("util/json.c")
    f = u.func("match_str")
    if f is None:
        raise cdb.AnalysisBroken("anchor missing: match_str")
    fp = [p for p in f.params if (u.types.get(p["ty"]) or {}).get("kind") == "ptr" and (u.types.get((u.types.get(p["ty"]) or {}).get("pointee")) or {}).get("kind") == "int"
          and (u.types.get((u.types.get(p["ty"]) or {}).get("pointee")) or {}).get("size") == 4]
    if len(fp) != 1:
        raise cdb.AnalysisBroken("match_str: the int * verdict parameter was not found")
    V = ("*", ("v", fp[0]["name"], fp[0]["id"]))
    ub = [b for b in f.blocks.values() if ord("u") in b.case_values()]
    others = [b for b in f.blocks.values() if b.case_values() and ord("u") not in b.case_values()]
    if len(ub) != 1 or not others:
        raise cdb.AnalysisBroken("match_str: the escape switch with its 'u' arm was not found")

    def clears(blk):
        return any(e.is_assign and e.op == "=" and norm(e.kid(0)) == V and norm(e.kid(1)) == ("c", 0) for e in blk.elems)

    def returns(blk):
        return any(e.cls == "ReturnStmt" for e in blk.elems)
    seen, work = set(), [ub[0].id]
    while work:
        b = work.pop()
        if b in seen:
            continue
        seen.add(b)
        blk = f.blocks[b]
        if clears(blk) or returns(blk):
            continue
        work.extend(x for x in blk.succs if x is not None)
    # where the other arms come together with this one
    heads = set(b.id for b in f.blocks.values() if ub[0].id in [x for x in b.succs if x is not None] and b.term_cls == "SwitchStmt")
    common = set()
    for o in others:
        common |= f.reach_from(o.id, stop=heads) | {o.id}
    arm_only = seen - common
    leak = [b for b in seen & common if not (clears(f.blocks[b]) or returns(f.blocks[b]))]
    ones = [e for e in f.all_elems() if e.is_assign and norm(e.kid(0)) == V and norm(e.kid(1)) != ("c", 0)]
    sticky = len(ones) == 1 and not f.edge_conds(ones[0]) and all(f.dominates(ones[0], e) for e in f.all_elems() if e.is_assign and norm(e.kid(0)) == V and e is not ones[0])
    rep.check(not leak and sticky, "T3-escape", "match_str: a \\u escape in a name makes the name not match", ub[0].elems[0].where if ub[0].elems else f.loc,
              ("the 'u' arm rejoins the other arms at block(s) %s without *%s = 0 having been stored" % (sorted(leak), fp[0]["name"])) if leak else
              ("" if sticky else "the verdict is set to 1 other than once at the start"), function=f.name, construct="escape-u-nomatch")


SEPS = (ord(","), ord(":"))


def t3(prog, rep):
    u = prog.unit("util/json.c")
    n = 0
    for f in u.funcs:
        if f.file != u.path:
            continue
        ps = [p for p in f.params if p["name"] == "buf"]
        if not ps:
            continue
        P = ("v", "buf", ps[0]["id"])
        # does this function consume a separator?
        sep_conds = []
        for b in f.blocks.values():
            if b.cond is None:
                continue
            for op, L, R, _, _ in cond_atoms(b.cond, True):
                if L == ("*", ("upost++", P)) and R[0] == "c" and R[1] in SEPS and op in ("!=", "=="):
                    sep_conds.append((b, op, R[1]))
        if not sep_conds:
            continue

        # state: None-like sentinel 'clear' or the separator just consumed
        CLEAR = ("clear",)
        # container walkers (they test for a closing bracket) consume their opening bracket with a bare `buf++`:
        # whitespace may follow it as well ("[ ]" is an empty array)
        closes = any(R[0] == "c" and R[1] in (ord("]"), ord("}")) for b in f.blocks.values() if b.cond is not None for op, L, R, _, _ in cond_atoms(b.cond, True))
        opener = [e for e in f.all_elems() if e.is_incdec and e.op in ("post++", "pre++") and norm(e.kid(0)) == P and closes
                  and not any(p.cls == "UnaryOperator" and p.op == "*" and p.kid(0) is not None and p.kid(0).strip() is e for p in f.all_elems())]
        opener_pos = set(e.pos for e in opener if e.block.id == f.entry or e.block.id in [s for s in f.blocks[f.entry].succs if s is not None])

        def transfer(st, e):
            if e.is_assign and e.op == "=" and norm(e.kid(0)) == P:
                r = e.kid(1).strip()
                if r is not None and r.cls == "CallExpr" and r.callee == "skip_ws":
                    return CLEAR
            if e.pos in opener_pos:
                return ("sep", ord("["), e.pos)
            return st

        def refine(st, cond, kind):
            if kind in (True, False):
                for op, L, R, _, _ in cond_atoms(cond, kind):
                    if L == ("*", ("upost++", P)) and R[0] == "c" and R[1] in SEPS and op == "==":
                        return ("sep", R[1], cond.pos)
            return st
        s = Solver(f, CLEAR, transfer, refine, lambda a, b: a if a != CLEAR else b).run()
        hits = {}

        def visit(e, st):
            if st == CLEAR:
                return
            bad = None
            if e.cls == "CallExpr" and e.callee in ("skip_value", "skip_string", "skip_array", "skip_object", "skip_literal", "skip_number", "match_str"):
                bad = "calls %s" % e.callee
            elif e.cls == "ImplicitCastExpr" and e.op == "LValueToRValue":
                k = norm(e.kid(0))
                if (k[0] == "[]" and k[1] == P) or (k[0] == "*" and (k[1] == P or k[1] == ("upost++", P))):
                    bad = "examines %s" % show(k)
            if bad:
                hits.setdefault(st[2], (e, st[1], bad))
        s.visit(visit)
        for e in opener:
            if e.pos not in opener_pos:
                continue
            n += 1
            if e.pos in hits:
                he, c, bad = hits[e.pos]
                rep.bad("T3-sepws", "%s: after the opening bracket" % f.name, e.where,
                        "after consuming the opening bracket the function %s (%s) without skipping whitespace first; '[ ]' and '{ }' are valid empty containers" % (bad, he.loc),
                        function=f.name, construct="sepws:open")
            else:
                rep.ok("T3-sepws", "%s: after the opening bracket" % f.name, e.where, "skip_ws intervenes on every path")
        for b, op, ch in sep_conds:
            n += 1
            inst = "%s: after '%s'" % (f.name, chr(ch))
            pos = b.cond.pos
            if pos in hits:
                e, c, bad = hits[pos]
                rep.bad("T3-sepws", inst, b.cond.where,
                        "after consuming the '%s' separator the function %s (%s) without skipping whitespace first; "
                        "JSON allows whitespace there, and the sibling walkers skip it" % (chr(ch), bad, e.loc),
                        function=f.name, construct="sepws:%s" % chr(ch))
            else:
                rep.ok("T3-sepws", inst, b.cond.where, "skip_ws intervenes on every path")
    if n < 5:
        rep.defer_broken("T3: fewer than 5 separator-consuming sites in json.c")



def t4_defined(prog, rep):
    """Addresses are compared, duplicated and serialised bytewise (memcmp / memcpy over namelen bytes), so every byte of an
    object that becomes a sock_addr's name must be defined: it comes from calloc, or from malloc followed by a memset or
    memcpy of the same size.  Assigning the fields one by one leaves padding and unnamed members (sin6_scope_id) undefined:
    the same textual address then resolves to unequal addresses."""
    n = 0
    for up in ("util/sock.c", "util/sock_util.c"):
        u = prog.unit(up)
        for f in u.funcs:
            if f.file != up:
                continue
            for e in f.all_elems():
                if not (e.is_assign and e.op == "=" and norm(e.kid(0))[0] == "." and norm(e.kid(0))[2] == "name"):
                    continue
                n += 1
                src = e.kid(1).strip()
                tgt_terms = [norm(e.kid(0))]
                alloc = None
                if src.cls == "CallExpr":
                    alloc = src
                else:
                    v = norm(src)
                    tgt_terms.append(v)
                    defs = [d for d in f.all_elems() if d.is_assign and d.op == "=" and norm(d.kid(0)) == v and d.kid(1).strip().cls == "CallExpr"]
                    if len(defs) == 1:
                        alloc = defs[0].kid(1).strip()
                ok = False
                why = "the object's origin is not a single allocation in this function"
                if alloc is not None and alloc.callee == "calloc":
                    ok = True
                elif alloc is not None and alloc.callee == "malloc":
                    size = norm(alloc.arg(0))
                    fills = [c for c in f.calls(("memcpy", "memset")) if norm(c.arg(0)) in tgt_terms and norm(c.arg(2)) == size and f.dominates(alloc, c)]
                    ok = bool(fills)
                    why = "malloc(%s) with no memset/memcpy of that size into it: padding and members not assigned one by one stay undefined" % show(size)
                rep.check(ok, "T4-defined", "%s in %s: every byte of the address object is defined" % (e.text[:40], f.name), e.where, why, function=f.name, construct="name-defined")
    if n < 5:
        rep.defer_broken("T4-defined: fewer than 5 stores into a sock_addr's name found")


NTOP_NEED = {2: ("AF_INET", 16), 10: ("AF_INET6", 46)}


def t4_ntop(prog, rep):
    """Printing an address never fails for lack of room: every inet_ntop(family, src, dst, size) is given the space the
    longest text of that family needs (INET_ADDRSTRLEN 16, INET6_ADDRSTRLEN 46, terminator included), and no more than dst
    has.  (A short buffer makes inet_ntop fail with ENOSPC for the long addresses only.)"""
    from .. import mem
    n = 0
    for up in ("util/sock_util.c",):
        u = prog.unit(up)
        for f in u.funcs:
            if f.file != up:
                continue
            aliases = mem.local_aliases(f, u)
            for c in f.calls("inet_ntop"):
                n += 1
                fam = norm(c.arg(0))
                size = norm(c.arg(3))
                need = NTOP_NEED.get(fam[1]) if fam[0] == "c" else None
                dst = c.arg(2).strip()
                obj = None
                if dst is not None and dst.cls == "DeclRefExpr":
                    t = u.types.get(dst.ty) or {}
                    if t.get("kind") == "array":
                        obj = t.get("size")
                ok = need is not None and size[0] == "c" and size[1] >= need[1] and obj is not None and size[1] <= obj
                rep.check(ok, "T4-ntop", "%s in %s" % (c.text[:50], f.name), c.where,
                          "family %s needs %s bytes for its longest text; given %s, object of %s bytes" %
                          (need[0] if need else show(fam), need[1] if need else "?", show(size), obj), function=f.name, construct="ntop-size")
    if n < 2:
        rep.defer_broken("T4-ntop: fewer than 2 inet_ntop calls found in sock_util.c")
    # printing is the inverse of resolving: a printer converts with its own family, from the whole address member of the copy it
    # made, on every path -- the resolver takes what stands between the brackets for IPv6 exactly when it contains a ':'
    u = prog.unit("util/sock_util.c")
    for fn, fam, member in (("prettyprint_ipv4", 2, "sin_addr"), ("prettyprint_ipv6", 10, "sin6_addr")):
        f = u.func(fn)
        if f is None:
            raise cdb.AnalysisBroken("anchor missing: %s" % fn)
        cs = list(f.calls("inet_ntop"))
        bad = [c for c in cs if norm(c.arg(0)) != ("c", fam) or not (norm(c.arg(1))[0] == "&" and norm(c.arg(1))[1][0] == "." and norm(c.arg(1))[1][2] == member)]
        rep.check(bool(cs) and not bad, "T4-ntop", "%s converts the address with its own family, from the %s member" % (fn, member), (bad[0].where if bad else f.loc),
                  ("`%s`: the text produced is another family's form of (part of) the address; resolving it gives an address of that family, not the one printed" % bad[0].text[:60]) if bad else "no inet_ntop call",
                  function=fn, construct="ntop-family")


def t4(prog, rep):
    u = prog.unit("util/sock_util.c")
    rec = u.records.get("sock_addr")
    if not rec:
        raise cdb.AnalysisBroken("T4: struct sock_addr layout not found")
    fields = [f["name"] for f in rec["fields"]]

    def fname(n):
        for t in subterms(n):
            if t[0] == "." and t[2] in fields:
                return t[2]
        return None
    ser = prog.func("util/sock_util.c", "sock_addr_serialize")
    des = prog.func("util/sock_util.c", "sock_addr_deserialize")
    sseq = [(fname(norm(c.arg(1))), show(norm(c.arg(2))) if norm(c.arg(2))[0] != "c" else norm(c.arg(2))[1]) for c in sorted(ser.calls("memcpy"), key=lambda e: e.line)]
    dseq = [(fname(norm(c.arg(0))), show(norm(c.arg(2))) if norm(c.arg(2))[0] != "c" else norm(c.arg(2))[1]) for c in sorted(des.calls("memcpy"), key=lambda e: e.line)]

    def nm(seq):
        return [(a, b if isinstance(b, int) else b.split("->")[-1]) for a, b in seq]
    rep.check(nm(sseq) == nm(dseq) and len(sseq) == len(fields), "T4-sockaddr", "serialize and deserialize agree on (field, size) order", ser.loc,
              "serialize %s ; deserialize %s" % (nm(sseq), nm(dseq)), function="sock_addr_serialize", construct="layout")
    # advances between copies equal the sizes just copied (both sides)
    for f in (ser, des):
        cur = None
        evs = []
        for e in f.all_elems():
            if e.cls == "CallExpr" and e.callee == "memcpy":
                evs.append((e.line, e.i, "copy", norm(e.arg(2))))
            if e.is_assign and e.op == "+=" and norm(e.kid(0))[0] == "v":
                evs.append((e.line, e.i, "adv", norm(e.kid(1))))
        evs.sort()
        ok = True
        for i, ev in enumerate(evs[:-1]):
            if ev[2] == "copy":
                nxt = evs[i + 1]
                if nxt[2] != "adv" or nxt[3] != ev[3]:
                    ok = False
        rep.check(ok and evs and evs[-1][2] == "copy", "T4-sockaddr", "%s advances its cursor by exactly each copied size" % f.name, f.loc, "", function=f.name, construct="advance")
    # total length
    tot = [e for e in ser.all_elems() if e.is_assign and norm(e.kid(0)) == ("*", ("v", ser.params[2]["name"], ser.params[2]["id"]))]
    ok = len(tot) == 1 and lin_terms(norm(tot[0].kid(1))) == (sum(b for a, b in nm(sseq) if isinstance(b, int)), ["namelen"])
    rep.check(ok, "T4-sockaddr", "serialised length is the sum of the copied sizes", ser.loc, "", function="sock_addr_serialize", construct="total")
    # the decoder accepts exactly what the encoder produces: on its way to the success return the length it was given has been
    # tested equal to the same sum, and no earlier test turns away a length the encoder can produce (header only, empty name)
    hdr = sum(b for a, b in nm(sseq) if isinstance(b, int))
    BL = ("v", des.params[1]["name"], des.params[1]["id"])

    def linform(n, sign=1, acc=None):
        """coefficients of the leaves of a +/- expression (constants under the key None)"""
        acc = {} if acc is None else acc
        if n[0] == "+" and len(n) == 3:
            linform(n[1], sign, acc); linform(n[2], sign, acc)
        elif n[0] == "-" and len(n) == 3:
            linform(n[1], sign, acc); linform(n[2], -sign, acc)
        elif n[0] == "cast":
            linform(n[-1], sign, acc)
        elif n[0] == "c" and isinstance(n[1], int):
            acc[None] = acc.get(None, 0) + sign * n[1]
        else:
            k = n[2] if n[0] == "." else n
            acc[k] = acc.get(k, 0) + sign
        return acc

    def exact_total(L, R):
        """L == R says buflen == hdr + namelen, however the terms are distributed over the two sides"""
        d = linform(L)
        for k, v in linform(R).items():
            d[k] = d.get(k, 0) - v
        d = {k: v for k, v in d.items() if v}
        return d in ({BL: 1, "namelen": -1, None: -hdr}, {BL: -1, "namelen": 1, None: hdr})
    okret = [r for r in des.returns() if r.kids and norm(r.kid(0)) != ("c", 0)]
    exact, low = False, []
    for r in okret:
        for cond, truth in des.edge_conds(r):
            for op, L, R, _, _ in cond_atoms(cond, truth):
                if op == "==" and exact_total(L, R):
                    exact = True
                if L == BL and op in (">=", ">") and R[0] == "c":
                    low.append(R[1] + (1 if op == ">" else 0))
                if L == BL and op == "==" and not exact_total(L, R):
                    low.append(1 << 62)
    # ... and no test on the way there turns away a value of a decoded field: the encoder writes whatever the address holds
    # (a Unix-domain name is longer than any inet one), so a bound on a field alone rejects addresses that were serialised
    picky = []
    for r in okret:
        for cond, truth in des.edge_conds(r):
            for op, L, R, _, _ in cond_atoms(cond, truth):
                if exact_total(L, R):
                    continue
                if any(t[0] == "call" for x in (L, R) for t in subterms(x)):
                    continue        # an allocation's answer
                # implied by the exact length (buflen = header + namelen)?
                d = linform(L)
                for k, v in linform(R).items():
                    d[k] = d.get(k, 0) - v
                cb = d.pop(BL, 0)
                d["namelen"] = d.get("namelen", 0) + cb
                d[None] = d.get(None, 0) + cb * hdr
                d = {k: v for k, v in d.items() if v}
                if set(d) <= {None}:
                    v = d.get(None, 0)
                    if {"==": v == 0, "!=": v != 0, "<": v < 0, "<=": v <= 0, ">": v > 0, ">=": v >= 0}.get(op, False):
                        continue
                fl = [fname(x) for x in (L, R)]
                if any(x is not None for x in fl) and not (("name" in fl) and ("c", 0) in (L, R) and op in ("!=", "==")):
                    picky.append((cond, "%s %s %s" % (show(L), op, show(R))))
    rep.check(not picky, "T4-sockaddr", "deserialize accepts every field value serialize writes", (picky[0][0].where if picky else des.loc),
              "success requires `%s`: an address whose field is outside that serialises but does not deserialise" % (picky[0][1] if picky else ""),
              function=des.name, construct="field-agree")
    rep.check(exact and bool(okret) and all(c <= hdr for c in low), "T4-sockaddr", "deserialize accepts exactly the length serialize produces", des.loc,
              "serialize writes %d + namelen bytes; deserialize's success path requires: exact-length test with that sum: %s, minimum lengths: %s"
              % (hdr, exact, sorted(set(low))), function=des.name, construct="length-agree")
    # dup and cmp
    dup = prog.func("util/sock_util.c", "sock_addr_dup")
    cmpf = prog.func("util/sock_util.c", "sock_addr_cmp")
    for f, what in ((dup, "dup"), (cmpf, "cmp")):
        touched = set()
        for e in f.all_elems():
            if e.cls == "MemberExpr" and e.decl["name"] in fields:
                touched.add(e.decl["name"])
        rep.check(touched == set(fields), "T4-sockaddr", "sock_addr_%s covers every field" % what, f.loc, "fields used %s of %s" % (sorted(touched), fields),
                  function=f.name, construct="fields")
    # dup copies each scalar field from the source to the same field of the copy
    pairs = []
    for e in dup.all_elems():
        if e.is_assign and e.op == "=" and norm(e.kid(0))[0] == "." and norm(e.kid(1))[0] == ".":
            pairs.append((norm(e.kid(0))[2], norm(e.kid(1))[2]))
    rep.check(all(a == b for a, b in pairs) and len(pairs) == 3, "T4-sockaddr", "sock_addr_dup copies like to like", dup.loc, "%s" % pairs, function=dup.name, construct="dup-fields")
    # cmp returns non-zero on any difference: each field compared with !=
    ne = set()
    for b in cmpf.blocks.values():
        if b.cond is None:
            continue
        for op, L, R, _, _ in cond_atoms(b.cond, True):
            if op == "!=" and L[0] == "." and R[0] == "." and L[2] == R[2]:
                ne.add(L[2])
    rep.check(ne == set(fields) - {"name"}, "T4-sockaddr", "sock_addr_cmp compares the scalar fields pairwise", cmpf.loc, "%s" % sorted(ne), function=cmpf.name, construct="cmp-fields")
    # printers and resolver agree on the bracketed form
    fmts = []
    for fn in ("prettyprint_ipv4", "prettyprint_ipv6"):
        f = prog.func("util/sock_util.c", fn)
        for c in f.calls(("asprintf", "libcperciva_asprintf")):
            s = c.arg(1).strip()
            fmts.append(s.strv.decode("latin1") if s.strv else None)
    rep.check(fmts == ["[%s]:%d", "[%s]:%d"], "T4-sockaddr", "numeric addresses print as [addr]:port", "util/sock_util.c", "%s" % fmts, function="prettyprint", construct="format")
    r = prog.func("util/sock.c", "sock_resolve")
    last_colon = any(c.arg(1) is not None and norm(c.arg(1)) == ("c", ord(":")) for c in r.calls("strrchr"))
    br = set()
    for b in r.blocks.values():
        if b.cond is None:
            continue
        for op, L, R, _, _ in cond_atoms(b.cond, True):
            if R[0] == "c" and R[1] in (ord("["), ord("]")) and op == "!=":
                br.add(chr(R[1]))
    # address family: a literal is IPv6 exactly when it contains ':' (a '.' occurs in IPv4 literals and in IPv6 literals
    # with an embedded dotted quad alike)
    v6 = list(r.calls("sock_resolve_ipv6"))
    v4 = list(r.calls("sock_resolve_ipv4"))
    okf = len(v6) == 1 and len(v4) == 1
    if okf:
        a6 = [(op, L, R) for cond, truth in r.edge_conds(v6[0]) for op, L, R, _, _ in cond_atoms(cond, truth)]
        a4 = [(op, L, R) for cond, truth in r.edge_conds(v4[0]) for op, L, R, _, _ in cond_atoms(cond, truth)]
        def colon(L):
            return L[0] == "call" and L[1] == "strchr" and L[3] == ("c", ord(":"))
        okf = any(op == "!=" and colon(L) and R == ("c", 0) for op, L, R in a6) and any(op == "==" and colon(L) and R == ("c", 0) for op, L, R in a4)
    rep.check(okf, "T4-sockaddr", "a bracketed literal is IPv6 exactly when it contains ':'", r.loc, "", function="sock_resolve", construct="family")
    rep.check(last_colon and br == {"[", "]"}, "T4-sockaddr", "sock_resolve accepts [addr]:port split at the last colon", r.loc, "", function="sock_resolve", construct="resolve-form")
    # the port is a decimal numeral: whichever conversion the parse macro selects for the port variable's type is given base 10 (and
    # no trailing characters) -- base 0 would read `:010` as 8 and `:0x50` as 80, denoting other addresses
    pcs = [c for c in r.calls() if c.callee in ("parsenum_signed", "parsenum_unsigned") and c.block.id in r.reachable()]
    okp = bool(pcs)
    for c in pcs:
        base = norm(c.args[-2]) if len(c.args) >= 2 and c.args[-2] is not None else None
        trail = norm(c.args[-1]) if c.args and c.args[-1] is not None else None
        if base != ("c", 10) or trail != ("c", 0):
            okp = False
    rep.check(okp, "T4-sockaddr", "sock_resolve parses the port in base 10 with nothing after it", (pcs[0].where if pcs else r.loc),
              "bases / trailing flags given: %s" % [(show(norm(c.args[-2])), show(norm(c.args[-1]))) for c in pcs], function="sock_resolve", construct="port-base")
    # a path (first character '/') goes to the Unix resolver and nothing else does
    A0 = ("v", r.params[0]["name"], r.params[0]["id"])

    def slash(f, e, want):
        return any(L in (("[]", A0, ("c", 0)), ("*", A0)) and R == ("c", ord("/")) and op == ("==" if want else "!=")
                   for cond, truth in f.edge_conds(e) for op, L, R, _, _ in cond_atoms(cond, truth))
    ux = list(r.calls("sock_resolve_unix"))
    others = v4 + v6 + list(r.calls("sock_resolve_host"))
    rep.check(len(ux) == 1 and slash(r, ux[0], True) and others and all(slash(r, c, False) for c in others), "T4-sockaddr",
              "an address is a Unix path exactly when it starts with '/'", r.loc,
              "sock_resolve_unix must be reached only under addr[0] == '/', the other resolvers only under addr[0] != '/'", function="sock_resolve", construct="unix-path")
    # a numeric literal that inet_pton accepts (answer 1) is the address; any other answer fails the resolution
    su = prog.unit("util/sock.c")
    npt = 0
    for f in su.funcs:
        if f.file != "util/sock.c":
            continue
        for c in f.calls("inet_pton"):
            npt += 1
            ok = False
            for b in f.blocks.values():
                if b.cond is None or len(b.succs) != 2:
                    continue
                for truth, sx in ((True, b.succs[0]), (False, b.succs[1])):
                    for op, L, R, Le, _ in cond_atoms(b.cond, truth):
                        if Le is not None and Le.strip() is c and R == ("c", 1) and op in ("==", "!="):
                            vals, _ = f.returns_from(sx)
                            if op == "==":
                                ok_edge = any(v is not None and v != ("c", 0) for v in vals)
                            else:
                                ok_edge = bool(vals) and all(v == ("c", 0) for v in vals)
                            ok = ok_edge if not ok else ok and ok_edge
                            if not ok_edge:
                                ok = False
                                break
            rep.check(ok, "T4-sockaddr", "%s: the literal is the address exactly when inet_pton answers 1" % f.name, c.where,
                      "the edge on which inet_pton did not answer 1 must lead only to the NULL return, the edge on which it did must reach the result",
                      function=f.name, construct="pton-result")
    if npt < 2:
        rep.defer_broken("T4: fewer than 2 inet_pton calls found in sock.c")


def lin_terms(n):
    """(constant, sorted field names) of a sum."""
    c = 0
    syms = []

    def walk(x):
        nonlocal c
        if x[0] == "+":
            walk(x[1]); walk(x[2])
        elif x[0] == "c":
            c += x[1]
        elif x[0] == ".":
            syms.append(x[2])
        else:
            syms.append(show(x))
    walk(n)
    return (c, sorted(syms))


def run(tier):
    rep = report.Report("C17", tier,
        "Decided: (T1) each of the 12 endian routines is evaluated symbolically at bit level and must equal the defined byte order for "
        "every value and any alignment (byte accesses only) -- this clause is decided completely; (T2) the base-64 and hex alphabets "
        "equal values derived here from RFC 4648 / the digit definition, the decoders use the matching masks, nibble order and padding "
        "character; (T3) every JSON list walker skips whitespace after a ',' or ':' separator before examining the next element; "
        "(T4) serialize/deserialize agree field by field and size by size, dup/cmp cover every field, printers emit the bracketed form "
        "the resolver accepts; hexify's output layout (T2-layout, relational); inet_ntop is given the space its family needs (T4-ntop). Not decided: round-trip equality of base-64/hex over all strings, JSON matching semantics, inet_pton/ntop.",
        trusted=["libc inet_pton/inet_ntop/getaddrinfo"])
    configs = [cdb.HOST]
    for cfg in configs:
        prog = ir.Program(["util/b64encode.c", "util/hexify.c", "util/json.c", "util/sock.c", "util/sock_util.c", "alg/sha256.c", "alg/md5.c"], cfg)
        rep.add_stats(prog)
        t1(prog, rep)
        t2(prog, rep)
        t3(prog, rep)
        t4(prog, rep)
        t4_defined(prog, rep)
        t4_ntop(prog, rep)
        # "a Unix-path address resolves to the address it denotes and prints back": the path stored in sun_path keeps its terminator,
        # the address copies stay inside their objects (C15's bounded-copy rule on the address code)
        from . import c15
        c15.j3(prog, rep, units=("util/sock.c", "util/sock_util.c"))
        # "decoders accept exactly the well-formed encodings (... non-alphabet and NUL characters)": the rejecting validation pass
        # in front of the unchecked table look-ups, and the in-order reading of the NUL-terminated hex string (C15's J2, J7)
        c15.j2(prog, rep)
        c15.j7_strseq(prog, rep)
        t5_b64(prog, rep)
        t5_hex(prog, rep)
        t2_padding(prog, rep)
        t3_escape(prog, rep)
        t3_unicode(prog, rep)
        t3_tables(prog, rep)
        t3_numchars(prog, rep)
        t3_literals(prog, rep)
        from . import c14
        c14.leak_rules(prog, rep, only_files=("util/sock.c", "util/sock_util.c", "util/b64encode.c", "util/hexify.c", "util/json.c"))
        c14.reported_rule(prog, rep, only_files=("util/sock.c", "util/sock_util.c"))
    rep.require_min("T1-endian", 12)
    rep.require_min("T3-sepws", 5)
    rep.require_min("T4-sockaddr", 8)
    return rep
