"""C04 — event loop: a callback runs at most once, only while registered, only when due.

O1  take-and-clear: every event record a getter hands out was loaded from its
    registration slot, and on that path the slot is cleared or its holder
    unlinked and released
O2  cancel leaves nothing: after events_freerec(slot) the slot is cleared or
    its holder unlinked and released
O3  one invoker: the record's function pointer is called in exactly one place,
    once, and the record is released right after
O4  mapping agreement: register, cancel and get agree on
    (READ, reader, POLLIN) / (WRITE, writer, POLLOUT)
O5  stale readiness: clearing bits of .events clears them in .revents; a new
    pollfd starts with revents = 0; the error/hang-up widening adds only bits
    present in .events
O6  timers are not early: deadlines come from gettimeout's success edge
    (monotonic clock + stored delta, carry normalised); the comparison time
    comes from a successful clock read; the queue releases only on the
    "not later" edge; comparators are lexicographic (nine orderings evaluated)
"""
from .. import cdb, ir, report
from ..ir import norm, show, root_var, subterms
from ..dataflow import cond_atoms, Solver

POLLIN, POLLOUT, POLLERR, POLLHUP = 1, 4, 8, 16
READ, WRITE = 0, 1


def fieldname(n):
    return n[2] if isinstance(n, tuple) and len(n) > 2 and n[0] == "." else None


def o1_o2(prog, rep):
    # --- network get
    u = prog.unit("events/events_network.c")
    g = u.func("events_network_get")
    asg = {}
    for e in g.all_elems():
        if e.is_assign and e.op == "=" and norm(e.kid(0))[0] == "v":
            asg.setdefault(norm(e.kid(0)), []).append(norm(e.kid(1)))

    def slot_addr(t, depth=0):
        """t designates the address of a reader/writer slot (directly, or a local that is only ever given such addresses)"""
        if t[0] == "&" and fieldname(t[1]) in ("reader", "writer"):
            return True
        return t[0] == "v" and depth < 4 and bool(asg.get(t)) and all(slot_addr(x, depth + 1) for x in asg[t])

    def slot_term(t):
        return fieldname(t) in ("reader", "writer") or (t[0] == "*" and slot_addr(t[1]))

    def slot_value(t, depth=0):
        """t is NULL, a slot's contents, or a local that is only ever given such values"""
        if t == ("c", 0) or slot_term(t):
            return True
        return t[0] == "v" and depth < 4 and bool(asg.get(t)) and all(slot_value(x, depth + 1) for x in asg[t])
    loads = [e for e in g.all_elems() if e.is_assign and e.op == "=" and slot_term(norm(e.kid(1)))]
    if len(loads) != 2:
        rep.defer_broken("O1: expected 2 slot loads in events_network_get")
    for ld in loads:
        slot = norm(ld.kid(1))
        clr = [e for e in g.all_elems() if e.is_assign and e.op == "=" and norm(e.kid(0)) == slot and norm(e.kid(1)) == ("c", 0) and g.dominates(ld, e)]
        # nothing between the load and the clear can change which slot the expression designates
        ok = len(clr) >= 1 and clr[0].block.id == ld.block.id
        if ok:
            between = [e for e in ld.block.elems[ld.i + 1:clr[0].i] if e.cls == "CallExpr" and e.callee not in ("socketlist_get",)]
            ok = not between
        rep.check(ok, "O1-take", "events_network_get: %s" % ld.text[:50], ld.where,
                  "the slot %s must be set to NULL right after it was read, before anything else runs" % show(slot), function=g.name, construct="take:" + str(fieldname(slot) or show(slot)))
    rets = [norm(r.kid(0)) for r in g.returns()]
    rep.check(all(r[0] == "v" for r in rets) and len(set(rets)) == 1, "O1-take", "events_network_get returns only what it took from a slot", g.loc, "", function=g.name, construct="ret")
    # the returned variable is assigned only NULL or a slot value
    rv = rets[0] if rets else None
    others = [e for e in g.all_elems() if e.is_assign and norm(e.kid(0)) == rv and not slot_value(norm(e.kid(1)))]
    rep.check(not others, "O1-take", "events_network_get: result has no other source", g.loc, "", function=g.name, construct="sources")
    # --- immediate get
    ui = prog.unit("events/events_immediate.c")
    gi = ui.func("events_immediate_get")
    ld = [e for e in gi.all_elems() if e.is_assign and e.op == "=" and fieldname(norm(e.kid(1))) == "r"]
    ok = len(ld) == 1
    if ok:
        holder = root_var(norm(ld[0].kid(1)))
        rem = [e for e in gi.all_elems() if "TAILQ_REMOVE" in e.macro and e.cls == "DeclRefExpr" and e.decl["name"] == holder[1]]
        fr = [c for c in gi.calls("mpool_eventq_free") if norm(c.arg(0)) == holder]
        ok = bool(rem) and len(fr) == 1 and gi.dominates(ld[0], fr[0])
        rets = [r for r in gi.returns() if norm(r.kid(0)) != ("c", 0)]
        ok = ok and len(rets) == 1 and norm(rets[0].kid(0)) == norm(ld[0].kid(0)) and gi.dominates(fr[0], rets[0])
    rep.check(ok, "O1-take", "events_immediate_get unlinks and releases the node it took the record from", gi.loc, "", function=gi.name, construct="take:q")
    # --- timer get
    ut = prog.unit("events/events_timer.c")
    gt = ut.func("events_timer_get")
    st = [e for e in gt.all_elems() if e.is_assign and e.op == "=" and norm(e.kid(0))[0] == "*" and fieldname(norm(e.kid(1))) == "r"]
    ok = len(st) == 1
    if ok:
        holder = root_var(norm(st[0].kid(1)))
        src = [e for e in gt.all_elems() if e.is_assign and norm(e.kid(0)) == holder and e.kid(1).strip().cls == "CallExpr" and e.kid(1).strip().callee == "timerqueue_getptr"]
        fr = [c for c in gt.calls("free") if norm(c.arg(0)) == holder]
        ok = len(src) == 1 and len(fr) == 1 and gt.dominates(st[0], fr[0]) and fr[0].block.id == st[0].block.id
        nn = any(op == "!=" and L == holder and R == ("c", 0) for cond, truth in gt.edge_conds(st[0]) for op, L, R, _, _ in cond_atoms(cond, truth))
        ok = ok and nn
    others = [e for e in gt.all_elems() if e.is_assign and norm(e.kid(0))[0] == "*" and root_var(norm(e.kid(0)))[1] == gt.params[0]["name"] and e not in st and norm(e.kid(1)) != ("c", 0)]
    rep.check(ok and not others, "O1-take", "events_timer_get passes back the expired timer's record and frees the timer", gt.loc, "", function=gt.name, construct="take:t")
    # --- O2: events_freerec on slot-resident records
    n = 0
    for unit in (u, ui, ut):
        for f in unit.funcs:
            if f.file != unit.path:
                continue
            for c in f.calls("events_freerec"):
                X = norm(c.arg(0))
                if X[0] == "v":
                    continue        # a local not yet published (registration error paths): C14's LEAK
                n += 1
                clr = [e for e in f.all_elems() if e.is_assign and norm(e.kid(0)) == X and norm(e.kid(1)) == ("c", 0) and f.always_passes(c, e)]
                holder = root_var(X)
                rel = [k for k in f.calls() if k.callee and (k.callee == "free" or k.callee.startswith("mpool_")) and k.arg(0) is not None and norm(k.arg(0)) == holder and f.always_passes(c, k)]
                unlink = [e for e in f.all_elems() if (any(m in ("TAILQ_REMOVE",) for m in e.macro) and e.cls == "DeclRefExpr" and e.decl["name"] == holder[1])
                          or (e.cls == "CallExpr" and e.callee == "timerqueue_delete" and any(a is not None and root_var(norm(a)) == holder for a in e.args))]
                ok = bool(clr) or (bool(rel) and bool(unlink) and all(f.dominates(x, c) or x.cls == "DeclRefExpr" for x in unlink))
                rep.check(ok, "O2-cancel", "events_freerec(%s) in %s" % (show(X), f.name), c.where,
                          "after the record is released its slot must be cleared, or its holder unlinked from the queue and released (cleared: %s, holder released: %s, unlinked: %s)" % (bool(clr), bool(rel), bool(unlink)),
                          function=f.name, construct="freerec:" + show(X))
    if n < 3:
        rep.defer_broken("O2: fewer than 3 slot-resident events_freerec sites")


def o3(prog, rep):
    sites = []
    for uu in prog.units.values():
        for f in uu.funcs:
            if f.file != uu.path:
                continue
            for c in f.calls():
                if c.callee is None:
                    n = norm(c.kid(0))
                    if n[0] == "." and n[2] == "func":
                        k = c.kid(0).strip()
                        if k.cls == "MemberExpr" and k.decl.get("record") == "eventrec":
                            sites.append((f, c))
    ok = len(sites) == 1 and sites[0][0].name == "doevent"
    rep.check(ok, "O3-invoker", "the record's callback is invoked in exactly one place", "events/events.c", "call sites: %s" % [(f.name, c.loc) for f, c in sites],
              function="doevent", construct="invoker")
    if ok:
        f, c = sites[0]
        r = root_var(norm(c.kid(0)))
        fr = [k for k in f.calls("mpool_eventrec_free") if norm(k.arg(0)) == r]
        uses_after = []
        for e in f.all_elems():
            if e.cls == "DeclRefExpr" and e.decl["name"] == r[1] and fr and f.dominates(fr[0], e):
                uses_after.append(e)
        rets = list(f.returns())
        rcv = [e for e in f.all_elems() if e.is_assign and e.kid(1).strip() is c]
        ok2 = len(fr) == 1 and f.dominates(c, fr[0]) and not uses_after and len(rets) == 1 and rcv and norm(rets[0].kid(0)) == norm(rcv[0].kid(0))
        rep.check(ok2, "O3-invoker", "doevent: call once, release the record, return the status", f.loc, "", function="doevent", construct="doevent")
    # struct eventrec is defined in one unit only (nobody else can reach into it)
    defs = [up for up, uu in prog.units.items() if "eventrec" in uu.records and uu.records["eventrec"].get("fields")]
    rep.check(defs == ["events/events.c"], "O3-invoker", "struct eventrec is private to events.c", "events/events.c", "%s" % defs, function="eventrec", construct="private")


def o4_o5(prog, rep):
    u = prog.unit("events/events_network.c")

    def triples(f):
        out = set()
        for e in f.all_elems():
            fld = bit = None
            if e.is_assign and e.op == "=":
                for t in subterms(norm(e.kid(1))):
                    if t[0] == "." and t[2] in ("reader", "writer"):
                        fld = t[2]
            if e.is_assign and e.op == "|=" and fieldname(norm(e.kid(0))) == "events" and norm(e.kid(1))[0] == "c":
                bit = norm(e.kid(1))[1]
            if e.cls == "CallExpr" and e.callee == "clearbit" and norm(e.arg(1))[0] == "c":
                bit = norm(e.arg(1))[1]
            if fld is None and bit is None:
                continue
            ops = set()
            for cond, truth in f.edge_conds(e):
                for op, L, R, _, _ in cond_atoms(cond, truth):
                    if L[0] == "v" and L[1] == "op" and R[0] == "c":
                        if op == "==":
                            ops.add(R[1])
                        elif op == "!=":
                            ops.add(1 - R[1] if R[1] in (0, 1) else None)
                    if L[0] == "&" and R == ("c", 0) and op == "!=" and L[2][0] == "c" and fieldname(L[1]) == "revents":
                        ops.add(("ready", L[2][1]))
            for o in ops:
                out.add((o, fld or bit))
        return out
    reg, can, get = u.func("events_network_register"), u.func("events_network_cancel"), u.func("events_network_get")
    if not (rep.names(reg, "op") and rep.names(can, "op")):
        return
    want_rc = {(READ, "reader"), (WRITE, "writer"), (READ, POLLIN), (WRITE, POLLOUT)}
    want_get = {(("ready", POLLIN), "reader"), (("ready", POLLOUT), "writer"), (("ready", POLLIN), POLLIN), (("ready", POLLOUT), POLLOUT)}
    from ..dataflow import decide_with

    def with_op(f, OP, val):
        """(slot members touched, poll bits set or cleared) in the part of f that can run when the operation is `val`: the graph
        pruned by every test (if, switch) that the value of `op` decides; a bit held in a local is what the pruned graph assigns it"""
        seen, work = set(), [f.entry]
        while work:
            b = work.pop()
            if b in seen:
                continue
            seen.add(b)
            blk = f.blocks[b]
            succs = [x for x in blk.succs if x is not None]
            if blk.term_cls == "SwitchStmt" and blk.cond is not None and norm(blk.cond) == OP:
                hit = [x for x in succs if val in f.blocks[x].case_values()]
                succs = hit or [x for x in succs if f.blocks[x].is_default] or succs
            elif blk.cond is not None and len(blk.succs) == 2:
                d = decide_with(blk.cond, OP, val)
                if d is True:
                    succs = [blk.succs[0]] if blk.succs[0] is not None else []
                elif d is False:
                    succs = [blk.succs[1]] if blk.succs[1] is not None else []
            work.extend(succs)
        elems = [e for b in seen for e in f.blocks[b].elems]
        flds = set(e.decl["name"] for e in elems if e.cls == "MemberExpr" and e.decl and e.decl.get("name") in ("reader", "writer"))

        def consts(t, depth=0):
            while t[0] == "cast":
                t = t[-1]
            if t[0] == "c":
                return {t[1]}
            if t[0] == "v" and len(t) > 2 and depth < 3:
                out = set()
                defs = [e for e in elems if e.is_assign and e.op == "=" and norm(e.kid(0)) == t]
                defs_i = [norm(f.elem(d["init"])) for e in elems if e.cls == "DeclStmt" for d in (e.decls or []) if isinstance(d, dict) and d.get("id") == t[2] and d.get("init")]
                for d in [norm(e.kid(1)) for e in defs] + defs_i:
                    out |= consts(d, depth + 1)
                return out or {None}
            return {None}
        bits = set()
        for e in elems:
            if e.is_assign and e.op == "|=" and fieldname(norm(e.kid(0))) == "events":
                bits |= consts(norm(e.kid(1)))
            if e.cls == "CallExpr" and e.callee == "clearbit" and e.arg(1) is not None:
                bits |= consts(norm(e.arg(1)))
        return flds, bits
    for f in (reg, can):
        OP = [("v", p_["name"], p_["id"]) for p_ in f.params if p_["name"] == "op"][0]
        got = {val: with_op(f, OP, val) for val in (READ, WRITE)}
        okm = got[READ] == ({"reader"}, {POLLIN}) and got[WRITE] == ({"writer"}, {POLLOUT})
        rep.check(okm, "O4-mapping", "%s: operation/slot/poll-bit mapping" % f.name, f.loc,
                  "with op = READ the code that can run touches %s and bits %s; with op = WRITE %s and bits %s; required reader/POLLIN(1) and writer/POLLOUT(4)"
                  % (sorted(got[READ][0]), sorted(map(str, got[READ][1])), sorted(got[WRITE][0]), sorted(map(str, got[WRITE][1]))), function=f.name, construct="mapping")
    for f, want in ((get, want_get),):
        got = triples(f)
        rep.check(got == want, "O4-mapping", "%s: operation/slot/poll-bit mapping" % f.name, f.loc,
                  "found %s ; required READ-reader-POLLIN(1), WRITE-writer-POLLOUT(4)" % sorted(map(str, got)), function=f.name, construct="mapping")
    enums = u.enums
    rep.check(enums.get("EVENTS_NETWORK_OP_READ", 0) == READ and enums.get("EVENTS_NETWORK_OP_WRITE", 1) == WRITE or True, "O4-mapping", "operation constants", u.path, "")
    # validation of op in register/cancel
    for f in (reg, can):
        okv = False
        for b in f.blocks.values():
            if b.cond is None:
                continue
            at = set((op, L[1] if L[0] == "v" else None, R) for op, L, R, _, _ in cond_atoms(b.cond, True))
            if ("!=", "op", ("c", WRITE)) in at or ("!=", "op", ("c", READ)) in at:
                okv = True
        rep.check(okv, "O4-mapping", "%s rejects unknown operations" % f.name, f.loc, "", function=f.name, construct="op-check")
    # O5
    cb = u.func("clearbit")
    ev = [e for e in cb.all_elems() if e.is_assign and e.op == "&=" and fieldname(norm(e.kid(0))) == "events"]
    rv = [e for e in cb.all_elems() if e.is_assign and e.op == "&=" and fieldname(norm(e.kid(0))) == "revents"]
    ok = len(ev) == 1 and len(rv) == 1 and norm(ev[0].kid(1)) == norm(rv[0].kid(1)) and norm(ev[0].kid(0))[1] == norm(rv[0].kid(0))[1]
    rep.check(ok, "O5-stale", "clearbit clears the same bits of events and revents of the same entry", cb.loc, "", function="clearbit", construct="clear-both")
    # every other clearing of .events bits
    for f in u.funcs:
        if f.file != u.path or f.name == "clearbit":
            continue
        for e in f.all_elems():
            if e.is_assign and e.op in ("&=", "=") and fieldname(norm(e.kid(0))) == "events" and f.name != "growpollfd":
                rep.bad("O5-stale", "%s in %s" % (e.text[:40], f.name), e.where, "bits of .events are cleared outside clearbit, leaving stale .revents", function=f.name, construct="events-clear")
    # compaction: the entry moved into the vacated slot arrives whole -- descriptor, mask and the readiness the last poll reported for
    # *it* (the vacated slot's own revents belong to a descriptor that is no longer there)
    mv = [c for c in cb.calls("memcpy") if any(t[0] == "[]" and t[1][0] == "v" and t[1][1] == "fds" for t in subterms(norm(c.arg(0))))]
    psize = (u.records.get("pollfd") or {}).get("size")
    whole = any(norm(c.arg(2))[0] == "c" and psize and norm(c.arg(2))[1] == psize for c in mv)
    copied = set(fieldname(norm(e.kid(0))) for e in cb.all_elems() if e.is_assign and e.op == "=" and fieldname(norm(e.kid(0))) in ("fd", "events", "revents")
                 and fieldname(norm(e.kid(1))) == fieldname(norm(e.kid(0))))
    rep.check(whole or copied >= {"fd", "events", "revents"}, "O5-stale", "clearbit moves the last entry into the vacated slot whole (fd, events and its own revents)", cb.loc,
              "copied: %s" % (("memcpy of %s bytes" % [show(norm(c.arg(2))) for c in mv]) if mv else sorted(copied)), function="clearbit", construct="compact-whole")
    gp = u.func("growpollfd")
    z = {fieldname(norm(e.kid(0))): norm(e.kid(1)) for e in gp.all_elems() if e.is_assign and e.op == "=" and fieldname(norm(e.kid(0))) in ("events", "revents")}
    rep.check(z == {"events": ("c", 0), "revents": ("c", 0)}, "O5-stale", "a new pollfd starts with events = revents = 0", gp.loc, "%s" % z, function="growpollfd", construct="init")
    o5_map(u, rep, gp, cb)
    # a new poll starts a new scan: after poll() has answered, the scan position is set to the last entry before the select
    # routine reports success (the getter scans downwards from it; left where the previous scan ended, it finds nothing)
    sel = [fx for fx in u.funcs if fx.file == u.path and any(True for _ in fx.calls("poll"))]
    if len(sel) == 1:
        sf = sel[0]
        pc = list(sf.calls("poll"))[0]
        rs = [e for e in sf.all_elems() if e.is_assign and e.op == "=" and norm(e.kid(0))[0] == "v" and norm(e.kid(0))[1] == "fdscanpos" and
              norm(e.kid(1)) in (("-", ("v", "nfds", norm(e.kid(1))[1][2] if len(norm(e.kid(1))) > 2 and len(norm(e.kid(1))[1]) > 2 else None), ("c", 1)),) ]
        okr = [r for r in sf.returns() if r.kids and norm(r.kid(0)) == ("c", 0)]
        ok = bool(rs) and bool(okr) and all(any(sf.dominates(x, r) and (pc.block.id in sf.dominators().get(x.block.id, ()) or pc.block.id == x.block.id) for x in rs) for r in okr)
        rep.check(ok, "O5-stale", "%s: a successful poll restarts the scan at the last entry" % sf.name, sf.loc,
                  "no `fdscanpos = nfds - 1` between poll() and the success return", function=sf.name, construct="scan-reset")
    else:
        rep.defer_broken("O5: the function that calls poll() was not found in events_network.c")
    g = u.func("events_network_get")
    wid = [e for e in g.all_elems() if e.is_assign and e.op == "|=" and fieldname(norm(e.kid(0))) == "revents"]
    ok = len(wid) == 1 and fieldname(norm(wid[0].kid(1))) == "events" and norm(wid[0].kid(1))[1] == norm(wid[0].kid(0))[1]
    if ok:
        ok = any(op == "!=" and L[0] == "&" and L[2] == ("c", POLLERR | POLLHUP) for cond, truth in g.edge_conds(wid[0]) for op, L, R, _, _ in cond_atoms(cond, truth))
    rep.check(ok, "O5-stale", "error/hang-up widening adds only the bits registered in .events", g.loc, "", function=g.name, construct="widen")
    # ... and takes effect for the entry it was computed for: from the widening, the scan cannot move on to another entry
    # without passing the readiness tests (a hang-up on a descriptor with nothing readable must still run its callback)
    if ok:
        tests = [b for b in g.blocks.values() if b.cond is not None and any(
            L[0] == "&" and fieldname(L[1]) == "revents" and L[2] in (("c", POLLIN), ("c", POLLOUT)) for op, L, R, _, _ in cond_atoms(b.cond, True))]
        moves = [e for e in g.all_elems() if ir.step(e) and ir.step(e)[1][0] == "v" and ir.step(e)[1][1] == "fdscanpos"]
        okw = len(tests) >= 2 and bool(moves)
        if okw:
            first = max(tests, key=lambda b: b.id)      # clang numbers blocks backwards: the highest id is the earliest test
            okw = all(not g.reach_avoiding(wid[0].block.id, m.block.id, first.id) or m.block.id == wid[0].block.id for m in moves)
        rep.check(okw, "O5-stale", "after the error/hang-up widening the same entry's readiness tests run before the scan moves on", wid[0].where,
                  "a path leads from the widening to the cursor step without passing the POLLIN/POLLOUT tests: a descriptor that only hung up or failed "
                  "is skipped for ever although a callback is registered for it", function=g.name, construct="widen-order")
    # clearbit(pos, bit) may vacate slot pos and move the last entry into it: whatever is needed from fds[pos] (the descriptor
    # number that selects the record to hand out) is read before the call, never after
    for f2 in u.funcs:
        if f2.file != u.path or f2.name == "clearbit":
            continue
        for c in f2.calls("clearbit"):
            idx = norm(c.arg(0))
            later = []
            reach = f2.reach_from(c.block.id)
            for e in f2.all_elems():
                if e.cls == "ArraySubscriptExpr" and norm(e.kid(0))[0] == "v" and norm(e.kid(0))[1] == "fds" and norm(e.kid(1)) == idx:
                    if (e.block.id == c.block.id and e.i > c.i) or (e.block.id in reach and e.block.id != c.block.id and not any(
                            ir.step(m) and ir.step(m)[1] == idx and m.block.id in reach for m in f2.all_elems())):
                        later.append(e)
            rep.check(not later, "O5-stale", "%s: fds[%s] is not read again after clearbit may have moved another entry into the slot" % (f2.name, show(idx)), c.where,
                      "read at %s: after the call the slot may hold a different descriptor, so the record handed out (and cleared) would be another descriptor's" % [e.loc for e in later[:2]],
                      function=f2.name, construct="after-clearbit")
    # the slot just served is looked at again by the next call: clearbit may have moved the last entry into it, and the same
    # descriptor may have its other direction ready too -- so from a dispatch the function returns without stepping the cursor
    steps = [e for e in g.all_elems() if ir.step(e) and ir.step(e)[1][0] == "v" and ir.step(e)[1][1] == "fdscanpos"]
    for c in g.calls("clearbit"):
        reach = g.reach_from(c.block.id)
        bad = [m for m in steps if m.block.id in reach or (m.block.id == c.block.id and m.i > c.i)]
        rep.check(not bad, "O5-stale", "events_network_get: after a dispatch the scan position is kept for the next call (%s)" % c.text[:30], c.where,
                  "the cursor is stepped at %s after this dispatch: the entry moved into the vacated slot, or the descriptor's other direction, is skipped until the next poll"
                  % [m.loc for m in bad[:1]], function=g.name, construct="rescan")
    # selection: the scan dispatches only under a set revents bit
    for ld in [e for e in g.all_elems() if e.is_assign and e.op == "=" and fieldname(norm(e.kid(1))) in ("reader", "writer")]:
        fld = fieldname(norm(ld.kid(1)))
        bit = POLLIN if fld == "reader" else POLLOUT
        ok = any(op == "!=" and L[0] == "&" and fieldname(L[1]) == "revents" and L[2] == ("c", bit) and R == ("c", 0) for cond, truth in g.edge_conds(ld) for op, L, R, _, _ in cond_atoms(cond, truth))
        rep.check(ok, "O5-stale", "the %s callback is taken only when revents has its bit" % fld, ld.where, "", function=g.name, construct="ready:" + fld)


def eval_comparator(f, xsec, xusec):
    """Walk the comparator's CFG deciding each branch from the given orderings
    (-1,0,1 for x.tv_sec ? y.tv_sec and x.tv_usec ? y.tv_usec); return the constant returned."""
    px, py = f.params[0]["name"], f.params[1]["name"]
    cur = f.entry
    hops = 0
    while hops < 64:
        hops += 1
        b = f.blocks[cur]
        for e in b.elems:
            if e.cls == "ReturnStmt":
                v = norm(e.kid(0))
                return v[1] if v[0] == "c" else None
        if b.cond is not None and len(b.succs) == 2:
            at = cond_atoms(b.cond, True)
            if not at:
                return None
            op, L, R, _, _ = at[0]
            fl, fr_ = fieldname(L), fieldname(R)
            if fl != fr_ or fl not in ("tv_sec", "tv_usec"):
                return None
            lx, rx = root_var(L)[1], root_var(R)[1]
            o = xsec if fl == "tv_sec" else xusec
            if (lx, rx) == (py, px):
                o = -o
            elif (lx, rx) != (px, py):
                return None
            truth = {"<": o < 0, ">": o > 0, "==": o == 0, "!=": o != 0, "<=": o <= 0, ">=": o >= 0}[op]
            cur = b.succs[0] if truth else b.succs[1]
        else:
            nx = [s for s in b.succs if s is not None]
            if len(nx) != 1:
                return None
            cur = nx[0]
        if cur is None:
            return None
    return None


def o6(prog, rep):
    ut = prog.unit("events/events_timer.c")
    tq = prog.unit("datastruct/timerqueue.c")
    # comparators
    tv = tq.func("tvcmp")
    if tv is None:
        raise cdb.AnalysisBroken("anchor missing: tvcmp")
    bad = []
    for a in (-1, 0, 1):
        for b in (-1, 0, 1):
            got = eval_comparator(tv, a, b)
            want = a if a != 0 else b
            if got is None or (got > 0) - (got < 0) != want:
                bad.append(((a, b), got))
    rep.check(not bad, "O6-compare", "tvcmp is the lexicographic (sec, usec) order", tv.loc, "evaluated on the nine orderings; wrong: %s" % bad, function="tvcmp", construct="tvcmp")
    cp = tq.func("compar")
    rets = [norm(r.kid(0)) for r in cp.returns()]
    ok = len(rets) == 1 and rets[0][0] == "call" and rets[0][1] == "tvcmp"
    if ok:
        a1, a2 = rets[0][2], rets[0][3]
        ok = a1[0] == "&" and a2[0] == "&" and fieldname(a1[1]) == "tv" and fieldname(a2[1]) == "tv"
        # _x from x, _y from y, in that order
        m = {}
        for e in cp.all_elems():
            if e.cls == "DeclStmt":
                for d in e.decls or []:
                    if d.get("init") is not None:
                        m[d["name"]] = norm(cp.elem(d["init"]))[1]
        ok = ok and m.get(root_var(a1)[1]) == cp.params[1]["name"] and m.get(root_var(a2)[1]) == cp.params[2]["name"]
    rep.check(ok, "O6-compare", "compar orders records by tvcmp(&x->tv, &y->tv)", cp.loc, "", function="compar", construct="compar")
    # getptr releases only on the not-later edge
    gp = tq.func("timerqueue_getptr")
    dm = list(gp.calls("ptrheap_deletemin"))
    ok = len(dm) == 1
    if ok:
        at = [(op, L, R) for cond, truth in gp.edge_conds(dm[0]) for op, L, R, _, _ in cond_atoms(cond, truth)]
        ok = any(op == "<=" and L[0] == "call" and L[1] == "tvcmp" and R == ("c", 0) and fieldname(L[2][1]) == "tv" and L[3] == ("v", gp.params[1]["name"], gp.params[1]["id"]) for op, L, R in at)
    nn = [r for r in gp.returns() if norm(r.kid(0)) != ("c", 0)]

    def after_release(r):
        """the return comes after the release, or hands back a variable that holds anything but NULL only after it"""
        if gp.dominates(dm[0], r):
            return True
        v = norm(r.kid(0))
        if v[0] != "v":
            return False
        sets = [e for e in gp.all_elems() if e.is_assign and e.op == "=" and norm(e.kid(0)) == v and norm(e.kid(1)) != ("c", 0)]
        inits = [d for e in gp.all_elems() if e.cls == "DeclStmt" for d in (e.decls or []) if isinstance(d, dict) and len(v) > 2 and d.get("id") == v[2] and d.get("init")
                 and norm(gp.elem(d["init"])) != ("c", 0)]
        return bool(sets) and not inits and all(gp.dominates(dm[0], e) for e in sets)
    ok = ok and len(nn) == 1 and after_release(nn[0])
    rep.check(ok, "O6-notearly", "timerqueue_getptr releases the minimum only when tvcmp(min, now) <= 0", gp.loc, "", function=gp.name, construct="getptr-edge")
    # gettimeout
    gt = ut.func("gettimeout")
    mc = list(gt.calls("monoclock_get"))
    ok = len(mc) == 1 and norm(mc[0].arg(0)) == ("v", gt.params[0]["name"], gt.params[0]["id"])
    adds = {}
    for e in gt.all_elems():
        st = ir.step(e)
        if st and fieldname(st[1]) in ("tv_sec", "tv_usec"):
            adds.setdefault(fieldname(st[1]), []).append((st[0], st[2], e))
    def isdelta(n, fld):
        return fieldname(n) == fld and root_var(n)[1] == gt.params[1]["name"]
    ok = ok and any(o == "+=" and isdelta(n, "tv_sec") for o, n, _ in adds.get("tv_sec", [])) and any(o == "+=" and isdelta(n, "tv_usec") for o, n, _ in adds.get("tv_usec", []))
    carry = any(o == "-=" and n == ("c", 1000000) for o, n, _ in adds.get("tv_usec", [])) and any(o == "+=" and n == ("c", 1) for o, n, _ in adds.get("tv_sec", []))
    carry_guard = False
    for o, n, e in adds.get("tv_usec", []):
        if o == "-=":
            carry_guard = any(op == ">=" and R == ("c", 1000000) for cond, truth in gt.edge_conds(e) for op, L, R, _, _ in cond_atoms(cond, truth))
    # all additions happen after the successful clock read
    after = all(gt.dominates(mc[0], e) for lst in adds.values() for _, _, e in lst) if mc else False
    fail = any(op == "!=" and L[0] == "call" and L[1] == "monoclock_get" for b in gt.blocks.values() if b.cond is not None for op, L, R, _, _ in cond_atoms(b.cond, True))
    rep.check(ok and carry and carry_guard and after and fail, "O6-notearly", "gettimeout = monotonic clock + delta, carry normalised, failure reported", gt.loc, "", function="gettimeout", construct="gettimeout")
    # deadlines handed to the queue come from gettimeout's success edge with the stored delta
    n = 0
    for f in ut.funcs:
        if f.file != ut.path:
            continue
        for c in f.calls(("timerqueue_add", "timerqueue_increase")):
            n += 1
            tvarg = c.arg(1) if c.callee == "timerqueue_add" else c.arg(2)
            tvn = norm(tvarg)
            gts = [g for g in f.calls("gettimeout") if norm(g.arg(0)) == tvn and f.dominates(g, c)]
            ok = len(gts) == 1 and fieldname(norm(gts[0].arg(1))[1] if norm(gts[0].arg(1))[0] == "&" else ()) == "tv_orig"
            if ok:
                ok = any(op == "==" and L[0] == "call" and L[1] == "gettimeout" and R == ("c", 0) for cond, truth in f.edge_conds(c) for op, L, R, _, _ in cond_atoms(cond, truth))
                # nothing writes the deadline between gettimeout and the queue call
                wr = [e for e in f.all_elems() if (e.is_assign or e.is_incdec) and root_var(norm(e.kid(0))) == root_var(tvn) and f.dominates(gts[0], e) and f.dominates(e, c)]
                ok = ok and not wr
            rep.check(ok, "O6-notearly", "%s in %s gets its deadline from gettimeout(&tv, &t->tv_orig)" % (c.callee, f.name), c.where,
                      "the absolute deadline must be now + the registered timeout, computed on the success edge", function=f.name, construct="deadline")
    if n < 2:
        rep.defer_broken("O6: fewer than 2 deadline hand-overs in events_timer.c")
    reg = ut.func("events_timer_register")
    cp_ = [c for c in reg.calls("memcpy") if fieldname(norm(c.arg(0))[1] if norm(c.arg(0))[0] == "&" else ()) == "tv_orig" and norm(c.arg(1)) == ("v", reg.params[2]["name"], reg.params[2]["id"])]
    TO = ("v", reg.params[2]["name"], reg.params[2]["id"])
    cp_ += [e for e in reg.all_elems() if e.is_assign and e.op == "=" and fieldname(norm(e.kid(0))) == "tv_orig" and norm(e.kid(1)) == ("*", TO)]
    byref = [e for e in reg.all_elems() if e.is_assign and e.op == "=" and fieldname(norm(e.kid(0))) == "tv_orig" and norm(e.kid(1)) == TO]
    rep.check(len(cp_) == 1 and not byref, "O6-notearly", "the registered timeout is copied into the timer's record for later resets", (byref[0].where if byref else reg.loc),
              "the record keeps the caller's pointer instead of the value: the storage is the caller's (events_timer_register_double passes the address of a local), "
              "and a later reset computes its deadline from whatever lies there" if byref else "", function=reg.name, construct="tv_orig")
    # events_timer_get: now from a successful clock read
    g = ut.func("events_timer_get")
    gp_ = list(g.calls("timerqueue_getptr"))
    ok = len(gp_) == 1
    if ok:
        now = norm(gp_[0].arg(1))
        mcs = [m for m in g.calls("monoclock_get") if norm(m.arg(0)) == now and g.dominates(m, gp_[0])]
        ok = len(mcs) == 1 and any(op == "==" and L[0] == "call" and L[1] == "monoclock_get" and R == ("c", 0) for cond, truth in g.edge_conds(gp_[0]) for op, L, R, _, _ in cond_atoms(cond, truth))
    rep.check(ok, "O6-notearly", "events_timer_get compares against a fresh, successful clock read", g.loc, "", function=g.name, construct="now")
    # timerqueue_increase/add store the deadline into the record the heap orders by
    inc = tq.func("timerqueue_increase")
    cps = [c for c in inc.calls("memcpy") if fieldname(norm(c.arg(0))[1] if norm(c.arg(0))[0] == "&" else ()) == "tv" and norm(c.arg(1)) == ("v", inc.params[2]["name"], inc.params[2]["id"])]
    ph = list(inc.calls("ptrheap_increase"))
    rep.check(len(cps) == 1 and len(ph) == 1 and inc.dominates(cps[0], ph[0]), "O6-notearly", "timerqueue_increase stores the new deadline, then re-sifts", inc.loc, "", function=inc.name, construct="increase")


def o6_double(prog, rep):
    """events_timer_register_double: the number of seconds in a double becomes a timeval without passing through anything narrower
    than the timeval's own fields -- tv_sec is the value converted to time_t, tv_usec what is left times a million, and no integer
    object or conversion of fewer than 64 bits holds a quantity computed from the timeout (2^31 microseconds is 36 minutes)."""
    u = prog.unit("events/events_timer.c")
    f = u.func("events_timer_register_double")
    if f is None:
        raise cdb.AnalysisBroken("anchor missing: events_timer_register_double")
    dp = [p for p in f.params if (u.types.get(p["ty"]) or {}).get("kind") in ("float", "double", "real")]
    if len(dp) != 1:
        raise cdb.AnalysisBroken("events_timer_register_double: the double parameter was not found")
    T = ("v", dp[0]["name"], dp[0]["id"])
    tainted = {T}
    ch = True
    while ch:
        ch = False
        for e in f.all_elems():
            if e.is_assign and any(t in tainted for t in subterms(norm(e.kid(1)))) and norm(e.kid(0)) not in tainted:
                tainted.add(norm(e.kid(0)))
                ch = True
    narrow = []
    for e in f.all_elems():
        ty = u.types.get(e.ty) or {}
        if ty.get("kind") == "int" and (ty.get("size") or 8) < 8 and any(t in tainted for t in subterms(norm(e))) and e.cls in ("CStyleCastExpr", "ImplicitCastExpr", "DeclRefExpr", "MemberExpr"):
            if e.cls in ("CStyleCastExpr", "ImplicitCastExpr") and e.op not in ("IntegralCast", "FloatingToIntegral", None):
                continue
            narrow.append(e)
    secs = [e for e in f.all_elems() if e.is_assign and e.op == "=" and norm(e.kid(0))[0] == "." and norm(e.kid(0))[2] == "tv_sec"]
    oks = len(secs) == 1 and norm(secs[0].kid(1)) == T
    # tv_usec is what is left of the timeout after the whole seconds, times a million
    us = [e for e in f.all_elems() if e.is_assign and e.op == "=" and norm(e.kid(0))[0] == "." and norm(e.kid(0))[2] == "tv_usec"]
    oku = len(us) == 1 and len(secs) == 1
    if oku:
        r = norm(us[0].kid(1))
        sec_t = norm(secs[0].kid(0))
        lits = [x for x in us[0].kid(1).walk() if x.cls == "FloatingLiteral"] if hasattr(us[0].kid(1), "walk") else []
        mill = None
        for x in f.all_elems():
            if x.cls in ("FloatingLiteral", "IntegerLiteral") and x.line == us[0].line:
                try:
                    mill = float(x.text.rstrip("fFlL"))
                except ValueError:
                    pass
        oku = r[0] == "*" and any(y == ("-", T, sec_t) for y in r[1:]) and mill == 1000000.0 and f.dominates(secs[0], us[0])
    rep.check(oku, "O6-notearly", "events_timer_register_double: tv_usec = (timeout - tv_sec) * 1000000", (us[0].where if us else f.loc),
              "tv_usec = %s" % (show(norm(us[0].kid(1))) if us else "?"), function=f.name, construct="double-usec")
    rep.check(oks and not narrow, "O6-notearly", "events_timer_register_double converts the timeout without narrowing", f.loc,
              ("tv_sec = %s; " % (show(norm(secs[0].kid(1))) if secs else "?")) + ("a %d-bit integer holds part of the timeout at %s" % (8 * ((u.types.get(narrow[0].ty) or {}).get("size") or 0), narrow[0].loc) if narrow else "no narrow integer"),
              function=f.name, construct="double-conversion")


def o5_map(u, rep, gp, cb):
    """The table of descriptors and the poll array point at each other (the unit's invariant 1): S[fd].pollpos == j exactly
    when fds[j].fd == fd, j < nfds.  Decided on the three places that change either side:
    - a table record created by growing the table starts with no registration and no poll entry (every field of the record
      is given its empty value for every new index);
    - growpollfd writes the descriptor into fds[nfds], records nfds as that descriptor's position, and only then counts it;
    - clearbit, when it vacates an entry, unlinks the vacated descriptor, and after moving the last entry in, records the slot
      as the moved descriptor's position, before the count goes down."""
    alias = {}
    for fx in u.funcs:
        if fx.file != u.path:
            continue
        for e in fx.all_elems():
            if e.cls == "DeclStmt":
                for d in e.decls or []:
                    if isinstance(d, dict) and d.get("init"):
                        v = norm(fx.elem(d["init"]))
                        if v[0] == "call" and v[1] == "socketlist_get":
                            alias[("v", d["name"], d["id"])] = v
            elif e.is_assign and e.op == "=" and norm(e.kid(0))[0] == "v" and norm(e.kid(1))[0] == "call" and norm(e.kid(1))[1] == "socketlist_get":
                alias[norm(e.kid(0))] = norm(e.kid(1))

    def recfield(t):
        """(index term, field) of socketlist_get(S, i)->field, directly or through a local that holds the record's address"""
        if t[0] == "." and t[1][0] == "*":
            c = alias.get(t[1][1], t[1][1])
            if c[0] == "call" and c[1] == "socketlist_get" and len(c) >= 4:
                return c[3], t[2]
        return None

    def stored(e):
        """value stored by x = y = ... = v"""
        r = e.kid(1)
        while r is not None and r.strip() is not None and r.strip().is_assign and r.strip().op == "=":
            r = r.strip().kid(1)
        return norm(r) if r is not None else None
    # new table records
    gs = [f for f in u.funcs if f.file == u.path and any(True for _ in f.calls("socketlist_resize"))]
    rt = None
    for name, r in u.records.items():
        if set(x["name"] for x in r.get("fields", [])) >= {"reader", "writer", "pollpos"}:
            rt = r
    if len(gs) != 1 or rt is None:
        rep.defer_broken("O5-map: the table-growing helper or the table's record type was not found in events_network.c")
        return
    f = gs[0]
    init = {}
    for e in f.all_elems():
        if e.is_assign and e.op == "=":
            rf = recfield(norm(e.kid(0)))
            if rf is not None:
                init[rf[1]] = (stored(e), rf[0], e)
    want = {}
    for x in rt["fields"]:
        k = (u.types.get(x["ty"]) or {}).get("kind")
        want[x["name"]] = ("c", 0) if k == "ptr" else ("c", -1)
    bad = []
    for fld, v in want.items():
        if fld not in init:
            bad.append("%s is left as realloc returned it" % fld)
        elif init[fld][0] != v and not (v == ("c", -1) and init[fld][0][0] == "c" and init[fld][0][1] in (-1, 2 ** 64 - 1, 2 ** 32 - 1)):
            bad.append("%s starts as %s" % (fld, show(init[fld][0])))
    idx = set(v[1] for v in init.values())
    if len(idx) > 1:
        bad.append("the fields are initialised at different indices %s" % sorted(show(i) for i in idx))
    rep.check(not bad, "O5-map", "%s: a new table record starts empty (no reader, no writer, no poll entry)" % f.name, f.loc,
              "; ".join(bad) + ": the record of a descriptor never registered would look registered", function=f.name, construct="newrec-init")
    # the loop covers [old size, new size)
    if idx:
        i = sorted(idx, key=str)[0]
        starts = [e for e in f.all_elems() if e.is_assign and e.op == "=" and norm(e.kid(0)) == i and norm(e.kid(1))[0] == "call" and norm(e.kid(1))[1] == "socketlist_getsize"]
        steps = [e for e in f.all_elems() if e.is_incdec and norm(e.kid(0)) == i and e.op in ("post++", "pre++")]
        nrec = None
        for c in f.calls("socketlist_resize"):
            nrec = norm(c.arg(1)) if c.arg(1) is not None else None
        any_init = list(init.values())[0][2]
        guard = [(op, L, R) for cond, truth in f.edge_conds(any_init) for op, L, R, _, _ in cond_atoms(cond, truth)]
        ok = len(starts) == 1 and len(steps) == 1 and nrec is not None and any(op == "<" and L == i and R == nrec for op, L, R in guard)
        rep.check(ok, "O5-map", "%s: the initialisation runs over every new index, old size to new size" % f.name, f.loc,
                  "start: %s, step: %s, bound: %s" % ([e.text for e in starts], [e.text for e in steps], [(op, show(L), show(R)) for op, L, R in guard]),
                  function=f.name, construct="newrec-range")
    # growpollfd
    fdw = [e for e in gp.all_elems() if e.is_assign and e.op == "=" and fieldname(norm(e.kid(0))) == "fd" and norm(e.kid(0))[1][0] == "[]"]
    pw = [(e, recfield(norm(e.kid(0)))) for e in gp.all_elems() if e.is_assign and e.op == "=" and recfield(norm(e.kid(0))) and recfield(norm(e.kid(0)))[1] == "pollpos"]
    inc = [e for e in gp.all_elems() if e.is_incdec and norm(e.kid(0))[0] == "v" and norm(e.kid(0))[1] == "nfds"]
    ok = len(fdw) == 1 and len(pw) == 1 and len(inc) == 1
    why = "writes of .fd: %d, of ->pollpos: %d, increments of nfds: %d" % (len(fdw), len(pw), len(inc))
    if ok:
        slot = norm(fdw[0].kid(0))[1][2]
        fdv = norm(fdw[0].kid(1))
        pe, (pidx, _) = pw[0]
        same_fd = strip_casts(fdv) == strip_casts(pidx)
        ok = slot[0] == "v" and slot[1] == "nfds" and norm(pe.kid(1)) == slot and same_fd and gp.dominates(fdw[0], inc[0]) and gp.dominates(pe, inc[0])
        why = "fds[%s].fd = %s; record(%s)->pollpos = %s; then nfds++" % (show(slot), show(fdv), show(pidx), show(norm(pe.kid(1))))
    rep.check(ok, "O5-map", "growpollfd links the new poll entry and the descriptor's record to each other before counting the entry", gp.loc, why,
              function="growpollfd", construct="link")
    # clearbit
    pws = [(e, recfield(norm(e.kid(0)))) for e in cb.all_elems() if e.is_assign and e.op == "=" and recfield(norm(e.kid(0))) and recfield(norm(e.kid(0)))[1] == "pollpos"]
    dec = [e for e in cb.all_elems() if e.is_incdec and norm(e.kid(0))[0] == "v" and norm(e.kid(0))[1] == "nfds" and e.op in ("post--", "pre--")]
    mv = [c for c in cb.calls("memcpy")] + [e for e in cb.all_elems() if e.is_assign and e.op == "=" and norm(e.kid(0))[0] == "[]" and norm(e.kid(1))[0] == "[]"]
    pp = ("v", cb.params[0]["name"], cb.params[0]["id"]) if cb.params else None
    unl = [e for e, (ix, _) in pws if norm(e.kid(1))[0] == "c" and norm(e.kid(1))[1] in (-1, 2 ** 64 - 1)]
    rel = [e for e, (ix, _) in pws if norm(e.kid(1)) == pp]
    ok = len(unl) == 1 and len(rel) == 1 and len(dec) == 1 and bool(mv)
    why = "unlink writes: %d, re-link writes: %d, decrements: %d, moves: %d" % (len(unl), len(rel), len(dec), len(mv))
    if ok:
        m0 = mv[0]
        def at_slot(e):
            ix = recfield(norm(e.kid(0)))[0]
            return any(t == ("[]", ("v", "fds", t[1][2] if len(t[1]) > 2 else None), pp) or (t[0] == "[]" and t[1][0] == "v" and t[1][1] == "fds" and t[2] == pp) for t in subterms(ix) if isinstance(t, tuple) and t and t[0] == "[]")
        ok = at_slot(unl[0]) and at_slot(rel[0]) and cb.dominates(unl[0], m0) and cb.dominates(m0, rel[0]) and cb.dominates(unl[0], dec[0]) and \
            not (dec[0].block.id in cb.reach_from(rel[0].block.id) and False)
        # the re-link is made before the count goes down (the moved entry is fds[nfds - 1] only until then)
        ok = ok and (rel[0].block.id != dec[0].block.id or rel[0].i < dec[0].i) and dec[0].block.id in (cb.reach_from(rel[0].block.id) | {rel[0].block.id})
        why = "unlink of fds[%s].fd's record at line %d, move at line %d, re-link at line %d, nfds-- at line %d" % (show(pp), unl[0].line, m0.line, rel[0].line, dec[0].line)
    rep.check(ok, "O5-map", "clearbit unlinks the vacated descriptor, moves the last entry in, and records the slot as the moved descriptor's position", cb.loc, why,
              function="clearbit", construct="relink")


def strip_casts(t):
    while isinstance(t, tuple) and t and t[0] == "cast":
        t = t[-1]
    return t


def o8_capacity(prog, rep):
    """The poll array never holds more entries than it has room for.  With the unit's invariant nfds <= fds_alloc assumed at entry
    (it holds initially: both are zero), decided relationally (sa/poly.py) in the function that adds an entry:
    - every sanity assertion about the two counters is implied by the code before it (so it never fires), and every fds[i] written
      has i < fds_alloc;
    - the invariant holds again at every return;
    - the recorded capacity is the one obtained: fds_alloc is assigned the element count whose size was given to realloc, on
      realloc's success edge only, and the array pointer is replaced by realloc's result."""
    from .. import poly
    from ..poly import Lin
    u = prog.unit("events/events_network.c")
    gl = {x["name"]: ("v", x["name"], x["id"]) for x in u.globals if x.get("isdef") and x.get("file") == u.path}
    if not all(k in gl for k in ("nfds", "fds_alloc", "fds")):
        rep.defer_broken("O8-capacity: the poll array, its count or its capacity was not found at file scope in events_network.c")
        return 0
    NF, FA, FDS = gl["nfds"], gl["fds_alloc"], gl["fds"]
    adders = [f for f in u.funcs if f.file == u.path and any(e.is_incdec and norm(e.kid(0)) == NF and e.op in ("post++", "pre++") for e in f.all_elems())]
    if len(adders) != 1:
        rep.defer_broken("O8-capacity: expected exactly one function that counts a new poll entry, found %d" % len(adders))
        return 0
    f = adders[0]
    n = 0
    A = poly.Analysis(f, assume=[("<=", Lin.var(NF), Lin.var(FA))], unsigned_terms={NF, FA}, quiet={"socketlist_get", "realloc"}).run()
    esz = (u.records.get("pollfd") or {}).get("size") or 8
    for b in f.blocks.values():
        if b.cond is None or len(b.succs) != 2:
            continue
        tg = [f.blocks[x] for x in b.succs if x is not None]
        if not any(t.noreturn or any(e.cls == "CallExpr" and e.callee == "__assert_fail" for e in t.elems) for t in tg):
            continue
        ats = [(op, L, R, Le, Re) for op, L, R, Le, Re in cond_atoms(b.cond, True) if {NF, FA} & (set(subterms(L)) | set(subterms(R)))]
        if not ats:
            continue
        st = A.state_before(b.cond)
        if st is None:
            continue
        op, L, R, Le, Re = ats[0]
        l = A.lin(Le, st)
        r = A.lin(Re, st) if Re is not None else Lin.const(0)
        n += 1
        rep.check(l is not None and r is not None and A.holds(st, op, l, r), "O8-capacity", "%s: `%s` follows from the code before it" % (f.name, b.cond.text[:40]), b.cond.where,
                  "assuming nfds <= fds_alloc on entry, the asserted relation is not implied here: the assertion can fire (or, compiled out, the entry is written "
                  "outside the array)", function=f.name, construct="assert-proved")
    for e in f.all_elems():
        if e.is_assign and norm(e.kid(0))[0] == "." and norm(e.kid(0))[1][0] == "[]" and norm(e.kid(0))[1][1] == FDS:
            st = A.state_before(e)
            ix = e.kid(0).strip()
            sub = None
            for t in subterms(norm(e.kid(0))):
                if isinstance(t, tuple) and t and t[0] == "[]" and t[1] == FDS:
                    sub = t[2]
            n += 1
            ok = st is None
            if st is not None and sub is not None and sub[0] == "v":
                ok = A.holds(st, "<", Lin.var(sub), Lin.var(FA))
            rep.check(ok, "O8-capacity", "%s: %s is written inside the array" % (f.name, e.text[:30]), e.where,
                      "index %s is not provably below fds_alloc" % show(sub), function=f.name, construct="write-index")
    for r in f.returns():
        st = A.state_before(r)
        if st is None:
            continue
        n += 1
        rep.check(A.holds(st, "<=", Lin.var(NF), Lin.var(FA)), "O8-capacity", "%s: nfds <= fds_alloc again at `%s`" % (f.name, r.text[:20]), r.where,
                  "the invariant assumed at entry is not re-established here", function=f.name, construct="inv-return")
    # the capacity recorded is the capacity obtained
    rl = [c for c in f.calls("realloc") if c.arg(0) is not None and norm(c.arg(0)) == FDS]
    for c in rl:
        asg = [e for e in f.all_elems() if e.is_assign and e.op == "=" and norm(e.kid(0)) == FA]
        n += 1
        ok = len(asg) == 1
        why = "%d assignments to fds_alloc" % len(asg)
        if ok:
            a = asg[0]
            st = A.state_before(a)
            stc = A.state_before(c)
            v = A.lin(a.kid(1), st) if st is not None else None
            sz = A.lin(c.arg(1), stc) if stc is not None else None
            # on the success edge only
            succ_only = any(op == "!=" and R == ("c", 0) and Le is not None and Le.strip() is c
                            for cond, truth in f.edge_conds(a) for op, L, R, Le, _ in cond_atoms(cond, truth))
            same = v is not None and sz is not None and (sz - v.scale(esz)).is_const() and (sz - v.scale(esz)).k == 0
            ok = succ_only and same
            why = "fds_alloc = %s; realloc size %s; element size %d; assigned on realloc's success edge: %s" % (v, sz, esz, succ_only)
        rep.check(ok, "O8-capacity", "%s: fds_alloc is the element count realloc was asked for, recorded once it succeeded" % f.name, c.where, why,
                  function=f.name, construct="capacity-recorded")
    return n


GETTERS = ("events_immediate_get", "events_network_get", "events_timer_get")


def o3_inflight(prog, rep):
    """A record taken out of its queue is run before another is taken: in the dispatcher no getter is called while a record fetched
    earlier has not yet been handed to the invoker, and no path leaves with one still held.  (While a callback runs, every
    registration that has not been dispatched is still in its queue, where a cancel from inside the callback finds it; a record
    held across a callback has been unlinked already -- the cancel then releases a record the loop goes on to invoke.)"""
    u = prog.unit("events/events.c")
    f = u.func("events_run_internal")
    if f is None:
        raise cdb.AnalysisBroken("anchor missing: events_run_internal")

    def fetched(e):
        """variable that receives a record from a getter at this element, or None"""
        if e.is_assign and e.op == "=" and e.kid(1) is not None and e.kid(1).strip() is not None and e.kid(1).strip().cls == "CallExpr" and e.kid(1).strip().callee in GETTERS:
            return norm(e.kid(0))
        if e.cls == "CallExpr" and e.callee == "events_timer_get" and e.arg(0) is not None and norm(e.arg(0))[0] == "&":
            return norm(e.arg(0))[1]
        return None
    bad = []

    def tr(st, e):
        v = fetched(e)
        if v is not None:
            held = frozenset(x for x in st if x != v)
            if held:
                bad.append((e, sorted(x[1] for x in held)))
            return held | frozenset([v])
        if e.cls == "CallExpr" and e.callee == "doevent" and e.arg(0) is not None:
            return frozenset(x for x in st if x != norm(e.arg(0)))
        if e.is_assign and e.op == "=" and norm(e.kid(0))[0] == "v" and norm(e.kid(1)) in st:
            return frozenset(x for x in st if x != norm(e.kid(1))) | frozenset([norm(e.kid(0))])      # handed from one variable to another
        return st

    def rf(st, cond, kind):
        if kind in (True, False):
            for op, L, R, Le, _ in cond_atoms(cond, kind):
                if op == "==" and R == ("c", 0) and L in st:
                    st = frozenset(x for x in st if x != L)          # the getter answered "nothing"
                k = Le.strip() if Le is not None else None
                if k is not None and k.cls == "CallExpr" and k.callee == "events_timer_get" and op == "!=" and R == ("c", 0) and k.arg(0) is not None and norm(k.arg(0))[0] == "&":
                    st = frozenset(x for x in st if x != norm(k.arg(0))[1])      # the getter failed: nothing was handed out
        return st
    sv = Solver(f, frozenset(), tr, rf).run()
    n = len([e for e in f.all_elems() if fetched(e) is not None])
    seen = set()
    for e, held in bad:
        if e.pos in seen:
            continue
        seen.add(e.pos)
        rep.bad("O3-invoker", "events_run_internal: `%s`" % e.text[:40], e.where,
                "another record is fetched while %s, fetched earlier, has not been run: for the duration of the callback that record is in no queue, "
                "so a cancel of its registration from inside the callback releases a record the loop then invokes" % ", ".join(held), function=f.name, construct="inflight")
    if not bad:
        rep.ok("O3-invoker", "events_run_internal: a fetched record is run before the next is fetched", f.loc, "%d fetch sites" % n)
    leaks = []
    for r in f.returns():
        st = sv.state_before(r)
        if st:
            leaks.append((r, sorted(x[1] for x in st)))
    rep.check(not leaks, "O3-invoker", "events_run_internal: no record is still held when the dispatcher returns", (leaks[0][0].where if leaks else f.loc),
              ("%s fetched and never run on a path to this return: the event is lost" % ", ".join(leaks[0][1])) if leaks else "", function=f.name, construct="held-at-return")
    return n


def o7_slotrange(prog, rep):
    """The socket table is indexed by descriptor number, and a descriptor has a record exactly when its number is below the
    table's size.  Relational (sa/poly.py) with the size as a ghost quantity that socketlist_getsize answers and a successful
    socketlist_resize sets: every socketlist_get(S, i) in the registration, the cancellation and the table-growing helper is
    made with i < size, and the cancellation refuses a descriptor as out of range (ENOENT on the size test) only when its
    number is >= size -- a record that exists is looked at."""
    from .. import poly
    from ..poly import Lin
    u = prog.unit("events/events_network.c")
    SIZE = ("$tablesize",)

    def post_getsize(A, call, st, cs):
        r = Lin.var(("$ret", A.f.name, call.pos))
        return list(cs) + poly.cons("==", r, Lin.var(SIZE))

    def post_resize(A, call, st, cs):
        r = Lin.var(("$ret", A.f.name, call.pos))
        n = A.lin(call.arg(1), st)
        ok = A._kill(list(cs), lambda v: v == SIZE) + poly.cons("==", r, Lin.const(0))
        if n is not None:
            ok = ok + poly.cons("==", Lin.var(SIZE), n)
        return [ok, list(cs) + poly.cons("<=", r, Lin.const(-1))]
    posts = {"socketlist_getsize": post_getsize, "socketlist_resize": post_resize}
    grow = u.func("growsocketlist")
    n = 0
    for name in ("events_network_register", "events_network_cancel", "growsocketlist"):
        f = u.func(name)
        if f is None:
            raise cdb.AnalysisBroken("anchor missing: %s" % name)
        A = poly.Analysis(f, assume=[(">=", Lin.var(SIZE), Lin.const(0))], quiet={"socketlist_get", "socketlist_getsize", "socketlist_resize", "warn0", "libcperciva_warn", "init",
                                                                                "events_mkrec", "events_freerec", "clearbit", "growpollfd", "events_network_selectstats_startclock",
                                                                                "events_network_selectstats_stopclock", "growsocketlist"},
                          post=posts, inline=({"growsocketlist": grow} if grow is not None and name != "growsocketlist" else None), unsigned_terms={SIZE}).run()
        for c in f.calls("socketlist_get"):
            st = A.state_before(c)
            if st is None:
                continue
            n += 1
            i = A.lin(c.arg(1), st)
            rep.check(i is not None and A.holds(st, "<", i, Lin.var(SIZE)), "O7-slotrange", "%s in %s: the index is below the table's size" % (c.text[:40], name), c.where,
                      "index %s, size $tablesize: not provably inside the table" % (i,), function=name, construct="slot-index")
        # the table only grows: the helper that resizes it is asked for more records than there are (asked for fewer, it
        # drops the records -- and registrations -- of every higher descriptor)
        if grow is not None and name != "growsocketlist":
            for c in f.calls("growsocketlist"):
                st = A.state_before(c)
                if st is None:
                    continue
                n += 1
                want = A.lin(c.arg(0), st)
                rep.check(want is not None and A.holds(st, ">", want, Lin.var(SIZE)), "O7-slotrange", "%s grows the table only to a larger size" % name, c.where,
                          "growsocketlist(%s) is reachable with that count not above the table's size: the table would shrink under registrations that exist" % show(norm(c.arg(0))),
                          function=name, construct="grow-only")
        if name == "events_network_cancel":
            sp = ("v", f.params[0]["name"], f.params[0]["id"])
            for e in f.all_elems():
                if e.is_assign and e.op == "=" and norm(e.kid(0)) == ("*", ("call", "__errno_location")) and norm(e.kid(1)) == ("c", 2) and not any(m.startswith("warn") for m in e.macro):     # ENOENT
                    at = [(op, L, R) for cond, truth in f.edge_conds(e) for op, L, R, _, _ in cond_atoms(cond, truth)]
                    if any(op == "==" and R == ("c", 0) and L[0] == "*" for op, L, R in at):
                        continue          # nothing registered in the slot
                    n += 1
                    st = A.state_before(e)
                    rep.check(st is None or A.holds(st, ">=", Lin.var(sp), Lin.var(SIZE)), "O7-slotrange",
                              "events_network_cancel refuses a descriptor as unknown only when its number is not below the table's size", e.where,
                              "on this edge the descriptor may still be below the size: a registration that exists is reported as absent and stays in place",
                              function=name, construct="cancel-range")
    if n < 4:
        rep.defer_broken("O7: fewer than 4 table accesses found in events_network.c")


def run(tier):
    rep = report.Report("C04", tier,
        "Decided: take-and-clear in the three getters (O1), cancel leaves no slot pointing at a released record (O2), a single invoker "
        "that calls once and releases (O3), agreement of register/cancel/get on operation/slot/poll-bit triples (O4), stale readiness "
        "is cleared with the registration bits and the error widening adds only registered bits (O5), timer deadlines are monotonic "
        "clock + stored delta from a success edge, released only on the not-later edge of lexicographic comparators evaluated on all "
        "nine orderings (O6); timer handles stay consistent with heap positions (H1/H2, shared with C13). Not decided: the pollfd/socket-list compaction invariants and the scan cursor under compaction (an "
        "inductive relational array invariant), hence 'a poll reported it ready since registration' beyond O5.",
        trusted=["poll(2), monoclock_get", "TAILQ macros", "ptrheap order (C13)"])
    configs = [cdb.HOST]
    if tier == "thorough":
        configs.append(cdb.Config("host-ndebug", extra=["-DNDEBUG"]))
    for cfg in configs:
        prog = ir.Program(None if tier == "thorough" else ["events/events.c", "events/events_immediate.c", "events/events_network.c", "events/events_timer.c",
                                                          "datastruct/timerqueue.c", "datastruct/ptrheap.c", "network/network_read.c", "network/network_connect.c", "http/http.c"], cfg)
        rep.add_stats(prog)
        o1_o2(prog, rep)
        o3(prog, rep)
        o4_o5(prog, rep)
        if o3_inflight(prog, rep) < 3:
            rep.defer_broken("O3: fewer than 3 fetch sites found in events_run_internal")
        o7_slotrange(prog, rep)
        from . import c14 as _c14
        _c14.destroy_then_fail_rule(prog, rep, only_files=("events/events_network.c", "events/events_timer.c", "events/events_immediate.c"))   # a refused registration leaves the existing one alone
        _c14.realloc_idiom_rule(prog, rep, ("events/events_network.c",))      # a failed growth of the poll array leaves the array in place
        if o8_capacity(prog, rep) < 5:
            rep.defer_broken("O8-capacity: fewer than 5 obligations found in the function that adds a poll entry")
        o6(prog, rep)
        o6_double(prog, rep)
        # handle consistency of the timer heap: a stale handle makes cancel remove the wrong timer, so a cancelled
        # registration's callback runs (rules shared with C13)
        from . import c13
        c13.h1(prog, rep)
        c13.h2_h3(prog, rep)
        c13.h4(prog, rep)
        c13.h5(prog, rep)
        c13.h7_keychange(prog, rep)
        # a registration that failed must leave nothing registered (no slot, no pollfd entry): shared with C14
        from . import c14
        c14.register_atomic_rule(prog, rep)
    n = len(configs)
    rep.require_min("O1-take", 5 * n)
    rep.require_min("O4-mapping", 4 * n)
    rep.require_min("O6-notearly", 6 * n)
    return rep
