"""C09 — HTTP client decodes well-formed responses exactly; request verbatim."""
from .. import cdb, ir, report
from . import http_rules as H


def run(tier):
    rep = report.Report("C09", tier,
        "Decided: (W1) the header-end cursor is an offset into the reader's unconsumed window, so after any consume no load of it is "
        "reachable, through tail calls or later events, before it is stored again; (W2) the request head's computed length is the "
        "sum of the pieces copied, piece for piece and loop for loop, the allocation is that plus one, the pieces follow the wire "
        "grammar, head then body are queued with their own lengths; (W3) HEAD/204/304 complete before any framing header is read, "
        "chunked has precedence over Content-Length, read-to-EOF is the fall-through; (B1) the body budget, shared with C08: a "
        "well-formed body within the limit must not trip it; (W4) digit classes agree with the radix converted with; (W5) no field of the "
        "malloc'ed request is read, along any continuation path, before it is stored; (W6) the header-terminator scan advances only past "
        "compared positions and records only examined offsets, so a terminator cut by a read boundary is still found. Not decided: header name/value extraction, OWS trimming, chunk "
        "reassembly as string semantics over all inputs.",
        trusted=["netbuf_read semantics (consume shifts the window)"])
    configs = [cdb.HOST]
    if tier == "thorough":
        configs.append(cdb.Config("host-ndebug", extra=["-DNDEBUG"]))
    for cfg in configs:
        prog = ir.Program([H.UNIT], cfg)
        try:
            rep.add_stats(prog)
        except cdb.AnalysisBroken as ex:
            # a member the other rules identify by name is gone: they cannot run, but the one rule that needs no names can, and
            # what it reports stands (a violation takes precedence over the unanswered rest)
            H.borrow_rule(prog, rep)
            if rep.viol:
                # only the name-free rule has run, so nothing was misread: its report stands, the rest is noted as unanswered
                rep.renamed = 0
                rep.deferred = []
                rep.notes.append("not answered (rule anchors missing): " + str(ex))
                return rep
            raise
        if H.borrow_rule(prog, rep) < 1:
            rep.defer_broken("W8: the constructor no longer stores the body pointer of the request description (the borrow rule found nothing to decide)")
        # the continuation structure is needed by W1; LIN itself is C08's
        from .. import lin
        L = lin.Lin(prog, H.UNIT, H.REC, ("http_request_cancel",))
        H.window_cursor(prog, rep, L)
        H.request_serialisation(prog, rep)
        H.framing_order(prog, rep)
        H.number_bases(prog, rep)
        H.budget(prog, rep, L)
        H.cookie_init(prog, rep, L)
        H.eol_scan(prog, rep)
        H.header_scan(prog, rep)
        H.header_split(prog, rep)
        if H.window_reads(prog, rep) < 2:
            rep.defer_broken("W11-inwindow: fewer than 2 reads of the window found in http.c")
        H.header_lookup(prog, rep)
        # "exactly that body": the buffer handed to the callback is the one the decoder filled -- a resize on the way asks for at
        # least one byte (realloc(p, 0) frees or invents a buffer: an empty body is delivered as no buffer; rule shared with C14)
        from . import c14
        c14.realloc_nonzero_rule(prog, rep, only_files=(H.UNIT,))
        if H.header_index(prog, rep) < 2:
            rep.defer_broken("W9-index: fewer than 2 subscripts of the parsed-header array found")
        H.chunk_framing(prog, rep)
        if H.premature_verdict(prog, rep) < 1:
            rep.defer_broken("W11: no handler that waits for a fixed number of bytes found in http.c")
        # the buffered reader under the decoder: header blocks and chunks larger than its initial buffer must still fit
        # (window invariant, growth and compaction tests; relational rules shared with C07)
        from . import c07
        c07.reader_window(ir.Program([c07.RU], cfg), rep)
        # ... and the buffered writer under the request: the space a write is copied into is inside its buffer (a request head or
        # body larger than the writer's default buffer gets one of its own; rule shared with C07)
        c07.reserve_room_rule(ir.Program([c07.WU], cfg), rep)
    n = len(configs)
    rep.require_min("W1-cursor", 4 * n)
    rep.require_min("W2-length", 3 * n)
    rep.require_min("W3-framing", 4 * n)
    rep.require_min("F4-fits", 2 * n)
    return rep
