"""C18 — command-line parsing follows the documented option grammar: structural clauses of util/getopt.c.

Q1  argv[optind] is read only while optind < argc is known (must-analysis: the bound is established by a test and
    lost by every optind++; the dash-dash look at argv[optind] after a pack is shielded by os == NULL)
Q2  a pack of short options starts exactly on "-x...": not in a pack already, arg[0] == '-', arg[1] != '-', arg[1] != NUL
    (so a lone "-" and "--..." never start one)
Q3  dash-dash: reached only with no option in hand, arg[0] == arg[1] == '-'; the element is consumed whether it is "--"
    or "--name"; it becomes the option string only when something follows the dashes; an operand or a lone "-" is
    returned as end-of-options without being consumed
Q4  pack step: the option string is "-" + the current character, the cursor advances by one, and the element is consumed
    (cursor cleared, optind++) exactly when the cursor reached the terminator
Q5  searchopt: a slot matches when it is in use, its name is a prefix of the string (strncmp over the registered
    length) and the next character is NUL or '='; otherwise the default index
Q6  option arguments, in this order: the rest of the pack (consuming the element), the text after '=', the next element
    (only while optind < argc, consuming it); none of them: the missing-argument index; an option that takes no
    argument given "=value": the default index
Q7  an unregistered option returns the string found and the default index; a registered one returns the registered
    (canonical) string, fetched before the index is redirected
Q8  reset: optreset triggers reset() before anything else; reset() sets optind = 1, clears the pack cursor, the found
    index, the initialised flag and optreset itself; optarg is cleared on every call
These are necessary conditions of the documented grammar; that the reported sequence of options equals the grammar's for
every argument vector is NOT decided (it quantifies over string values)."""
from .. import cdb, ir, report
from ..ir import norm, show, subterms
from ..dataflow import Solver, cond_atoms

UNIT = "util/getopt.c"
DASH, EQ = ("c", 45), ("c", 61)


def _nm(n):
    """Drop the libcperciva_ prefix the header gives the public variables."""
    if isinstance(n, tuple):
        if n and n[0] == "v" and isinstance(n[1], str) and n[1].startswith("libcperciva_"):
            return ("v", n[1][len("libcperciva_"):]) + tuple(n[2:3])
        return tuple(_nm(k) for k in n)
    return n


def sh(n):
    return show(_nm(n)).replace(" ", "")


def atoms_at(f, e):
    out = set()
    for cond, truth in f.edge_conds(e):
        for op, L, R, _, _ in cond_atoms(cond, truth):
            out.add((op, sh(L), sh(R)))
    return out


def run(tier):
    rep = report.Report("C18", tier,
        "Structural clauses of the option parser decided on every path of getopt(), searchopt() and reset(): bounds of every "
        "argv[optind] read (Q1), when a pack of short options starts (Q2), dash-dash and end-of-options handling incl. what is and is "
        "not consumed (Q3), the pack cursor (Q4), name matching (Q5), the three argument sources in order and the missing / unwanted "
        "argument redirections (Q6), unknown vs canonical return (Q7), reset (Q8). Necessary conditions; the equality of the reported "
        "option sequence with the grammar over all argument vectors is not decided.",
        trusted=["the GETOPT_SWITCH / GETOPT_OPT macros' line-number dispatch (util/getopt.h) is not analysed"])
    return rules(rep)


class Only:
    """A view of a report that records only the named rules (another property running part of this rule set)."""

    def __init__(self, rep, names):
        self._rep, self._names = rep, set(names)

    def check(self, ok, rule, *a, **k):
        return self._rep.check(ok, rule, *a, **k) if rule in self._names else ok

    def bad(self, rule, *a, **k):
        if rule in self._names:
            self._rep.bad(rule, *a, **k)

    def ok(self, rule, *a, **k):
        if rule in self._names:
            self._rep.ok(rule, *a, **k)

    def require_min(self, rule, n):
        if rule in self._names:
            self._rep.require_min(rule, n)

    def __getattr__(self, name):
        return getattr(self._rep, name)

    def __setattr__(self, name, v):
        if name in ("_rep", "_names"):
            object.__setattr__(self, name, v)
        else:
            setattr(self._rep, name, v)


def rules(rep):
    prog = ir.Program([UNIT], cdb.HOST)
    rep.add_stats(prog)
    u = prog.unit(UNIT)
    f = u.func("getopt")
    so = u.func("searchopt")
    rs = u.func("reset")
    if f is None or so is None or rs is None:
        raise cdb.AnalysisBroken("anchor missing: getopt / searchopt / reset")
    if not (rep.names(f, "argc", "argv", "os", "canonical_os") and rep.names(so, "os", "i")):
        return rep
    gl = set(g["name"] for g in u.globals)
    for g in ("packedopts", "popt", "opt_found", "opt_default", "opt_missing", "opts", "nopts", "getopt_initialized"):
        if g not in gl:
            rep.defer_broken("getopt.c no longer has the variable %s the rules are anchored in" % g)
            rep.renamed = getattr(rep, "renamed", 0) + 1
            return rep

    def is_optind(n):
        return _nm(n)[:2] == ("v", "optind")
    ARG = lambda k: "argv[optind][%d]" % k

    # ---- Q1: argv[optind] reads are in bounds -----------------------------------------------------
    # state: set of (bound known, os known non-NULL) pairs, one per group of paths
    def t1(st, e):
        if e.is_incdec and is_optind(norm(e.kid(0))):
            return frozenset((False, o) for _, o in st)
        if e.is_assign and e.op == "=" and sh(norm(e.kid(0))) == "os":
            nn = norm(e.kid(1)) != ("c", 0)
            return frozenset((k, nn) for k, _ in st)
        return st

    def r1(st, cond, kind):
        if kind in (True, False):
            for op, L, R, _, _ in cond_atoms(cond, kind):
                l, r = sh(L), sh(R)
                if (op == "<" and l == "optind" and r == "argc") or (op == ">" and l == "argc" and r == "optind"):
                    st = frozenset((True, o) for _, o in st)
                if op == "==" and l == "os" and r == "0":
                    st = frozenset(x for x in st if not x[1])
        return st if st else None
    s1 = Solver(f, frozenset([(False, False)]), t1, r1, lambda a, b: a | b).run()
    nread = [0]

    def v1(e, st):
        if e.cls == "ArraySubscriptExpr" and sh(norm(e.kid(0))) == "argv" and (is_optind(norm(e.kid(1))) or sh(norm(e.kid(1))) in ("post++optind",)):
            nread[0] += 1
            if not is_optind(norm(e.kid(1))):
                # argv[optind++]: the bound is needed where the index is evaluated, i.e. before the increment
                inc = e.kid(1).strip()
                st = s1.state_before(inc) or st
            rep.check(all(k for k, _ in st), "Q1-bounds", "argv[optind] at line %d is read with optind < argc" % e.line, e.where,
                      "on some path optind was advanced (or never tested) since the last optind < argc test: argv is read at or beyond argc",
                      function=f.name, construct="argv-read")
    s1.visit(v1)
    if nread[0] < 6:
        rep.defer_broken("Q1: fewer than 6 reads of argv[optind] found")

    # ---- Q2: start of a pack --------------------------------------------------------------------
    st = [e for e in f.all_elems() if e.is_assign and e.op == "=" and sh(norm(e.kid(0))) == "packedopts" and sh(norm(e.kid(1))) == "&argv[optind][1]"]
    if not st:
        # the statement the clause is about is not there in a form these rules read (e.g. the word is held in a local): that is
        # "cannot analyse", not "wrong"
        rep.defer_broken("Q2: no `packedopts = &argv[optind][1]` found in getopt")
        return rep
    ok = len(st) == 1
    if ok:
        a = atoms_at(f, st[0])
        ok = ("==", "packedopts", "0") in a and ("==", ARG(0), "45") in a and ("!=", ARG(1), "45") in a and ("!=", ARG(1), "0") in a
    rep.check(ok, "Q2-pack", "a pack starts exactly on '-x...' when none is in progress", (st[0].where if st else f.loc),
              "required on the edge to packedopts = &argv[optind][1]: packedopts == NULL, arg[0] == '-', arg[1] != '-', arg[1] != NUL",
              function=f.name, construct="pack-start")

    # ---- Q4: pack step ---------------------------------------------------------------------------
    pst = {sh(norm(e.kid(0))): e for e in f.all_elems() if e.is_assign and e.op == "=" and sh(norm(e.kid(0))).startswith("popt[")}
    osp = [e for e in f.all_elems() if e.is_assign and e.op == "=" and sh(norm(e.kid(0))) == "os" and sh(norm(e.kid(1))) == "popt"]
    adv = [e for e in f.all_elems() if e.is_incdec and sh(norm(e.kid(0))) == "packedopts" and e.op in ("post++", "pre++")]
    ok = set(pst) == {"popt[0]", "popt[1]", "popt[2]"} and len(osp) == 1 and len(adv) == 1
    if ok:
        ok = norm(pst["popt[0]"].kid(1)) == DASH and sh(norm(pst["popt[1]"].kid(1))) == "*packedopts" and norm(pst["popt[2]"].kid(1)) == ("c", 0)
        ok = ok and ("!=", "packedopts", "0") in atoms_at(f, osp[0]) and f.dominates(pst["popt[1]"], adv[0])
    rep.check(ok, "Q4-step", "the option string of a pack element is '-' + current character; the cursor then advances by one", (osp[0].where if osp else f.loc), "",
              function=f.name, construct="pack-step")
    done = [e for e in f.all_elems() if e.is_assign and e.op == "=" and sh(norm(e.kid(0))) == "packedopts" and norm(e.kid(1)) == ("c", 0) and ("==", "*packedopts", "0") in atoms_at(f, e)]
    ok = len(done) == 1
    if ok:
        inc = [e for e in f.blocks[done[0].block.id].elems if e.is_incdec and is_optind(norm(e.kid(0)))]
        ok = len(inc) == 1 and adv and f.dominates(adv[0], done[0])
    rep.check(ok, "Q4-step", "the element is consumed (cursor cleared, optind++) exactly when the cursor reached the terminator", (done[0].where if done else f.loc), "",
              function=f.name, construct="pack-end")

    # every place where a pack is given up: at its terminator, or because an option that takes an argument takes the rest of it
    # (an unknown character gives up nothing: parsing goes on with the next character of the pack)
    for e in f.all_elems():
        if not (e.is_assign and e.op == "=" and sh(norm(e.kid(0))) == "packedopts" and norm(e.kid(1)) == ("c", 0)):
            continue
        a = atoms_at(f, e)
        at_end = ("==", "*packedopts", "0") in a
        takes_rest = ("!=", "opts[opt_found].hasarg", "0") in a and ("!=", "packedopts", "0") in a
        rep.check(at_end or takes_rest, "Q4-step", "a pack is given up only at its terminator or to an option that takes the rest as its argument", e.where,
                  "`packedopts = NULL` here is under neither `*packedopts == 0` nor `hasarg != 0`: the remaining characters of the pack are never looked at", function=f.name, construct="pack-giveup")

    # ---- Q3: dash-dash and end of options ---------------------------------------------------------
    osarg = [e for e in f.all_elems() if e.is_assign and e.op == "=" and sh(norm(e.kid(0))) == "os" and sh(norm(e.kid(1))) == "argv[optind]"]
    ok = len(osarg) == 1
    dd_inc = None
    if ok:
        a = atoms_at(f, osarg[0])
        ok = ("==", "os", "0") in a and ("==", ARG(0), "45") in a and ("==", ARG(1), "45") in a and ("!=", ARG(2), "0") in a
        # the consuming increment: dominated by the two dashes but not by the test of the third character
        for e in f.all_elems():
            if e.is_incdec and is_optind(norm(e.kid(0))):
                ae = atoms_at(f, e)
                if ("==", ARG(1), "45") in ae and ("==", "os", "0") in ae:
                    dd_inc = e
        ok = ok and dd_inc is not None and not any(l == ARG(2) for _, l, _ in atoms_at(f, dd_inc)) and f.dominates(osarg[0], dd_inc) is not None
        ok = ok and (osarg[0].block.id in f.dominators()[dd_inc.block.id] or dd_inc.block.id in f.reach_from(osarg[0].block.id))
    rep.check(ok, "Q3-dashdash", "'--' and '--name' are consumed; only '--name' becomes the option string", (osarg[0].where if osarg else f.loc),
              "os = argv[optind] needs os == NULL, arg[0] == arg[1] == '-', arg[2] != NUL; the optind++ that follows must not depend on arg[2]",
              function=f.name, construct="dashdash")
    # end of options: `return NULL` under os == NULL, with no consumption other than the dash-dash one on the way
    endret = [r for r in f.returns() if norm(r.kid(0)) == ("c", 0) and ("==", "os", "0") in atoms_at(f, r)]
    ok = len(endret) == 1
    if ok:
        incs = [e for e in f.all_elems() if e.is_incdec and is_optind(norm(e.kid(0)))]
        # increments from which the end return is reachable while os can still be NULL: only the dash-dash one
        bad = [e for e in incs if e is not dd_inc and endret[0].block.id in f.reach_from(e.block.id) and not (
            ("!=", "packedopts", "0") in atoms_at(f, e) or ("!=", "opts[opt_found].hasarg", "0") in atoms_at(f, e))]
        ok = not bad
    rep.check(ok, "Q3-end", "an operand or a lone '-' ends the options without being consumed", (endret[0].where if endret else f.loc), "",
              function=f.name, construct="end-of-options")

    # ---- Q5: searchopt --------------------------------------------------------------------------
    hits = [r for r in so.returns() if sh(norm(r.kid(0))) == "i"]
    miss = [r for r in so.returns() if sh(norm(r.kid(0))) == "opt_default"]
    ok = len(hits) == 1 and len(miss) == 1
    if ok:
        a = atoms_at(so, hits[0])
        used = ("!=", "opts[i].os", "0") in a
        pref = any(op == "==" and l.startswith("strncmp(opts[i].os,os,opts[i].olen)") and r == "0" for op, l, r in a)
        # the terminator test is a disjunction: the return's block is reached from a NUL edge or an '=' edge
        term = False
        for b in so.blocks.values():
            if b.cond is None:
                continue
            for op, L, R, _, _ in cond_atoms(b.cond, True):
                if op == "==" and sh(L) == "os[opts[i].olen]" and R in (("c", 0), EQ):
                    term = True
        nxt = set()
        for b in so.blocks.values():
            if b.cond is None:
                continue
            for op, L, R, _, _ in cond_atoms(b.cond, True):
                if op == "==" and sh(L) == "os[opts[i].olen]" and R[0] == "c":
                    nxt.add(R[1])
        ok = used and pref and term and nxt == {0, 61}
    rep.check(ok, "Q5-match", "searchopt: slot in use, registered name is a prefix (strncmp over its length), next character NUL or '='", so.loc, "",
              function=so.name, construct="searchopt")
    lp = any(op == "<" and sh(L) == "i" and sh(R) == "nopts" for b in so.blocks.values() if b.cond is not None for op, L, R, _, _ in cond_atoms(b.cond, True))
    # ... and gives up on a slot only to go on to the next one: the loop is left through its own test (every slot looked at) or
    # through the `return (i)` of a full match, nothing else (a slot whose name is a proper prefix of the option sought is not
    # the end of the search: a later slot may hold the longer name)
    heads = [b for b in so.blocks.values() if b.cond is not None and any(op == "<" and sh(L) == "i" and sh(R) == "nopts" for op, L, R, _, _ in cond_atoms(b.cond, True))]
    early = []
    if len(heads) == 1:
        hb = heads[0]
        loop = set(x for x in so.reach_from(hb.id) if hb.id in so.reach_from(x)) | {hb.id}
        for bid in loop:
            blk = so.blocks[bid]
            for si, sb in enumerate(blk.succs):
                if sb is None or sb in loop:
                    continue
                if bid == hb.id and si == 1:
                    continue                      # the loop's own test failing
                # otherwise the edge must lead to the hit return and nowhere else
                vals, _ = so.returns_from(sb)
                if not (vals and all(v is not None and sh(v) == "i" for v in vals)):
                    early.append(blk)
    rep.check(lp and len(heads) == 1 and not early, "Q5-match", "searchopt scans every slot below nopts", so.loc,
              ("the scan is abandoned at %s without a match" % (early[0].elems[-1].where if early and early[0].elems else "?")) if early else "",
              function=so.name, construct="searchopt-loop")

    # ---- Q6: argument sources ------------------------------------------------------------------
    HAS = ("!=", "opts[opt_found].hasarg", "0")
    NOARG = ("==", "opts[opt_found].hasarg", "0")
    src = {}
    for e in f.all_elems():
        if e.is_assign and e.op == "=" and sh(norm(e.kid(0))) == "optarg" and norm(e.kid(1)) != ("c", 0):
            src[sh(norm(e.kid(1)))] = e
    want = ["packedopts", "&os[(opts[opt_found].olen+1)]", "argv[post++optind]"]
    ok = sorted(src) == sorted(want)
    d = ""
    # the argument is the text as it was given: once taken from one of the three sources the pointer is not moved
    moved = [e for e in f.all_elems() if ((e.is_assign and e.op != "=") or e.is_incdec) and sh(norm(e.kid(0))) == "optarg"]
    rep.check(not moved, "Q6-args", "the option argument is handed over as found: optarg is only ever assigned one of its sources", (moved[0].where if moved else f.loc),
              "`%s` moves the argument pointer after it was taken: part of the argument's text is dropped" % (moved[0].text[:40] if moved else ""),
              function=f.name, construct="arg-verbatim")
    if ok:
        a0, a1, a2 = (atoms_at(f, src[k]) for k in want)
        ok = HAS in a0 and ("!=", "packedopts", "0") in a0
        ok = ok and HAS in a1 and ("==", "os[opts[opt_found].olen]", "61") in a1
        ok = ok and HAS in a2 and ("==", "optarg", "0") in a2 and (("<", "optind", "argc") in a2 or (">", "argc", "optind") in a2)
        # order: pack, then '=', then next element
        ok = ok and src[want[0]].line < src[want[1]].line < src[want[2]].line
        # taking the rest of the pack consumes the element
        blk = f.blocks[src[want[0]].block.id]
        ok = ok and any(e.is_incdec and is_optind(norm(e.kid(0))) for e in blk.elems) and any(
            e.is_assign and sh(norm(e.kid(0))) == "packedopts" and norm(e.kid(1)) == ("c", 0) for e in blk.elems)
    else:
        d = "sources found: %s" % sorted(src)
    rep.check(ok, "Q6-args", "option argument: rest of the pack (element consumed), else text after '=', else next element while optind < argc", f.loc, d,
              function=f.name, construct="arg-sources")
    red = {}
    for e in f.all_elems():
        if e.is_assign and e.op == "=" and sh(norm(e.kid(0))) == "opt_found" and sh(norm(e.kid(1))) in ("opt_missing", "opt_default"):
            red[sh(norm(e.kid(1)))] = e
    ok = set(red) == {"opt_missing", "opt_default"}
    if ok:
        am, ad = atoms_at(f, red["opt_missing"]), atoms_at(f, red["opt_default"])
        ok = HAS in am and ("==", "optarg", "0") in am and NOARG in ad and ("==", "os[opts[opt_found].olen]", "61") in ad
        # exactly then: no further condition on the option string narrows the redirection (an empty value after '=' is still a value)
        extra = [x for x in ad if x[1].startswith("os[") and x != ("==", "os[opts[opt_found].olen]", "61")]
        ok = ok and not extra
        ok = ok and red["opt_missing"].line > src[want[2]].line if sorted(src) == sorted(want) else False
    rep.check(ok, "Q6-args", "no argument available: missing-argument index; '=value' given to an option without argument: default index", f.loc, "",
              function=f.name, construct="arg-redirect")

    # ---- Q7: what is returned ------------------------------------------------------------------
    unk = [r for r in f.returns() if sh(norm(r.kid(0))) == "os"]
    can = [r for r in f.returns() if sh(norm(r.kid(0))) == "canonical_os"]
    cdef = [e for e in f.all_elems() if e.is_assign and e.op == "=" and sh(norm(e.kid(0))) == "canonical_os" and sh(norm(e.kid(1))) == "opts[opt_found].os"]
    srch = [e for e in f.all_elems() if e.is_assign and e.op == "=" and sh(norm(e.kid(0))) == "opt_found" and sh(norm(e.kid(1))) == "searchopt(os)"]
    ok = len(unk) == 1 and len(can) == 1 and len(cdef) == 1 and len(srch) == 1
    if ok:
        au = atoms_at(f, unk[0])
        ok = (("==", "opt_found", "opt_default") in au or ("==", "opt_default", "opt_found") in au) and f.dominates(srch[0], unk[0])
        ac = atoms_at(f, cdef[0])
        ok = ok and (("!=", "opt_found", "opt_default") in ac or ("!=", "opt_default", "opt_found") in ac)
        # the canonical string is fetched before any redirection of the index
        ok = ok and all(f.dominates(cdef[0], e) for e in red.values())
    rep.check(ok, "Q7-return", "unknown option: the string found; registered option: the registered string, fetched before the index is redirected", f.loc, "",
              function=f.name, construct="returns")

    # ---- Q8: reset --------------------------------------------------------------------------------
    stores = {sh(norm(e.kid(0))): sh(norm(e.kid(1))) for e in rs.all_elems() if e.is_assign and e.op == "="}
    ok = stores.get("optind") == "1" and stores.get("packedopts") == "0" and stores.get("getopt_initialized") == "0" and stores.get("optreset") == "0" \
        and stores.get("opt_found") in ("-1", "18446744073709551615")
    uncond = all(not rs.edge_conds(e) for e in rs.all_elems() if e.is_assign and sh(norm(e.kid(0))) in ("optind", "packedopts", "getopt_initialized", "optreset", "opt_found"))
    rep.check(ok and uncond, "Q8-reset", "reset(): optind = 1, no pack in progress, nothing found, not initialised, optreset cleared -- unconditionally", rs.loc,
              "%s" % {k: stores.get(k) for k in ("optind", "packedopts", "opt_found", "getopt_initialized", "optreset")}, function=rs.name, construct="reset")
    rc = list(f.calls("reset"))
    oa = [e for e in f.all_elems() if e.is_assign and sh(norm(e.kid(0))) == "optarg" and norm(e.kid(1)) == ("c", 0)]
    ok = len(rc) == 1 and ("!=", "optreset", "0") in atoms_at(f, rc[0]) and len(oa) == 1 and not f.edge_conds(oa[0])
    if ok:
        # nothing of the parse proper precedes the reset test: every read of optind / packedopts is after it
        first_use = [e for e in f.all_elems() if e.cls == "DeclRefExpr" and e.decl and e.decl.get("name", "").replace("libcperciva_", "") in ("optind", "packedopts")]
        ok = all(not f.reach_avoiding(f.entry, e.block.id, rc[0].block.id) or True for e in first_use)
        rb = [b for b in f.blocks.values() if b.cond is not None and any(sh(L) == "optreset" for _, L, _, _, _ in cond_atoms(b.cond, True))]
        ok = ok and len(rb) == 1 and all(rb[0].id in f.dominators().get(e.block.id, ()) for e in first_use)
    rep.check(ok, "Q8-reset", "getopt clears optarg on every call and resets before it looks at any parsing state", f.loc, "", function=f.name, construct="reset-first")
    # ---- Q9: the option table -------------------------------------------------------------------
    rg = u.func("getopt_register_opt")
    sr = u.func("getopt_setrange")
    if rg is None or sr is None:
        raise cdb.AnalysisBroken("anchor missing: getopt_register_opt / getopt_setrange")
    if rep.names(rg, "os", "ln", "hasarg") and rep.names(sr, "maxopts", "i"):
        rec = {sh(norm(e.kid(0))): sh(norm(e.kid(1))) for e in rg.all_elems() if e.is_assign and e.op == "=" and sh(norm(e.kid(0))).startswith("opts[ln].")}
        ok = rec == {"opts[ln].os": "os", "opts[ln].olen": "strlen(os)", "opts[ln].hasarg": "hasarg"}
        # malformed strings and duplicates never reach the table: the four shape tests and the duplicate search guard an abort
        conds = set()
        for b in rg.blocks.values():
            if b.cond is None:
                continue
            for op, L, R, _, _ in cond_atoms(b.cond, True):
                conds.add((op, sh(L), sh(R)))
        shape = {("!=", "os[0]", "45"), ("==", "os[1]", "0"), ("==", "os[1]", "45"), ("==", "os[2]", "0"), ("!=", "os[1]", "45"), ("!=", "os[2]", "0")} <= conds
        dup = any(op == "!=" and l == "searchopt(os)" and r == "opt_default" for op, l, r in conds)
        aborts = [c for c in rg.calls("abort")]
        stores = [e for e in rg.all_elems() if e.is_assign and sh(norm(e.kid(0))) == "opts[ln].os"]
        after = bool(stores) and len(aborts) >= 2 and all(a.line < stores[0].line for a in aborts if "assert" not in a.macro)
        rep.check(ok and shape and dup and after, "Q9-table", "an option is recorded with its string, its length and its argument flag, after the shape and duplicate checks", rg.loc,
                  "record %s; shape tests %s; duplicate test %s" % (rec, shape, dup), function=rg.name, construct="register")
        clr = [e for e in sr.all_elems() if e.is_assign and sh(norm(e.kid(0))) == "opts[i].os" and norm(e.kid(1)) == ("c", 0)]
        okc = len(clr) == 1 and any(op == "<" and l == "i" and r == "maxopts" for cond, truth in sr.edge_conds(clr[0]) for op, l, r in [(o, sh(L), sh(R)) for o, L, R, _, _ in cond_atoms(cond, truth)])
        st2 = {sh(norm(e.kid(0))): sh(norm(e.kid(1))) for e in sr.all_elems() if e.is_assign and e.op == "=" and norm(e.kid(0))[0] == "v"}
        okc = okc and st2.get("nopts") == "maxopts" and st2.get("opt_default") == "(maxopts+1)" and st2.get("opt_missing") in ("(opt_default=(maxopts+1))", "(maxopts+1)", "opt_default")
        # the table searched is the table cleared: the slot count searchopt scans (nopts) is set to the count just cleared on every
        # path through setrange, and the table allocated has that many slots
        ns = [e for e in sr.all_elems() if e.is_assign and e.op == "=" and sh(norm(e.kid(0))) == "nopts"]
        exits = [r for r in sr.returns()] or []
        dom = sr.dominators()
        ends = [pb for pb in sr.blocks[sr.exit].preds if not sr.blocks[pb].noreturn]
        every = len(ns) == 1 and bool(ends) and all(ns[0].block.id in dom.get(pb, ()) or ns[0].block.id == pb for pb in ends)
        okc = okc and every
        rep.check(okc, "Q9-table", "setrange empties every slot and places the default and missing-argument indices beyond the table", sr.loc, ("nopts is not set on every path; " if not every else "") + "%s" % st2,
                  function=sr.name, construct="setrange")
    rep.require_min("Q1-bounds", 6)
    rep.require_min("Q6-args", 2)
    return rep
