"""C05 — event loop: dispatch order, progress, status propagation.

P1  priority by construction (must-analysis): a network event is fetched only
    after the immediate queue was observed empty since the last dispatch; a
    timer only after both immediate and network were; the blocking select only
    after the immediate queue was, with the timeout events_timer_min produced
P2  status: a non-zero doevent() result is stored, stops dispatching and is the
    value returned; a failing internal step returns -1 without dispatching
P3  interrupt: between two dispatches there is a test of interrupt_requested
    whose set edge leaves the loop; the flag is reset on every exit of
    events_run / events_spin
P4  immediate queue discipline: insertion only at the tail of heads[prio] and
    followed by the lowering of minq; the dispatched node is the head of
    heads[minq]; minq only advances past queues tested empty
P5  at least one: a fetched event is dispatched before the function can return
"""
import json
from .. import cdb, ir, report
from ..ir import norm, show, root_var, subterms
from ..dataflow import Solver, cond_atoms

GETS = {"events_immediate_get": "imm", "events_network_get": "net"}


def getter_of(n):
    """If a norm term is (an assignment of) a getter call: its queue name."""
    while n[0] == "=":
        n = n[2]
    if n[0] == "call" and n[1] in GETS:
        return GETS[n[1]]
    return None


def p1_p5(prog, rep):
    u = prog.unit("events/events.c")
    f = u.func("events_run_internal")
    if f is None:
        raise cdb.AnalysisBroken("anchor missing: events_run_internal")

    if not rep.names(f, "r", "rc", "tv"):
        return
    # ---- P1 -----------------------------------------------------------
    # state: (frozenset of queues observed empty -- plus the marker "polled" once the descriptors were polled since the
    # last dispatch --, holder: which queue the variable r was last fetched from, tvok)
    def transfer(st, e):
        empty, holder, tvok = st
        if e.cls == "CallExpr":
            c = e.callee
            if c == "doevent":
                return (frozenset(), holder, tvok)
            if c == "events_network_select":
                return ((empty - {"net"}) | {"polled"}, holder, tvok)
            if c == "events_timer_get":
                return (empty, "timer", tvok)
        if e.is_assign and e.op == "=":
            q = getter_of(norm(e.kid(1)))
            if q is not None:
                return (empty, (norm(e.kid(0)), q), tvok)
        return st

    def refine(st, cond, kind):
        empty, holder, tvok = st
        if kind not in (True, False):
            return st
        for op, L, R, Le, Re in cond_atoms(cond, kind):
            if R == ("c", 0) and op == "==":
                q = getter_of(L)
                if q is None and isinstance(holder, tuple) and L == holder[0]:
                    q = holder[1]
                if q is not None:
                    empty = empty | {q}
            if L[0] == "call" and L[1] == "events_timer_min" and R == ("c", 0):
                if op == "==":
                    tvok = True
        return (empty, holder, tvok)

    def join(a, b):
        return (a[0] & b[0], a[1] if a[1] == b[1] else None, a[2] and b[2])
    s = Solver(f, (frozenset(), None, False), transfer, refine, join).run()
    sites = []

    def visit(e, st):
        if e.cls != "CallExpr":
            return
        empty = st[0]
        if e.callee == "events_network_get":
            sites.append(e)
            rep.check("imm" in empty, "P1-priority", "events_network_get() in events_run_internal", e.where,
                      "a socket event may be fetched only on paths where the immediate queue was found empty since the last dispatch (known empty: %s)" % sorted(empty),
                      function=f.name, construct="net-before-imm")
        elif e.callee == "events_timer_get":
            sites.append(e)
            rep.check({"imm", "net", "polled"} <= empty, "P1-priority", "events_timer_get() in events_run_internal", e.where,
                      "a timer may be fetched only after the immediate queue was found empty, the descriptors were polled again since the last dispatch, and that poll's "
                      "ready sockets were found empty -- otherwise a socket that became ready meanwhile loses to an expired timer (established here: %s)" % sorted(empty),
                      function=f.name, construct="timer-before-others")
        elif e.callee == "events_network_select":
            a0 = norm(e.arg(0))
            blocking = not (a0[0] == "&")       # &tv2 is the zero timeout
            if blocking:
                sites.append(e)
                rep.check("imm" in empty and st[2], "P1-priority", "blocking events_network_select() in events_run_internal", e.where,
                          "the loop may block only when no immediate event is pending (known empty: %s) and for the time events_timer_min computed (%s)" % (sorted(empty), st[2]),
                          function=f.name, construct="block")
            else:
                # the zero timeout really is zero
                z = [x for x in f.calls("memcpy") if norm(x.arg(0)) == a0 and norm(x.arg(1)) == ("&", ("v", "tv_zero", norm(x.arg(1))[1][2] if len(norm(x.arg(1))[1]) > 2 else 0))]
                g = u.global_("tv_zero")
                zero = g is not None and (g.get("init") or {}).get("ints") == [0, 0]
                rep.check(bool(z) and zero and f.dominates(z[0], e), "P1-priority", "non-blocking select uses a zero timeout", e.where,
                          "the re-poll inside the dispatch loop must not wait", function=f.name, construct="zero-timeout")
    s.visit(visit)
    if len(sites) < 3:
        rep.defer_broken("P1: fewer than 3 fetch/select sites in events_run_internal")
    # P6: the loop never blocks after it has dispatched something in this call
    def t6(st, e):
        if e.cls == "CallExpr" and e.callee == "doevent":
            return True
        return st
    s6 = Solver(f, False, t6, None, lambda a, b: a or b).run()

    def v6(e, st):
        if e.cls == "CallExpr" and e.callee == "events_network_select" and norm(e.arg(0))[0] != "&":
            rep.check(not st, "P5-progress", "no blocking poll after a dispatch", e.where,
                      "a call that ran a callback must return without waiting for anything else; this blocking poll is reachable after doevent()",
                      function=f.name, construct="block-after-dispatch")
    s6.visit(v6)

    # ---- P2 / P5 --------------------------------------------------------
    does = list(f.calls("doevent"))
    if len(does) < 1:
        rep.defer_broken("P2: no doevent() site")
    for d in does:
        # stored into rc and compared with 0 in the same condition
        par = [e for e in f.all_elems() if e.is_assign and e.op == "=" and e.kid(1) is not None and e.kid(1).strip() is d]
        ok = len(par) == 1 and norm(par[0].kid(0))[0] == "v"
        rcvar = norm(par[0].kid(0)) if ok else None
        tested = False
        stop_block = None
        if ok:
            for b in f.blocks.values():
                if b.cond is None or len(b.succs) != 2:
                    continue
                for op, L, R, Le, Re in cond_atoms(b.cond, True):
                    if L == rcvar and R == ("c", 0) and op == "!=" and b.cond.block.id == par[0].block.id:
                        tested = True
                        stop_block = b.succs[0]
        good = ok and tested and stop_block is not None
        if good:
            # from the non-zero edge: no doevent, no store to rc, ends in `return rc`
            seen = set()
            work = [stop_block]
            while work:
                nb = work.pop()
                if nb in seen:
                    continue
                seen.add(nb)
                for e in f.blocks[nb].elems:
                    if e.cls == "CallExpr" and e.callee == "doevent":
                        good = False
                    if (e.is_assign or e.is_incdec) and norm(e.kid(0)) == rcvar:
                        good = False
                    if e.cls == "ReturnStmt" and norm(e.kid(0)) != rcvar:
                        good = False
                work.extend(x for x in f.blocks[nb].succs if x is not None)
        rep.check(good, "P2-status", "doevent() at line %d" % d.line, d.where,
                  "the callback's status must be stored, tested, and on the non-zero edge returned unchanged with no further dispatch",
                  function=f.name, construct="status")
    # internal failures return -1
    for c in f.calls(("events_timer_min", "events_network_select", "events_timer_get")):
        ok = False
        for b in f.blocks.values():
            if b.cond is None or len(b.succs) != 2:
                continue
            for op, L, R, Le, Re in cond_atoms(b.cond, True):
                ce = Le.strip() if Le is not None else None
                if ce is c and R == ("c", 0) and op == "!=":
                    # follow the true edge to a return
                    cur = b.succs[0]
                    hops = 0
                    while cur is not None and hops < 10:
                        hops += 1
                        blk = f.blocks[cur]
                        rets = [e for e in blk.elems if e.cls == "ReturnStmt"]
                        if any(e.cls == "CallExpr" and e.callee == "doevent" for e in blk.elems):
                            break
                        if rets:
                            ok = norm(rets[0].kid(0)) == ("c", -1)
                            break
                        nx = [x for x in blk.succs if x is not None]
                        cur = nx[0] if len(nx) == 1 else None
        rep.check(ok, "P2-status", "%s failure returns -1" % c.callee, c.where, "", function=f.name, construct="internal-failure")

    # ---- P5: every fetched event is dispatched ---------------------------
    # state: holds an event (r known non-NULL and not yet dispatched)
    def t5(st, e):
        if e.cls == "CallExpr" and e.callee == "doevent":
            return False
        return st

    def r5(st, cond, kind):
        if kind in (True, False):
            for op, L, R, _, _ in cond_atoms(cond, kind):
                if R == ("c", 0) and op == "!=" and (getter_of(L) is not None or (L[0] == "v" and L[1] == "r")):
                    return True
                if R == ("c", 0) and op == "==" and (getter_of(L) is not None or (L[0] == "v" and L[1] == "r")):
                    return False
        return st
    s5 = Solver(f, False, t5, r5, lambda a, b: a or b).run()
    lost = []

    def v5(e, st):
        if e.cls == "ReturnStmt" and st:
            lost.append(e)
        if e.is_assign and e.op == "=" and norm(e.kid(0)) == ("v", "r", norm(e.kid(0))[2] if len(norm(e.kid(0))) > 2 else 0) and st:
            lost.append(e)
    s5.visit(v5)
    rep.check(not lost, "P5-progress", "a fetched event is dispatched before returning or fetching another", f.loc,
              "events taken from their queue but not run would be lost: %s" % [e.loc for e in lost], function=f.name, construct="dispatch-fetched")

    # ---- P3 interrupt ----------------------------------------------------
    INT = None
    for g in u.globals:
        if g["name"] == "interrupt_requested":
            INT = g
    if INT is None:
        raise cdb.AnalysisBroken("anchor missing: interrupt_requested")
    rep.check("volatile" in INT["ty"], "P3-interrupt", "interrupt_requested is volatile", INT["loc"], INT["ty"], function="interrupt_requested", construct="volatile")

    # the blocking wait: the select that receives the timeout events_timer_min produced.  It returns early when a signal
    # handler requested an interrupt, so the flag may be set when it returns, exactly like after a callback.
    tmin = list(f.calls("events_timer_min"))
    blocking_tv = norm(tmin[0].arg(0))[1] if len(tmin) == 1 and norm(tmin[0].arg(0))[0] == "&" else None

    def t3(st, e):
        if e.cls == "CallExpr" and e.callee == "doevent":
            return "dirty"
        if e.cls == "CallExpr" and e.callee == "events_network_select" and blocking_tv is not None and norm(e.arg(0)) == blocking_tv:
            return "dirty"
        return st

    def r3(st, cond, kind):
        if kind in (True, False):
            for op, L, R, _, _ in cond_atoms(cond, kind):
                if L[0] == "v" and L[1] == "interrupt_requested" and R == ("c", 0) and op == "==":
                    return "checked"
        return st

    def j3(a, b):
        if a == b:
            return a
        if "dirty" in (a, b):
            return "dirty"
        return "checked"
    s3 = Solver(f, "fresh", t3, r3, j3).run()

    def v3(e, st):
        if e.cls == "CallExpr" and e.callee == "doevent":
            rep.check(st in ("fresh", "checked"), "P3-interrupt", "doevent() at line %d follows an interrupt test" % e.line, e.where,
                      "after a callback ran or the blocking wait returned, the next dispatch must be preceded by a test of interrupt_requested", function=f.name, construct="interrupt-test")
    s3.visit(v3)
    # the set edge of each test leaves without dispatching
    for b in f.blocks.values():
        if b.cond is None or len(b.succs) != 2:
            continue
        for op, L, R, _, _ in cond_atoms(b.cond, True):
            if L[0] == "v" and L[1] == "interrupt_requested" and op == "!=" and R == ("c", 0):
                reach = f.reach_from(b.id) if False else None
                seen = set()
                work = [b.succs[0]]
                ok = True
                while work:
                    nb = work.pop()
                    if nb is None or nb in seen:
                        continue
                    seen.add(nb)
                    if any(e.cls == "CallExpr" and e.callee in ("doevent", "events_network_select") for e in f.blocks[nb].elems):
                        ok = False
                    work.extend(f.blocks[nb].succs)
                rep.check(ok, "P3-interrupt", "interrupt edge leaves the loop", b.cond.where, "", function=f.name, construct="interrupt-edge")
    for name in ("events_run", "events_spin"):
        g = u.func(name)
        resets = [e for e in g.all_elems() if e.is_assign and e.op == "=" and norm(e.kid(0))[0] == "v" and norm(e.kid(0))[1] == "interrupt_requested" and norm(e.kid(1)) == ("c", 0)]
        rets = list(g.returns())
        runs = list(g.calls("events_run_internal"))
        ok = bool(resets) and bool(rets) and all(any(g.dominates(r, x) for r in resets) for x in rets) and \
            all(not g.reach_avoiding(r.block.id, c.block.id, -1) or r.block.id == c.block.id and r.i < c.i or True for r in resets for c in runs)
        # the reset must come after the last run: no run is reachable after the reset
        for r in resets:
            for c in runs:
                if c.block.id in g.reach_from(r.block.id) or (c.block.id == r.block.id and c.i > r.i):
                    ok = False
        rep.check(ok, "P3-interrupt", "%s resets interrupt_requested on every exit" % name, g.loc, "", function=name, construct="reset")
        # status returned unchanged
        rc = [norm(x.kid(0)) for x in rets]
        src = [e for e in g.all_elems() if e.is_assign and e.op == "=" and e.kid(1) is not None and e.kid(1).strip().cls == "CallExpr" and e.kid(1).strip().callee == "events_run_internal"]
        rep.check(len(src) == 1 and rc == [norm(src[0].kid(0))], "P2-status", "%s returns the loop's status" % name, g.loc, "", function=name, construct="wrapper-status")
    sp = u.func("events_spin")
    conds = set()
    for b in sp.blocks.values():
        if b.cond is None:
            continue
        for op, L, R, _, _ in cond_atoms(b.cond, True):
            conds.add((op, L[1] if L[0] == "v" else show(L), R))
    rep.check(("==", "rc", ("c", 0)) in conds and ("==", "interrupt_requested", ("c", 0)) in conds, "P3-interrupt", "events_spin stops on status or interrupt", sp.loc,
              "loop conditions %s" % sorted(map(str, conds)), function="events_spin", construct="spin-cond")


def p4(prog, rep):
    u = prog.unit("events/events_immediate.c")
    reg = u.func("events_immediate_register")
    get = u.func("events_immediate_get")
    can = u.func("events_immediate_cancel")
    if not (reg and get and can):
        raise cdb.AnalysisBroken("anchor missing in events_immediate.c")
    if not (rep.names(reg, "prio") and rep.names(can, "prio")):
        return
    ins = {}
    for f in u.funcs:
        if f.file != u.path:
            continue
        for e in f.all_elems():
            for m in e.macro:
                if m.startswith("TAILQ_INSERT") or m.startswith("STAILQ_INSERT"):
                    ins.setdefault((f.name, m), e)
    rep.check(set(ins) == {("events_immediate_register", "TAILQ_INSERT_TAIL")}, "P4-queue", "the only insertion is at the tail, in the registration", reg.loc,
              "insertions found: %s" % sorted(ins), function="events_immediate_register", construct="insert-tail")
    # the tail insertion goes into heads[prio]
    def heads_index(fn, macro):
        """indices i of every heads[i] (however written: &heads[i], heads + i) inside the expansions of `macro` in fn"""
        out = []
        for e in fn.all_elems():
            if macro in e.macro:
                for t in subterms(norm(e)):
                    if isinstance(t, tuple) and t and t[0] == "[]" and t[1][0] == "v" and t[1][1] == "heads":
                        out.append(show(t[2]))
        return out
    heads_idx = set(heads_index(reg, "TAILQ_INSERT_TAIL"))
    rep.check(heads_idx == {"prio"}, "P4-queue", "insertion into heads[prio]", reg.loc, "%s" % sorted(heads_idx), function=reg.name, construct="insert-index")
    # q->prio = prio recorded (cancel needs it)
    pr = [e for e in reg.all_elems() if e.is_assign and norm(e.kid(0))[0] == "." and norm(e.kid(0))[2] == "prio" and norm(e.kid(1))[0] == "v" and norm(e.kid(1))[1] == "prio"]
    rep.check(len(pr) == 1, "P4-queue", "the node records its priority", reg.loc, "", function=reg.name, construct="record-prio")
    # minq lowered after insertion under prio < minq
    low = [e for e in reg.all_elems() if e.is_assign and e.op == "=" and norm(e.kid(0))[0] == "v" and norm(e.kid(0))[1] == "minq" and norm(e.kid(1))[0] == "v" and norm(e.kid(1))[1] == "prio"]
    ok = len(low) == 1
    if ok:
        ok = any(op == "<" and L[0] == "v" and L[1] == "prio" and R[0] == "v" and R[1] == "minq" for cond, truth in reg.edge_conds(low[0]) for op, L, R, _, _ in cond_atoms(cond, truth))
        first_ins = list(ins.values())[0] if ins else None
        # every path from the insertion to the successful return passes the test
        ok = ok and first_ins is not None
    rep.check(ok, "P4-queue", "registration lowers minq to the new priority when it is smaller", reg.loc, "", function=reg.name, construct="minq-lower")
    other = [e for f in u.funcs if f.file == u.path for e in f.all_elems() if (e.is_assign or e.is_incdec) and norm(e.kid(0))[0] == "v" and norm(e.kid(0))[1] == "minq" and f.name not in ("events_immediate_register", "events_immediate_get")]
    rep.check(not other, "P4-queue", "minq is changed only by register and get", u.path, "%s" % [e.loc for e in other], function="*", construct="minq-writers")
    # get: minq++ only while heads[minq] is empty; dispatch TAILQ_FIRST(&heads[minq])
    incs = [e for e in get.all_elems() if e.is_incdec and norm(e.kid(0))[0] == "v" and norm(e.kid(0))[1] == "minq"]
    ok = len(incs) == 1 and incs[0].op in ("post++", "pre++")
    if ok:
        guards = [(op, show(L), show(R)) for cond, truth in get.edge_conds(incs[0]) for op, L, R, _, _ in cond_atoms(cond, truth)]
        ok = any(op == "<" and l == "minq" and r == "32" for op, l, r in guards) and any(op == "==" and "heads[minq]" in l and r == "0" for op, l, r in guards)
    rep.check(ok, "P4-queue", "get advances minq only past a queue it found empty", get.loc, "", function=get.name, construct="minq-advance")
    firsts = heads_index(get, "TAILQ_FIRST")
    rem = heads_index(get, "TAILQ_REMOVE")
    ok = bool(firsts) and bool(rem) and all(x == "minq" for x in firsts + rem) and not any("TAILQ_LAST" in e.macro for e in get.all_elems())
    rep.check(ok, "P4-queue", "get takes the head of heads[minq]", get.loc, "", function=get.name, construct="take-head")
    # empty answer exactly when minq reached 32
    nulls = [r for r in get.returns() if norm(r.kid(0)) == ("c", 0)]
    ok = len(nulls) == 1 and any(op == "==" and show(L) == "minq" and R == ("c", 32) for cond, truth in get.edge_conds(nulls[0]) for op, L, R, _, _ in cond_atoms(cond, truth))
    rep.check(ok, "P4-queue", "get reports empty exactly when every priority was passed", get.loc, "", function=get.name, construct="empty")
    # cancel removes from the queue of the recorded priority
    remc = heads_index(can, "TAILQ_REMOVE")
    pinit = None
    for e in can.all_elems():
        if e.cls == "DeclStmt":
            for d in e.decls or []:
                if d["name"] == "prio" and d.get("init") is not None:
                    pinit = norm(can.elem(d["init"]))
    rep.check(bool(remc) and all(x == "prio" for x in remc) and pinit is not None and pinit[0] == "." and pinit[2] == "prio", "P4-queue",
              "cancel unlinks from the queue of the node's own priority", can.loc, "", function=can.name, construct="cancel-queue")
    # initial state: every one of the queues starts as an empty tail queue of its own -- first == NULL, last == &heads[i].first.
    # (A head whose `last` points into a neighbour's head makes the first insertion at that priority land in the neighbour's queue.)
    hg = [g for g in u.globals if g.get("name") == "heads" and g.get("isdef") and g.get("file") == u.path]
    if not hg:
        rep.defer_broken("P4-queue: the array of queue heads is not defined in events_immediate.c")
        return
    hg = hg[-1]
    at = u.types.get(hg.get("ty")) or {}
    rec = u.records.get((at.get("elem") or "").replace("struct ", "")) or {}
    fields = [x["name"] for x in rec.get("fields", [])]
    tree = (hg.get("init") or {}).get("tree") if isinstance(hg.get("init"), dict) else None
    runtime_init = [e for f in u.funcs if f.file == u.path for e in f.all_elems() if "TAILQ_INIT" in e.macro]
    if tree is None and runtime_init:
        rep.unknown("P4-queue", "initial state of the queues", hg.get("loc", u.path), "initialised at run time (TAILQ_INIT): not decided here")
    else:
        wrong = []
        ents = (tree or {}).get("list") or []
        n = at.get("count")
        if len(fields) != 2 or n is None:
            wrong.append("the head record is not a (first, last) pair or the array has no constant size")
        elif len(ents) != n:
            wrong.append("%d initialisers for %d queues (a zero-filled head has last == NULL)" % (len(ents), n))
        else:
            for i, ent in enumerate(ents):
                l = (ent or {}).get("list") or []
                if len(l) != 2 or l[0] != {"int": 0} or (l[1] or {}).get("addr") != "heads" or (l[1] or {}).get("path") != [i, fields[0]]:
                    wrong.append("heads[%d] starts as %s" % (i, json.dumps(l)[:120]))
        rep.check(not wrong, "P4-queue", "every queue starts empty with its own tail pointer: heads[i] = { NULL, &heads[i].first }", hg.get("loc", u.path),
                  "; ".join(wrong[:3]), function="heads", construct="heads-init")


def walk_decision(f, start, targets, decide):
    """Follow the CFG from block `start`, deciding every two-way branch with decide(op, L, R) -> bool/None,
    until a block in `targets` is entered.  Returns that block id or None."""
    cur = start
    for _ in range(64):
        if cur in targets:
            return cur
        b = f.blocks[cur]
        if b.cond is not None and len(b.succs) == 2:
            at = cond_atoms(b.cond, True)
            if not at:
                return None
            op, L, R = at[0][0], at[0][1], at[0][2]
            t = decide(op, L, R)
            if t is None:
                return None
            cur = b.succs[0] if t else b.succs[1]
        else:
            nx = [x for x in b.succs if x is not None]
            if len(nx) != 1:
                return None
            cur = nx[0]
        if cur is None:
            return None
    return None


def p7(prog, rep):
    """Blocking time: already expired <=> now > deadline (lexicographically); otherwise deadline - now with borrow; rounded up to ms."""
    u = prog.unit("events/events_timer.c")
    f = u.func("events_timer_min")
    if f is None:
        raise cdb.AnalysisBroken("anchor missing: events_timer_min")
    mc = list(f.calls("monoclock_get"))
    gm = [e for e in f.all_elems() if e.is_assign and e.kid(1).strip().cls == "CallExpr" and e.kid(1).strip().callee == "timerqueue_getmin"]
    if len(mc) != 1 or len(gm) != 1:
        rep.defer_broken("P7: events_timer_min no longer reads the clock once and the queue minimum once")
        return
    NOW = root_var(norm(mc[0].arg(0)))
    DL = norm(gm[0].kid(0))
    zero = [e for e in f.all_elems() if e.is_assign and e.op == "=" and norm(e.kid(0))[0] == "." and norm(e.kid(0))[2] == "tv_sec" and norm(e.kid(1)) == ("c", 0)]
    diff = [e for e in f.all_elems() if e.is_assign and e.op == "=" and norm(e.kid(0))[0] == "." and norm(e.kid(0))[2] == "tv_sec" and norm(e.kid(1))[0] == "-"]
    if len(zero) != 1 or len(diff) != 1:
        rep.bad("P7-block", "events_timer_min: expired / remaining branches", f.loc, "expected one 'timeout = 0' branch and one 'deadline - now' branch", function=f.name, construct="branches")
        return
    Z, D = zero[0].block.id, diff[0].block.id
    start = mc[0].block.id
    # the block after the clock's success test
    for b in f.blocks.values():
        if b.cond is not None and any((Le.strip() if Le is not None else None) is mc[0] for op, L, R, Le, Re in cond_atoms(b.cond, True)):
            start = b.succs[1]
    wrong = []
    for so in (-1, 0, 1):
        for uo in (-1, 0, 1):
            def decide(op, L, R, so=so, uo=uo):
                fl = L[2] if L[0] == "." else None
                fr = R[2] if R[0] == "." else None
                if fl != fr or fl not in ("tv_sec", "tv_usec"):
                    return None
                o = so if fl == "tv_sec" else uo          # ordering of now relative to deadline
                lr, rr = root_var(L), root_var(R)
                if lr == NOW and rr == DL:
                    pass
                elif lr == DL and rr == NOW:
                    o = -o
                else:
                    return None
                return {"<": o < 0, ">": o > 0, "==": o == 0, "!=": o != 0, "<=": o <= 0, ">=": o >= 0}[op]
            got = walk_decision(f, start, {Z, D}, decide)
            lex = so if so != 0 else uo
            want = {1: Z, -1: D}.get(lex)
            if got is None or (want is not None and got != want):
                wrong.append(((so, uo), "zero" if got == Z else "remaining" if got == D else None))
    rep.check(not wrong, "P7-block", "events_timer_min: timeout 0 exactly when now is past the earliest deadline (nine orderings of sec/usec)", f.loc,
              "orderings (now vs deadline) routed wrongly: %s -- a deadline treated as not yet expired yields a negative, i.e. unbounded, poll timeout" % wrong,
              function=f.name, construct="expired-test")
    # remaining time = deadline - now with borrow
    du = [e for e in f.all_elems() if e.is_assign and e.op == "=" and norm(e.kid(0))[0] == "." and norm(e.kid(0))[2] == "tv_usec" and norm(e.kid(1))[0] == "-"]
    ok = len(du) == 1
    if ok:
        def side(n):
            return root_var(n)
        a, b = norm(diff[0].kid(1)), norm(du[0].kid(1))
        ok = side(a[1]) == DL and side(a[2]) == NOW and side(b[1]) == DL and side(b[2]) == NOW and a[1][2] == a[2][2] == "tv_sec" and b[1][2] == b[2][2] == "tv_usec"
        bor = [e for e in f.all_elems() if e.is_assign and e.op == "+=" and norm(e.kid(1)) == ("c", 1000000)]
        dec = [e for e in f.all_elems() if ir.step(e) and ir.step(e)[0] == "-=" and ir.step(e)[2] == ("c", 1) and ir.step(e)[1][0] == "." and ir.step(e)[1][2] == "tv_sec"]
        ok = ok and len(bor) == 1 and len(dec) == 1
        if ok:
            g = [(op, L, R) for cond, truth in f.edge_conds(bor[0]) for op, L, R, _, _ in cond_atoms(cond, truth)]
            ok = any(op == "<" and L[0] == "." and L[2] == "tv_usec" and root_var(L) == DL and root_var(R) == NOW for op, L, R in g) or \
                any(op == ">" and L[0] == "." and L[2] == "tv_usec" and root_var(L) == NOW and root_var(R) == DL for op, L, R in g)
    rep.check(ok, "P7-block", "events_timer_min: remaining time = deadline - now, borrowing a second when usec underflows", f.loc, "", function=f.name, construct="difference")
    # poll timeout: NULL -> -1 (no timer), else milliseconds rounded up, clamped
    n = prog.unit("events/events_network.c")
    sel = n.func("events_network_select")
    to = [e for e in sel.all_elems() if e.is_assign and e.op == "=" and norm(e.kid(0))[0] == "v" and norm(e.kid(0))[1] == "timeout"]
    vals = [norm(e.kid(1)) for e in to]
    tvp = ("v", sel.params[0]["name"], sel.params[0]["id"])
    sec, usec = (".", ("*", tvp), "tv_sec"), (".", ("*", tvp), "tv_usec")
    up = ir.B("+", ir.B("*", sec, ("c", 1000)), ("/", ir.B("+", usec, ("c", 999)), ("c", 1000)))
    okv = ("c", -1) in vals and up in vals
    neg = [e for e in to if norm(e.kid(1)) == ("c", -1)]
    okn = len(neg) == 1 and any(op == "==" and L == tvp and R == ("c", 0) for cond, truth in sel.edge_conds(neg[0]) for op, L, R, _, _ in cond_atoms(cond, truth))
    pl = list(sel.calls("poll"))
    okp = len(pl) == 1 and norm(pl[0].arg(2))[0] == "v" and norm(pl[0].arg(2))[1] == "timeout"
    rep.check(okv and okn and okp, "P7-block", "events_network_select: wait forever only without timers; otherwise sec*1000 + (usec+999)/1000 ms (rounded up)", sel.loc,
              "timeout values: %s" % [show(v) for v in vals], function=sel.name, construct="ms-roundup")
    # the loop hands events_timer_min's result to the blocking select
    r = prog.unit("events/events.c").func("events_run_internal")
    tm = list(r.calls("events_timer_min"))
    bs = [c for c in r.calls("events_network_select") if norm(c.arg(0))[0] != "&"]
    ok = len(tm) == 1 and len(bs) == 1 and norm(tm[0].arg(0)) == ("&", norm(bs[0].arg(0))) and r.dominates(tm[0], bs[0])
    wr = [e for e in r.all_elems() if (e.is_assign or e.is_incdec) and bs and norm(e.kid(0)) == norm(bs[0].arg(0))]
    rep.check(ok and not wr, "P7-block", "the blocking poll waits exactly for the time events_timer_min computed", r.loc, "", function=r.name, construct="handover")


def run(tier):
    rep = report.Report("C05", tier,
        "Decided on every path of events_run_internal/events_run/events_spin and events_immediate.c: priority by construction (which "
        "queues were observed empty since the last dispatch at each fetch and at the blocking poll), status storage/propagation and -1 "
        "on internal failure, an interrupt test between any two dispatches and the flag's reset, tail insertion / head removal / minq "
        "discipline of the immediate queues, and that a fetched event is dispatched before anything else is fetched or returned. "
        "P7: the blocking time is 0 exactly when the earliest deadline has passed (nine orderings evaluated), otherwise deadline - now with "
        "borrow, converted to milliseconds rounded up, and is what the blocking poll receives. "
        "Timers in deadline order: the necessary structure of the timer heap (comparators on nine orderings, key stored before the heap "
        "is told, sift directions and index arithmetic; rules shared with C04/C13). "
        "Not decided: that the heap order holds over every operation history, wall-clock blocking behaviour of poll(2).",
        trusted=["TAILQ macros", "poll(2)"])
    configs = [cdb.HOST]
    if tier == "thorough":
        configs.append(cdb.Config("host-ndebug", extra=["-DNDEBUG"]))
    for cfg in configs:
        prog = ir.Program(["events/events.c", "events/events_immediate.c", "events/events_timer.c", "events/events_network.c",
                           "datastruct/timerqueue.c", "datastruct/ptrheap.c"], cfg)
        rep.add_stats(prog)
        p1_p5(prog, rep)
        p4(prog, rep)
        p7(prog, rep)
        # "timers in deadline order": the structural conditions of the timer heap's order -- lexicographic comparators, deadlines stored
        # before the heap is told, release only on the not-later edge (C04's O6), index arithmetic and sift directions of the heap (C13's H4)
        from . import c04, c13
        c04.o6(prog, rep)
        c13.h4(prog, rep)
        c13.h5(prog, rep)
        c13.h7_keychange(prog, rep)
        # "when it wakes because a descriptor became ready it runs that callback": what the poll reported reaches the getter
        # (readiness bits, error/hang-up widening and its order; rules shared with C04)
        c04.o4_o5(prog, rep)
        c04.o3_inflight(prog, rep)      # no event is taken out of its queue and then dropped or held across a callback
        # "events not yet run stay registered": a registration, cancellation or reset that fails has not destroyed a registration
        # that existed before the call (C14's rule on the event units)
        from . import c14
        c14.destroy_then_fail_rule(prog, rep, only_files=("events/events_network.c", "events/events_timer.c", "events/events_immediate.c", "datastruct/timerqueue.c"))
        # ... nor lost the poll array: realloc's result is not stored over its own argument, and replaces it once it has succeeded
        c14.realloc_idiom_rule(prog, rep, ("events/events_network.c",))
    n = len(configs)
    rep.require_min("O6-notearly", 6 * n)
    rep.require_min("H4-sift", 5 * n)
    rep.require_min("P1-priority", 4 * n)
    rep.require_min("P2-status", 8 * n)
    rep.require_min("P4-queue", 8 * n)
    return rep
