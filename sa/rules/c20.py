"""C20 — key material is wiped.

Z1  finalised hash/HMAC contexts are fully covered by wipes at every exit
    (field-sensitive must-analysis over byte intervals, callee summaries
    computed from the repository).
Z2  zero-then-free for expanded AES keys and AES-CTR streams (object typestate).
Z3  secret-dependent BIGNUMs in crypto_dh.c are released only by BN_clear_free
    (taint closure over the BN_* data flow).
Z4  aws_readkeys: the duplicated secret is wiped before every free.
Z5  the wipe is real: volatile function pointer, volatile byte stores, and the
    calls survive clang -O2 (LLVM IR lane).
"""
import os, re, subprocess
from .. import cdb, ir, mem, report
from ..ir import subterms, norm, root_var
from ..dataflow import Solver, cond_atoms
from ..mem import Intervals

HASH_UNITS = ["alg/sha256.c", "alg/sha1.c", "alg/md5.c"]
AES_UNITS = ["crypto/crypto_aes.c", "crypto/crypto_aes_aesni.c", "crypto/crypto_aesctr.c"]
KEY_WRITERS = {"AES_set_encrypt_key": 0,  # returns 0 on success; failure edge writes nothing
               "crypto_aes_key_expand_128_aesni": None,
               "crypto_aes_key_expand_256_aesni": None,
               "crypto_aesctr_init2": None}
WIPE = "insecure_memzero"


# --------------------------------------------------------------------------
# Z1: interval analysis
# --------------------------------------------------------------------------
class WipeAnalysis:
    def __init__(self, prog):
        self.prog = prog
        self.memo = {}

    def _is_const_ptr(self, unit, ty):
        t = unit.types.get(ty) or {}
        if t.get("kind") != "ptr":
            return False
        pt = unit.types.get(t.get("pointee")) or {}
        return bool(pt.get("const")) or t.get("pointee", "").startswith("const ")

    def param_wiped(self, func, k):
        """Does `func` leave *param[k] fully wiped at every exit?"""
        key = (func.unit.path, func.name, k)
        if key in self.memo:
            return self.memo[key]
        self.memo[key] = False  # recursion guard
        p = func.params[k]
        n = mem.pointee_size(func.unit, p["ty"])
        ok = False
        if n:
            root = ("deref", p["name"], p["id"])
            res = self.analyze(func, root, n, Intervals())
            ok = bool(res) and all(st is not None and st.covers(0, n) for _, st in res)
        self.memo[key] = ok
        return ok

    def analyze(self, func, root, n, init):
        """[(exit description, clean Intervals)] for every exit of func."""
        unit = func.unit
        aliases = mem.local_aliases(func, unit)
        prog = self.prog

        def touch(st, p, wipe_len=None):
            if p is None or p[0] != root:
                return st
            return st

        def transfer(st, e):
            if e.cls == "CallExpr":
                cal = e.callee
                if cal == WIPE:
                    p = mem.pointer(e.arg(0), unit, aliases)
                    ln = e.arg(1).val if e.arg(1) is not None else None
                    if p is not None and p[0] == root and p[1] is not None and ln is not None:
                        return st.add(p[1], p[1] + ln)
                    return st
                g = prog.resolve(func, cal) if cal else None
                for k, a in enumerate(e.args):
                    if a is None:
                        continue
                    p = mem.pointer(a, unit, aliases)
                    if p is None or p[0] != root:
                        continue
                    if self._is_const_ptr(unit, a.ty):
                        continue
                    if g is not None and k < len(g.params) and p[1] is not None and self.param_wiped(g, k):
                        sz = mem.pointee_size(g.unit, g.params[k]["ty"])
                        st = st.add(p[1], p[1] + sz)
                    else:
                        st = st.remove(p[1] if p[1] is not None else 0, n)
                return st
            if e.is_assign or e.is_incdec:
                lv = mem.lvalue(e.kid(0), unit, aliases)
                if lv is not None and lv[0] == root:
                    if lv[1] is None or lv[2] is None:
                        return Intervals()
                    return st.remove(lv[1], lv[1] + lv[2])
                return st
            return st

        s = Solver(func, init, transfer, refine=None, join=lambda a, b: a.meet(b)).run()
        out = []
        for bid in func.blocks[func.exit].preds:
            blk = func.blocks[bid]
            if blk.noreturn:
                continue
            st = s.state_at_end(bid)
            if bid not in s.IN:
                continue
            last = blk.elems[-1] if blk.elems else None
            where = last.loc if last is not None else func.endloc
            out.append((where, st))
        return out


def z1(prog, rep):
    wa = WipeAnalysis(prog)
    for up in HASH_UNITS:
        unit = prog.unit(up)
        for f in unit.funcs:
            if f.file != up:
                continue
            # finalisers: public *_Final with a pointer-to-*_CTX parameter
            if f.name.endswith("_Final") and not f.static:
                for k, p in enumerate(f.params):
                    t = unit.types.get(p["ty"], {})
                    pt = unit.types.get(t.get("pointee", ""), {})
                    if t.get("kind") == "ptr" and pt.get("kind") == "struct" and pt.get("record", "").endswith("_CTX"):
                        n = pt["size"]
                        res = wa.analyze(f, ("deref", p["name"], p["id"]), n, Intervals())
                        _judge(rep, "Z1-final", f, "*%s (%s, %d bytes)" % (p["name"], pt["record"], n), res, n)
            # one-shots: local *_CTX objects
            seen = set()
            for e in f.all_elems():
                if e.cls != "DeclStmt":
                    continue
                for d in e.decls or []:
                    t = unit.types.get(d["ty"], {})
                    if d["kind"] == "local" and t.get("kind") == "struct" and t.get("record", "").endswith("_CTX") and d["id"] not in seen:
                        seen.add(d["id"])
                        n = t["size"]
                        res = wa.analyze(f, ("obj", d["name"], d["id"]), n, Intervals([(0, n)]))
                        _judge(rep, "Z1-local", f, "%s (%s, %d bytes)" % (d["name"], t["record"], n), res, n)
    rep.require_min("Z1-final", 6)
    rep.require_min("Z1-local", 8)


def _judge(rep, rule, f, inst, res, n):
    if not res:
        raise cdb.AnalysisBroken("%s: no exit found in %s" % (rule, f.name))
    bad = [(w, st) for w, st in res if st is None or not st.covers(0, n)]
    if bad:
        w, st = bad[0]
        rep.bad(rule, inst, "%s (%s)" % (w, f.name),
                "context not fully wiped at this exit: clean bytes %s of [0,%d)" % (list(st.iv) if st else "?", n),
                function=f.name, construct=inst.split(" ")[0])
    else:
        rep.ok(rule, inst, "%s (%s)" % (f.loc, f.name), "%d exit(s), all cover [0,%d)" % (len(res), n))


# --------------------------------------------------------------------------
# Z2: zero-then-free
# --------------------------------------------------------------------------
def z2(prog, rep):
    for up in AES_UNITS:
        unit = prog.unit(up)
        msizes = set()
        for f in unit.funcs:
            if f.file != up:
                continue
            for c in f.calls("malloc"):
                if c.arg(0) is not None and c.arg(0).val is not None:
                    msizes.add(c.arg(0).val)
        for f in unit.funcs:
            if f.file != up:
                continue
            frees = [c for c in f.calls("free")]
            for fr in frees:
                a = fr.arg(0).strip() if fr.arg(0) is not None else None
                if a is None or a.cls != "DeclRefExpr":
                    raise cdb.AnalysisBroken("Z2: free() of a non-variable in %s at %s" % (f.name, fr.loc))
                var = (a.decl["name"], a.decl["id"])
                n = mem.pointee_size(unit, a.ty)
                if not n or (unit.types.get(unit.types[a.ty].get("pointee"), {}).get("kind") not in ("struct",)):
                    if len(msizes) != 1:
                        raise cdb.AnalysisBroken("Z2: cannot determine the object size in %s (malloc sizes %s)" % (up, sorted(msizes)))
                    n = list(msizes)[0]
                _z2_site(prog, rep, f, fr, var, a.decl["kind"] == "param", n)
    rep.require_min("Z2-free", 5)


def _z2_site(prog, rep, f, fr, var, is_param, n):
    unit = f.unit
    aliases = mem.local_aliases(f, unit)

    def derives(a):
        r = root_var(norm(a))
        return r is not None and (r[1], r[2]) == var

    # state: (typestate, saved) ; typestate in clean/dirty/wiped
    def transfer(st, e):
        ts, saved = st
        if e.cls == "CallExpr":
            cal = e.callee
            if cal == WIPE and e.arg(0) is not None:
                a = e.arg(0).strip()
                if a.cls == "DeclRefExpr" and (a.decl["name"], a.decl["id"]) == var:
                    ln = e.arg(1).val
                    if ln == n:
                        return ("wiped", None)
                return st
            if cal in KEY_WRITERS and any(a is not None and derives(a) for a in e.args):
                if KEY_WRITERS[cal] is not None:
                    return ("dirty", ts)
                return ("dirty", None)
            return (ts, None) if saved is not None and cal is not None else st
        if e.cls == "DeclStmt":
            # `T * x = init;`: a local that starts as another name for an existing object starts dirty
            for d in e.decls:
                if isinstance(d, dict) and (d.get("name"), d.get("id")) == var and d.get("init"):
                    r = f.elem(d["init"]).strip()
                    if r is not None and r.cls == "CallExpr" and r.callee in ("malloc", "calloc", "crypto_aesctr_alloc"):
                        return ("clean", None)
                    return ("dirty", None)
            return st
        if e.is_assign:
            t = e.kid(0)
            # a store into the object of something read through another pointer parameter (the key handed in): key material
            lt = norm(t)
            if lt[0] != "v" and derives(t) and e.kid(1) is not None:
                pp = set(p["id"] for p in f.params if (unit.types.get(p.get("ty")) or {}).get("kind") == "ptr" and (p["name"], p["id"]) != var)
                if any(x[0] == "v" and len(x) > 2 and x[2] in pp for x in subterms(norm(e.kid(1)))):
                    return ("dirty", None)
            if t.cls == "DeclRefExpr" and (t.decl["name"], t.decl["id"]) == var:
                r = e.kid(1).strip()
                if r is not None and r.cls == "CallExpr" and r.callee in ("malloc", "calloc", "crypto_aesctr_alloc"):
                    return ("clean", None)
                return ("dirty", None)  # pointer now designates something we did not follow
        return st

    def refine(st, cond, kind):
        ts, saved = st
        if saved is not None and kind in (True, False):
            for op, L, R, _, _ in cond_atoms(cond, kind):
                if L[0] == "call" and L[1] in KEY_WRITERS and KEY_WRITERS[L[1]] is not None and R == ("c", KEY_WRITERS[L[1]]):
                    if op == "!=":
                        return (saved, None)   # writer failed: nothing was written
                    if op == "==":
                        return ("dirty", None)
        return st

    def join(a, b):
        order = {"clean": 0, "wiped": 0, "dirty": 1}
        ts = a[0] if order[a[0]] >= order[b[0]] else b[0]
        if order[a[0]] == order[b[0]] == 0 and a[0] != b[0]:
            ts = "wiped"
        return (ts, a[1] if a[1] == b[1] else None)

    init = ("dirty", None) if is_param else ("clean", None)
    s = Solver(f, init, transfer, refine, join).run()
    st = s.state_before(fr)
    inst = "free(%s), object of %d bytes" % (var[0], n)
    if st is None:
        rep.ok("Z2-free", inst, fr.where, "unreachable")
        return
    rep.check(st[0] != "dirty", "Z2-free", inst, fr.where,
              "state of *%s when freed: %s (dirty = key material written and no %d-byte insecure_memzero since)" % (var[0], st[0], n),
              function=f.name, construct="free(%s)" % var[0])


# --------------------------------------------------------------------------
# Z3: secret BIGNUMs
# --------------------------------------------------------------------------
BN_FLOW = {  # callee -> (dst arg indices, src arg indices)
    "BN_add": ([0], [1, 2]), "BN_sub": ([0], [1, 2]),
    "BN_mod_exp": ([0], [1, 2]), "BN_mod_mul": ([0], [1, 2]),
    "BN_mul": ([0], [1, 2]), "BN_copy": ([0], [1]), "BN_mod": ([0], [1]),
}


def z3(prog, rep):
    unit = prog.unit("crypto/crypto_dh.c")
    total_tainted = 0
    for f in unit.funcs:
        if f.file != unit.path:
            continue
        tainted = set()   # variable names (locals/params) holding secret bytes or secret BIGNUMs
        for p in f.params:
            if p["name"] == "priv":
                tainted.add(p["name"])
        for c in f.calls("crypto_entropy_read"):
            r = root_var(norm(c.arg(0)))
            if r:
                tainted.add(r[1])

        def vname(a):
            r = root_var(norm(a)) if a is not None else None
            return r[1] if r else None
        changed = True
        while changed:
            changed = False
            for e in f.all_elems():
                if e.is_assign:
                    r = e.kid(1).strip()
                    if r is not None and r.cls == "CallExpr" and r.callee == "BN_bin2bn":
                        if vname(r.arg(0)) in tainted:
                            t = vname(e.kid(0))
                            if t and t not in tainted:
                                tainted.add(t); changed = True
                if e.cls == "CallExpr" and e.callee in BN_FLOW:
                    dst, src = BN_FLOW[e.callee]
                    if any(vname(e.arg(i)) in tainted for i in src):
                        for i in dst:
                            t = vname(e.arg(i))
                            if t and t not in tainted:
                                tainted.add(t); changed = True
        bn_tainted = set()
        for e in f.all_elems():
            if e.cls == "DeclStmt":
                for d in e.decls or []:
                    if d["name"] in tainted and "BIGNUM" in d["ty"]:
                        bn_tainted.add(d["name"])
        total_tainted += len(bn_tainted)
        for c in f.calls(("BN_free", "BN_clear_free")):
            v = vname(c.arg(0))
            if v in bn_tainted:
                rep.check(c.callee == "BN_clear_free", "Z3-clearfree", "%s(%s)" % (c.callee, v), c.where,
                          "%s depends on the private exponent or the blinding value; it must be released with BN_clear_free" % v,
                          function=f.name, construct="BN_free(%s)" % v)
    if total_tainted < 5:
        raise cdb.AnalysisBroken("Z3: only %d secret-dependent BIGNUMs found in crypto_dh.c (5 confirmed): taint sources (parameter 'priv', crypto_entropy_read buffers) are gone" % total_tainted)
    rep.require_min("Z3-clearfree", 4)     # a clean-up ladder merged into one exit halves the count


# --------------------------------------------------------------------------
# Z4: aws_readkeys
# --------------------------------------------------------------------------
def z4(prog, rep):
    f = prog.func("aws/aws_readkeys.c", "aws_readkeys")
    unit = f.unit
    if len(f.params) < 3:
        raise cdb.AnalysisBroken("Z4: aws_readkeys has no key_secret parameter")
    sp = f.params[2]
    secret = ("*", ("v", sp["name"], sp["id"]))

    def transfer(st, e):
        if e.cls == "CallExpr":
            if e.callee == WIPE and norm(e.arg(0)) == secret:
                ln = norm(e.arg(1))
                if ln == ("call", "strlen", secret):
                    return "wiped"
                return st
            if e.callee == "free":
                return st
            # any other call receiving the secret pointer could modify it (none today)
            return st
        if e.is_assign and norm(e.kid(0)) == secret:
            r = e.kid(1).strip()
            rn = norm(e.kid(1))
            if rn == ("c", 0) or (r is not None and r.is_assign and False):
                return "null"
            if r is not None and r.cls == "CallExpr" and r.callee == "strdup":
                return "dirty"
            if r is not None and r.null:
                return "null"
            return "dirty"
        return st

    def refine(st, cond, kind):
        if kind in (True, False):
            for op, L, R, _, _ in cond_atoms(cond, kind):
                if L == secret and R == ("c", 0):
                    if op == "==":
                        return "null"
                    if op == "!=" and st == "null":
                        return None
                if L[0] == "=" and L[1] == secret and R == ("c", 0) and op == "==":
                    return "null"
        return st

    def join(a, b):
        if a == b:
            return a
        if "dirty" in (a, b):
            return "dirty"
        return "wiped" if "wiped" in (a, b) else a

    s = Solver(f, "dirty", transfer, refine, join).run()
    n = 0
    for c in f.calls("free"):
        if norm(c.arg(0)) == secret:
            n += 1
            st = s.state_before(c)
            rep.check(st in ("wiped", "null", None), "Z4-secret", "free(*%s)" % sp["name"], c.where,
                      "state of the duplicated secret when freed: %s" % st,
                      function=f.name, construct="free(*%s)" % sp["name"])
    if n == 0:
        raise cdb.AnalysisBroken("Z4: aws_readkeys no longer frees *key_secret anywhere")
    # any other heap copy of a line's value (a local that receives strdup() of it) may be the secret -- or a secret under a
    # misspelt name: it is released only wiped over its length, or where the line's name has been seen to be the key id's
    locs = {}
    for e in f.all_elems():
        if e.is_assign and e.op == "=" and e.kid(1) is not None and e.kid(1).strip() is not None and e.kid(1).strip().cls == "CallExpr" and e.kid(1).strip().callee in ("strdup", "strndup", "malloc"):
            t = norm(e.kid(0))
            if t[0] == "v" and len(t) > 2:
                locs[t[2]] = t
        elif e.cls == "DeclStmt":
            for d in e.decls or []:
                if isinstance(d, dict) and d.get("init") and norm(f.elem(d["init"]))[0] == "call" and norm(f.elem(d["init"]))[1] in ("strdup", "strndup", "malloc"):
                    locs[d["id"]] = ("v", d["name"], d["id"])
    for vid, V in locs.items():
        def tr2(st, e, V=V):
            if e.cls == "CallExpr" and e.callee == WIPE and e.arg(0) is not None and norm(e.arg(0)) == V and norm(e.arg(1)) == ("call", "strlen", V):
                return "wiped"
            if e.is_assign and norm(e.kid(0)) == V:
                return "dirty"
            return st
        s2 = Solver(f, "none", tr2, None, lambda a, b: a if a == b else "dirty").run()
        for c in f.calls("free"):
            if norm(c.arg(0)) != V:
                continue
            st = s2.state_before(c)
            isid = any(op == "==" and R == ("c", 0) and L[0] == "call" and L[1] in ("strcmp", "strncmp") and ("s", b"ACCESS_KEY_ID") in L[2:4]
                       for cond, truth in f.edge_conds(c) for op, L, R, _, _ in cond_atoms(cond, truth))
            rep.check(st in ("wiped", "none", None) or isid, "Z4-secret", "free(%s): a copy of a line's value" % V[1], c.where,
                      "this copy of a key-file line's value is released without insecure_memzero(%s, strlen(%s)) on a path on which the line's name is not known "
                      "to be ACCESS_KEY_ID: when it is the secret (given twice, or under a misspelt name) its bytes stay in the freed block" % (V[1], V[1]),
                      function=f.name, construct="free(%s)" % V[1])


# --------------------------------------------------------------------------
# Z5: the wipe is real
# --------------------------------------------------------------------------
def z5_source(prog, rep):
    unit = prog.unit("util/insecure_memzero.c")
    g = unit.global_("insecure_memzero_ptr")
    if g is None:
        raise cdb.AnalysisBroken("Z5: insecure_memzero_ptr not defined in util/insecure_memzero.c")
    rep.check("volatile" in g["ty"].split(")")[0].split("(")[-1] or "*volatile" in g["ty"].replace(" ", ""),
              "Z5-volatile-ptr", "insecure_memzero_ptr", g["loc"],
              "type '%s' must be a volatile-qualified pointer object" % g["ty"],
              function="insecure_memzero_ptr", construct="type")
    init = (g.get("init") or {}).get("ref")
    tf = unit.func(init) if init else None
    rep.check(tf is not None, "Z5-init", "insecure_memzero_ptr = %s" % init, g["loc"],
              "the pointer must be initialised to a function defined in this unit",
              function="insecure_memzero_ptr", construct="init")
    if tf is not None:
        # every store in tf goes through a volatile uint8_t lvalue indexed by the loop variable, value 0,
        # and the loop runs i = 0 .. len-1
        stores = [e for e in tf.all_elems() if e.is_assign and e.kid(0).cls in ("ArraySubscriptExpr", "UnaryOperator")]
        ok = bool(stores)
        for s in stores:
            t = unit.types.get(s.kid(0).ty, {})
            ok = ok and bool(t.get("volatile")) and t.get("size") == 1 and norm(s.kid(1)) == ("c", 0)
        conds = [b.cond for b in tf.blocks.values() if b.cond is not None]
        lenp = tf.params[1]["name"] if len(tf.params) > 1 else None
        loop_ok = False
        for c in conds:
            for op, L, R, _, _ in cond_atoms(c, True):
                if op == "<" and L[0] == "v" and R[0] == "v" and R[1] == lenp:
                    ivar = L
                    inits = [e for e in tf.all_elems() if e.is_assign and norm(e.kid(0)) == ivar and norm(e.kid(1)) == ("c", 0)]
                    incs = [e for e in tf.all_elems() if e.is_incdec and norm(e.kid(0)) == ivar and e.op in ("post++", "pre++")]
                    idx_ok = all(s.kid(0).cls == "ArraySubscriptExpr" and norm(s.kid(0).kid(1)) == ivar for s in stores)
                    loop_ok = bool(inits) and bool(incs) and idx_ok
        rep.check(ok and loop_ok, "Z5-volatile-store", tf.name, tf.loc,
                  "the zeroing loop must store 0 through a volatile byte lvalue for every index in [0, len)",
                  function=tf.name, construct="loop")
    # the inline wrapper calls through the pointer with (buf, len)
    found = 0
    for u in prog.units.values():
        w = u.func(WIPE)
        if w is None:
            continue
        calls = [c for c in w.calls()]
        good = (len(calls) == 1 and calls[0].callee is None and
                norm(calls[0].kid(0)) == ("v", "insecure_memzero_ptr", norm(calls[0].kid(0))[2] if len(norm(calls[0].kid(0))) > 2 else 0) and
                [norm(a)[1] for a in calls[0].args if norm(a)[0] == "v"] == [p["name"] for p in w.params])
        found += 1
        if not good or found == 1:
            rep.check(good, "Z5-wrapper", "insecure_memzero() in %s" % u.path, w.loc,
                      "the inline wrapper must make exactly one call, through insecure_memzero_ptr, passing (buf, len)",
                      function=WIPE, construct="call")
    if not found:
        raise cdb.AnalysisBroken("Z5: inline insecure_memzero not found")


LL_FUNCS = {  # unit -> functions whose wipes must survive -O2, with the constant lengths expected (from the source-level pass)
}


def z5_ir(prog, rep, wanted):
    """wanted: {unit: {function: [lengths or None]}} gathered from the source
    level (every insecure_memzero call in those functions)."""
    exp = cdb.exports(prog.repo)
    rules = dict(cdb.makefile_rules(prog.repo))
    outdir = os.path.join(cdb.workdir(), "ll-" + prog.config.name)
    os.makedirs(outdir, exist_ok=True)
    for up, funcs in sorted(wanted.items()):
        out = os.path.join(outdir, up.replace("/", "__") + ".ll")
        flags = [x for x in prog.config.flags_for(up, rules.get(up, []), exp) if x != "-UNDEBUG"]
        cmd = ["clang", "-O2", "-S", "-emit-llvm", "-o", out, up] + flags
        r = subprocess.run(cmd, cwd=prog.repo, capture_output=True, text=True)
        if r.returncode != 0:
            raise cdb.AnalysisBroken("clang -O2 -emit-llvm failed on %s: %s" % (up, r.stderr[-400:]))
        ll = open(out).read()
        bodies = {}
        for m in re.finditer(r"^define [^@]*@(\w+)\(.*?\{\n(.*?)^\}", ll, re.M | re.S):
            bodies[m.group(1)] = m.group(2)
        for fn, lens in sorted(funcs.items()):
            body = bodies.get(fn) or bodies.get("libcperciva_" + fn)
            if body is None:
                # inlined into its callers and dropped (static): look at callers instead is not needed for public API
                rep.unknown("Z5-O2", fn, up, "function has no out-of-line body at -O2 (static, inlined)")
                continue
            vloads = set(re.findall(r"(%\w+) = load volatile [^\n]*@insecure_memzero_ptr", body))
            got = []
            for m in re.finditer(r"call void (%\w+)\((?:i8\*|ptr)[^,]*, i64 (?:noundef )?(%?\w+)\)", body):
                if m.group(1) in vloads:
                    got.append(int(m.group(2)) if m.group(2).isdigit() else None)
            pool = list(got)
            missing = []
            for l in lens:
                if l in pool:
                    pool.remove(l)
                else:
                    missing.append(l)
            rep.check(not missing, "Z5-O2", "%s: wipes of %s bytes" % (fn, lens), up,
                      "calls through the volatile pointer in the -O2 IR: %s; missing: %s" % (got, missing),
                      function=fn, construct="O2-wipes")


def source_wipes(prog, units):
    wanted = {}
    for up in units:
        unit = prog.unit(up)
        for f in unit.funcs:
            if f.file != up or f.static:
                continue
            lens = []
            for c in f.calls(WIPE):
                lens.append(c.arg(1).val if c.arg(1) is not None else None)
            if lens:
                wanted.setdefault(up, {})[f.name] = lens
    return wanted


def run(tier):
    rep = report.Report("C20", tier,
        "Decided: (Z1) at every exit of the six *_Final functions the context parameter, and in every function of "
        "sha256.c/sha1.c/md5.c each local *_CTX object, is covered byte-for-byte by insecure_memzero calls or by callees "
        "whose computed summary wipes the sub-object, with no store into it afterwards; (Z2) every free() in crypto_aes.c, "
        "crypto_aes_aesni.c, crypto_aesctr.c is reached only with the object clean or wiped by a full-size insecure_memzero; "
        "(Z3) every BIGNUM data-dependent on the private exponent or blinding bytes is released only by BN_clear_free; "
        "(Z4) aws_readkeys wipes strlen bytes of the duplicated secret before each free; (Z5) insecure_memzero is a call "
        "through a volatile pointer to a loop of volatile byte stores, and every such call survives clang -O2 with its length. "
        "Not decided: stack copies (not returned to the allocator), OpenSSL's BN_clear_free itself.",
        trusted=["OpenSSL BN_clear_free / AES_set_encrypt_key semantics", "no aliasing of the tracked objects through other pointers"])
    configs = [cdb.HOST]
    if tier == "thorough":
        configs += [cdb.Config("nofeat", features=[]), cdb.Config("host-ndebug", extra=["-DNDEBUG"])]
    units = HASH_UNITS + AES_UNITS + ["crypto/crypto_dh.c", "aws/aws_readkeys.c", "util/insecure_memzero.c"]
    for cfg in configs:
        prog = ir.Program(units, cfg)
        rep.add_stats(prog)
        z1(prog, rep)
        # a wipe covers its object and nothing beyond it (C15's bounded-copy rule on the hash units' stack scratch)
        from . import c15 as _c15
        _c15.j3(prog, rep, units=tuple(HASH_UNITS))
        z2(prog, rep)
        z3(prog, rep)
        z4(prog, rep)
        z5_source(prog, rep)
        z5_ir(prog, rep, source_wipes(prog, HASH_UNITS + AES_UNITS + ["aws/aws_readkeys.c"]))
    return rep
