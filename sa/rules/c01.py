"""C01 — digests, HMACs, PBKDF2, CRC32C: constants and spec-fixed structure.

K1  every constant the outputs depend on equals the value derived here from the
    defining formula (cube/square roots of primes, 2^30*sqrt(2,3,5,10),
    2^32*|sin i|), not copied from the source
R   round structure read from the macro-expanded statements: for each unrolled
    round the register rotation, rotate amounts, boolean function (as a truth
    table), message index and additive constant are the specification's
K2  padding arrays are 0x80 then zeros; the length goes at offset 56 in the
    hash's byte order; the buffered-byte count is (count >> 3) & 0x3f
K3  HMAC: fill bytes 0x36 / 0x5c, key replaced by its digest exactly for
    Klen > 64, replacement length = digest size
K4  PBKDF2: block index be32enc(i + 1) from i = 0, U_1 from P,S||INT, U_j from
    P alone for j = 2..c, XOR accumulate, copy min(32, dkLen - 32 i)
K5  CRC32C: Castagnoli polynomial, the precomputed initial state equals the value
    implied by it, table/shift/byte pairing of the 4-byte and 1-byte steps
K6  stream buffer writes stay inside ctx.buf
Numerical equality with the standards for all messages is NOT decided.
"""
import math
from .. import cdb, ir, report
from ..ir import norm, show, root_var, subterms
from ..dataflow import cond_atoms

M32 = 0xffffffff


# ---- independent derivations -------------------------------------------------
def primes(n):
    out = []
    k = 2
    while len(out) < n:
        if all(k % p for p in out if p * p <= k):
            out.append(k)
        k += 1
    return out


def iroot(n, r):
    lo, hi = 0, 1
    while hi ** r <= n:
        hi *= 2
    while lo + 1 < hi:
        mid = (lo + hi) // 2
        if mid ** r <= n:
            lo = mid
        else:
            hi = mid
    return lo


SHA256_K = [iroot(p << 96, 3) & M32 for p in primes(64)]
SHA256_H = [iroot(p << 64, 2) & M32 for p in primes(8)]
SHA1_K = [iroot(x << 60, 2) & M32 for x in (2, 3, 5, 10)]
SHA1_H = [0x67452301, 0xEFCDAB89, 0x98BADCFE, 0x10325476, 0xC3D2E1F0]   # RFC 3174 section 6.1 (byte patterns 01 23 45 67 ... little-endian words)
MD5_T = [int(abs(math.sin(i + 1)) * 4294967296) & M32 for i in range(64)]
MD5_S = [7, 12, 17, 22] * 4 + [5, 9, 14, 20] * 4 + [4, 11, 16, 23] * 4 + [6, 10, 15, 21] * 4
MD5_G = [i for i in range(16)] + [(5 * i + 1) % 16 for i in range(16, 32)] + [(3 * i + 5) % 16 for i in range(32, 48)] + [(7 * i) % 16 for i in range(48, 64)]
# the initial words of MD5/SHA-1 are the byte sequence 01 23 45 67 89 ab cd ef fe dc ba 98 76 54 32 10 (f0 e1 d2 c3) read as little-endian words
_seq = bytes([0x01, 0x23, 0x45, 0x67, 0x89, 0xab, 0xcd, 0xef, 0xfe, 0xdc, 0xba, 0x98, 0x76, 0x54, 0x32, 0x10, 0xf0, 0xe1, 0xd2, 0xc3])
INIT_WORDS = [int.from_bytes(_seq[4 * i:4 * i + 4], "little") for i in range(5)]


def CH(x, y, z): return (x & y) | (~x & z)
def MAJ(x, y, z): return (x & y) | (x & z) | (y & z)
def PAR(x, y, z): return x ^ y ^ z
def MD5F(x, y, z): return (x & y) | (~x & z)
def MD5G(x, y, z): return (x & z) | (y & ~z)
def MD5I(x, y, z): return y ^ (x | ~z)


# ---- expression decomposition --------------------------------------------------
def rot(n):
    """('l'|'r', operand, amount) if n is a 32-bit rotate written with two shifts."""
    if n[0] == "|" and len(n) == 3:
        a, b = n[1], n[2]
        for x, y in ((a, b), (b, a)):
            if x[0] == "<<" and y[0] == ">>" and x[1] == y[1] and x[2][0] == "c" and y[2][0] == "c" and x[2][1] + y[2][1] == 32:
                # x << p | x >> (32-p): rotate left by p == rotate right by 32-p
                return ("l", x[1], x[2][1])
    return None


def rotl_amount(n):
    r = rot(n)
    return (r[1], r[2]) if r else None


def flatten(n, op):
    if n[0] == op and len(n) == 3:
        return flatten(n[1], op) + flatten(n[2], op)
    return [n]


def linidx(n):
    """(variable term or None, constant) of an index expression built from + of one variable and constants."""
    if n[0] == "c":
        return (None, n[1])
    if n[0] == "+" and len(n) == 3:
        a, b = linidx(n[1]), linidx(n[2])
        if a is None or b is None or (a[0] is not None and b[0] is not None):
            return None
        return (a[0] if a[0] is not None else b[0], a[1] + b[1])
    if n[0] == "v":
        return (n, 0)
    return None


def widx(n, arr):
    """(var, const) if n is arr[var + const]."""
    if n[0] == "[]" and n[1][0] == "v" and n[1][1] == arr:
        return linidx(n[2])
    return None


def elem_index(n, arr):
    """k if n is arr[k] with constant k."""
    if n[0] == "[]" and n[1][0] == "v" and n[1][1] == arr and n[2][0] == "c":
        return n[2][1]
    return None


def bool_tt(n, leaves):
    """Truth table (8 entries) of a bitwise formula over the three given leaf terms, or None."""
    def ev(x, env):
        if x in env:
            return env[x]
        if x[0] in ("&", "|", "^") and len(x) == 3:
            a, b = ev(x[1], env), ev(x[2], env)
            if a is None or b is None:
                return None
            return {"&": a & b, "|": a | b, "^": a ^ b}[x[0]]
        if x[0] == "u~":
            a = ev(x[1], env)
            return None if a is None else (~a) & 1
        return None
    tt = []
    for m in range(8):
        env = {leaves[0]: (m >> 2) & 1, leaves[1]: (m >> 1) & 1, leaves[2]: m & 1}
        v = ev(n, env)
        if v is None:
            return None
        tt.append(v & 1)
    return tuple(tt)


def spec_tt(fn):
    return tuple(fn((m >> 2) & 1, (m >> 1) & 1, m & 1) & 1 for m in range(8))


def stmts_in_order(f, pred):
    out = [e for e in f.all_elems() if pred(e)]
    out.sort(key=lambda e: (e.line, int(e.loc.rsplit(":", 1)[1]), e.block.id * -1, e.i))
    return out


# ---- SHA-1 -----------------------------------------------------------------------
def sha1(prog, rep):
    u = prog.unit("alg/sha1.c")
    f = u.func("SHA1_Transform")
    if f is None:
        raise cdb.AnalysisBroken("anchor missing: SHA1_Transform")
    if not rep.names(f, "S", "W", "state", "block", "i"):
        return
    asg = [e for e in f.all_elems() if e.is_assign and e.op == "=" and elem_index(norm(e.kid(0)), "S") is not None]
    # group per macro invocation (expansion location)
    by_loc = {}
    for e in asg:
        by_loc.setdefault(e.siteloc or e.loc, []).append(e)          # a round macro's expansion, or the call of the function it became
    rounds = sorted(by_loc.items(), key=lambda kv: (int(kv[0].split(":")[1]), int(kv[0].split(":")[2])))
    if len(rounds) != 80:
        rep.bad("R-sha1", "80 unrolled rounds", f.loc, "found %d round expansions" % len(rounds), function=f.name, construct="rounds")
        return
    bad = []
    for t, (loc, es) in enumerate(rounds):
        a, b, c, d, e_ = [(80 + k - t) % 5 for k in range(5)]
        fn, K = ((CH, SHA1_K[0]), (PAR, SHA1_K[1]), (MAJ, SHA1_K[2]), (PAR, SHA1_K[3]))[t // 20]
        S = lambda k: ("[]", norm(es[0].kid(0))[1], ("c", k))
        ok = len(es) == 2
        if ok:
            es = sorted(es, key=lambda x: x.i)
            s1, s2 = es
            terms = flatten(norm(s1.kid(1)), "+")
            want_left = {"rot": False, "f": False, "e": False, "w": False, "k": False}
            for tm in terms:
                r = rotl_amount(tm)
                if r and r == (S(a), 5):
                    want_left["rot"] = True
                elif tm == S(e_):
                    want_left["e"] = True
                elif elem_index(tm, "W") == t:
                    want_left["w"] = True
                elif tm == ("c", K):
                    want_left["k"] = True
                elif bool_tt(tm, [S(b), S(c), S(d)]) == spec_tt(fn):
                    want_left["f"] = True
                else:
                    ok = False
            ok = ok and all(want_left.values()) and len(terms) == 5 and norm(s1.kid(0)) == S(e_)
            ok = ok and norm(s2.kid(0)) == S(b) and rotl_amount(norm(s2.kid(1))) == (S(b), 30)
        if not ok:
            bad.append(t)
    rep.check(not bad, "R-sha1", "SHA-1: 80 rounds e = ROTL5(a) + f_t(b,c,d) + e + W[t] + K_t; b = ROTL30(b), registers rotating", f.loc,
              "rounds deviating from FIPS 180-4: %s" % bad[:10], function=f.name, construct="round")
    # schedule
    ws = [e for e in f.all_elems() if e.is_assign and e.op == "=" and norm(e.kid(0))[0] == "[]" and norm(e.kid(0))[1][1] == "W"]
    ok = len(ws) == 2
    if ok:
        ws.sort(key=lambda e: (e.line, e.i))
        I = norm(ws[0].kid(0))[2]
        W = lambda k: ("[]", norm(ws[0].kid(0))[1], ("-", I, ("c", k)))
        x = set(map(str, flatten(norm(ws[0].kid(1)), "^")))
        ok = x == set(map(str, [W(3), W(8), W(14), W(16)])) and rotl_amount(norm(ws[1].kid(1))) == (norm(ws[1].kid(0)), 1) and norm(ws[1].kid(0)) == norm(ws[0].kid(0))
        conds = [(op, L, R) for cond, truth in f.edge_conds(ws[0]) for op, L, R, _, _ in cond_atoms(cond, truth)]
        ok = ok and any(op == "<" and L == I and R == ("c", 80) for op, L, R in conds)
        init = [e for e in f.all_elems() if e.is_assign and norm(e.kid(0)) == I and norm(e.kid(1)) == ("c", 16)]
        ok = ok and bool(init)
    rep.check(ok, "R-sha1", "SHA-1 schedule: W[t] = ROTL1(W[t-3]^W[t-8]^W[t-14]^W[t-16]) for t = 16..79", f.loc, "", function=f.name, construct="schedule")
    common_transform_frame(rep, f, "be32dec_vect", 5, 20)
    ini = u.func("SHA1_Init")
    st = {elem_index(("[]", ("v", "state"), norm(e.kid(0))[2]), "state"): norm(e.kid(1)) for e in ini.all_elems() if e.is_assign and norm(e.kid(0))[0] == "[]" and norm(e.kid(0))[1][0] == "." and norm(e.kid(0))[1][2] == "state"}
    rep.check(st == {i: ("c", INIT_WORDS[i]) for i in range(5)}, "K1-const", "SHA-1 initial state", ini.loc, "%s" % {k: hex(v[1]) if v[0] == "c" else v for k, v in st.items()}, function="SHA1_Init", construct="iv")


def common_transform_frame(rep, f, decoder, nwords, nbytes):
    """W decoded from the block with the right endianness; S copied from state; state[i] += S[i] for all i."""
    dec = list(f.calls(decoder))
    ok = len(dec) == 1 and show(norm(dec[0].arg(0))) == "W" and show(norm(dec[0].arg(1))) == "block" and norm(dec[0].arg(2)) == ("c", 64)
    cp = [c for c in f.calls("memcpy") if show(norm(c.arg(0))) == "S" and show(norm(c.arg(1))) == "state" and norm(c.arg(2)) == ("c", nbytes)]
    fin = [e for e in f.all_elems() if e.is_assign and e.op == "+=" and norm(e.kid(0))[0] == "[]" and show(norm(e.kid(0))[1]) == "state"]
    okf = len(fin) == 1 and norm(fin[0].kid(1)) == ("[]", ("v", "S", norm(fin[0].kid(1))[1][2]), norm(fin[0].kid(0))[2]) if fin and norm(fin[0].kid(1))[0] == "[]" else False
    whyf = ""
    if okf:
        # every word 0 .. nwords - 1 once, whichever way the loop counts (covers_range)
        sub = fin[0].kid(0).strip()
        rets = [b.elems[0] for b in f.blocks.values() if b.elems and b.id in f.reach_from(fin[0].block.id) and fin[0].block.id not in f.reach_from(b.id)]
        okf, whyf = covers_range(f, fin[0], sub.kid(1), nwords, rets[0] if rets else fin[0]) if sub is not None and sub.cls == "ArraySubscriptExpr" else (False, "")
    rep.check(ok and len(cp) == 1 and okf, "R-frame", "%s: decode 64 bytes with %s, copy state in, add the working variables back for all %d words" % (f.name, decoder, nwords), f.loc, whyf, function=f.name, construct="frame")


# ---- MD5 ---------------------------------------------------------------------------
def md5(prog, rep):
    u = prog.unit("alg/md5.c")
    f = u.func("MD5_Transform")
    if f is None:
        raise cdb.AnalysisBroken("anchor missing: MD5_Transform")
    if not rep.names(f, "S", "W", "state", "block", "i"):
        return
    asg = stmts_in_order(f, lambda e: e.is_assign and e.op == "=" and elem_index(norm(e.kid(0)), "S") is not None)
    if len(asg) != 64:
        rep.bad("R-md5", "64 unrolled steps", f.loc, "found %d" % len(asg), function=f.name, construct="rounds")
        return
    bad = []
    for t, e in enumerate(asg):
        a, b, c, d = [(64 + k - t) % 4 for k in range(4)]
        fn = (MD5F, MD5G, PAR, MD5I)[t // 16]
        Sv = norm(e.kid(0))[1]
        S = lambda k: ("[]", Sv, ("c", k))
        ok = norm(e.kid(0)) == S(a)
        terms = flatten(norm(e.kid(1)), "+")
        ok = ok and len(terms) == 2
        if ok:
            rt = [rotl_amount(x) for x in terms]
            other = [x for x, r in zip(terms, rt) if r is None]
            rr = [r for r in rt if r is not None]
            ok = other == [S(b)] and len(rr) == 1 and rr[0][1] == MD5_S[t]
            if ok:
                inner = flatten(rr[0][0], "+")
                seen = {"a": False, "f": False, "w": False, "t": False}
                for tm in inner:
                    if tm == S(a):
                        seen["a"] = True
                    elif elem_index(tm, "W") == MD5_G[t]:
                        seen["w"] = True
                    elif tm == ("c", MD5_T[t]):
                        seen["t"] = True
                    elif bool_tt(tm, [S(b), S(c), S(d)]) == spec_tt(fn):
                        seen["f"] = True
                    else:
                        ok = False
                ok = ok and all(seen.values()) and len(inner) == 4
        if not ok:
            bad.append(t)
    rep.check(not bad, "R-md5", "MD5: 64 steps a = b + ROTL_s(a + f(b,c,d) + X[g] + T_i) with RFC 1321's s, g, T and functions", f.loc,
              "steps deviating from RFC 1321: %s" % bad[:10], function=f.name, construct="round")
    common_transform_frame(rep, f, "le32dec_vect", 4, 16)
    ini = u.func("MD5_Init")
    st = {norm(e.kid(0))[2][1]: norm(e.kid(1)) for e in ini.all_elems() if e.is_assign and norm(e.kid(0))[0] == "[]" and norm(e.kid(0))[1][0] == "." and norm(e.kid(0))[1][2] == "state" and norm(e.kid(0))[2][0] == "c"}
    rep.check(st == {i: ("c", INIT_WORDS[i]) for i in range(4)}, "K1-const", "MD5 initial state", ini.loc, "", function="MD5_Init", construct="iv")


# ---- SHA-256 -------------------------------------------------------------------------
def sigma(n):
    """Frozenset of ('r', amount-right) / ('s', amount) for an xor of rotates/shifts of one operand; returns (operand, set)."""
    parts = flatten(n, "^")
    ops = set()
    operand = None
    for p in parts:
        r = rot(p)
        if r:
            x, kind = r[1], ("r", 32 - r[2])
        elif p[0] == ">>" and p[2][0] == "c":
            x, kind = p[1], ("s", p[2][1])
        else:
            return None
        if operand is None:
            operand = x
        elif operand != x:
            return None
        ops.add(kind)
    return operand, frozenset(ops)


BIG0 = frozenset([("r", 2), ("r", 13), ("r", 22)])
BIG1 = frozenset([("r", 6), ("r", 11), ("r", 25)])
SM0 = frozenset([("r", 7), ("r", 18), ("s", 3)])
SM1 = frozenset([("r", 17), ("r", 19), ("s", 10)])


def sha256(prog, rep, unit="alg/sha256.c", fname="SHA256_Transform", full=True):
    """full=False: only the round constants and the sixty-four rounds of `fname` in `unit` (a sibling implementation that computes
    its schedule differently, e.g. alg/sha256_sse2.c)."""
    u = prog.unit(unit)
    k = u.global_ints("Krnd")
    rep.check(k == SHA256_K, "K1-const", "SHA-256 Krnd[64] = frac(cbrt(prime_i)) * 2^32 (%s)" % unit, (u.global_("Krnd") or {}).get("loc", ""),
              "first difference at %s" % next((i for i in range(64) if not k or i >= len(k) or k[i] != SHA256_K[i]), None), function="Krnd", construct="table")
    if full:
        h = u.global_ints("initial_state")
        rep.check(h == SHA256_H, "K1-const", "SHA-256 initial_state[8] = frac(sqrt(prime_i)) * 2^32", (u.global_("initial_state") or {}).get("loc", ""), "", function="initial_state", construct="table")
    f = u.func(fname)
    if f is None:
        raise cdb.AnalysisBroken("anchor missing: %s" % fname)
    if not rep.names(f, "S", "W", "state", "block", "i"):
        return
    sa = [e for e in f.all_elems() if e.is_assign and e.op == "+=" and elem_index(norm(e.kid(0)), "S") is not None]
    by_loc = {}
    for e in sa:
        by_loc.setdefault(e.loc, []).append(e)
    rounds = sorted(by_loc.items(), key=lambda kv: (int(kv[0].split(":")[1]), int(kv[0].split(":")[2])))
    if len(rounds) != 16:
        rep.bad("R-sha256", "16 unrolled rounds per loop iteration", f.loc, "found %d" % len(rounds), function=f.name, construct="rounds")
        return
    bad = []
    loopvar = None
    for kk, (loc, es) in enumerate(rounds):
        es = sorted(es, key=lambda x: x.i)
        a, b, c, d, e_, f_, g, hh = [(64 + j - kk) % 8 for j in range(8)]
        Sv = norm(es[0].kid(0))[1]
        S = lambda j: ("[]", Sv, ("c", j))
        ok = len(es) == 3
        if ok:
            s1, s2, s3 = es
            t1 = flatten(norm(s1.kid(1)), "+")
            seen = {"S1": False, "ch": False, "w": False, "k": False}
            for tm in t1:
                sg = sigma(tm)
                if sg and sg == (S(e_), BIG1):
                    seen["S1"] = True
                elif bool_tt(tm, [S(e_), S(f_), S(g)]) == spec_tt(CH):
                    seen["ch"] = True
                elif (widx(tm, "W") or widx(tm, "Krnd")) is not None and (widx(tm, "W") or widx(tm, "Krnd"))[1] == kk and (widx(tm, "W") or widx(tm, "Krnd"))[0] is not None:
                    loopvar = (widx(tm, "W") or widx(tm, "Krnd"))[0]
                    seen["w" if tm[1][1] == "W" else "k"] = True
                else:
                    ok = False
            ok = ok and all(seen.values()) and len(t1) == 4 and norm(s1.kid(0)) == S(hh)
            ok = ok and norm(s2.kid(0)) == S(d) and norm(s2.kid(1)) == S(hh)
            t3 = flatten(norm(s3.kid(1)), "+")
            seen3 = {"S0": False, "maj": False}
            for tm in t3:
                sg = sigma(tm)
                if sg and sg == (S(a), BIG0):
                    seen3["S0"] = True
                elif bool_tt(tm, [S(a), S(b), S(c)]) == spec_tt(MAJ):
                    seen3["maj"] = True
                else:
                    ok = False
            ok = ok and all(seen3.values()) and len(t3) == 2 and norm(s3.kid(0)) == S(hh)
        if not ok:
            bad.append(kk)
    rep.check(not bad, "R-sha256", "SHA-256: each round h += S1(e)+Ch(e,f,g)+W[t]+K[t]; d += h; h += S0(a)+Maj(a,b,c), registers rotating", f.loc,
              "round instances deviating from FIPS 180-4: %s" % bad, function=f.name, construct="round")
    if not full:
        if loopvar is not None:
            ini = [e for e in f.all_elems() if e.is_assign and e.op == "=" and norm(e.kid(0)) == loopvar and norm(e.kid(1)) == ("c", 0)]
            stp = [e for e in f.all_elems() if e.is_assign and e.op == "+=" and norm(e.kid(0)) == loopvar and norm(e.kid(1)) == ("c", 16)]
            lim = any(op == "<" and L == loopvar and R == ("c", 64) for cond, truth in f.edge_conds(rounds[0][1][0]) for op, L, R, _, _ in cond_atoms(cond, truth))
            rep.check(bool(ini) and bool(stp) and lim, "R-sha256", "SHA-256 (%s): four groups of 16 rounds (t = 0..63)" % fname, f.loc, "", function=f.name, construct="loop")
        # working variables start as the state and are added back into it
        cp = [c for c in f.calls("memcpy") if norm(c.arg(2)) == ("c", 32) and norm(c.arg(0))[0] == "v" and norm(c.arg(0))[1] == "S" and norm(c.arg(1))[0] == "v" and norm(c.arg(1))[1] == "state"]
        back = [e for e in f.all_elems() if e.is_assign and e.op == "+=" and norm(e.kid(0))[0] == "[]" and norm(e.kid(1))[0] == "[]" and norm(e.kid(0))[1][0] == "v" and
                norm(e.kid(0))[1][1] == "state" and norm(e.kid(1))[1][0] == "v" and norm(e.kid(1))[1][1] == "S" and norm(e.kid(0))[2] == norm(e.kid(1))[2]]
        bounds = [(op, R) for b in back for cond, truth in f.edge_conds(b) for op, L, R, _, _ in cond_atoms(cond, truth) if L == norm(b.kid(0))[2]]
        rep.check(len(cp) == 1 and len(back) == 1 and ("<", ("c", 8)) in bounds, "R-sha256", "SHA-256 (%s): S = state before the rounds, state[i] += S[i] after them" % fname, f.loc,
                  "copies of 32 bytes state -> S: %d, feed-forward additions: %d" % (len(cp), len(back)), function=f.name, construct="frame")
        return
    # schedule
    ws = stmts_in_order(f, lambda e: e.is_assign and e.op == "=" and norm(e.kid(0))[0] == "[]" and norm(e.kid(0))[1][0] == "v" and norm(e.kid(0))[1][1] == "W")
    bad = []
    if len(ws) != 16:
        bad = ["count %d" % len(ws)]
    else:
        for kk, e in enumerate(ws):
            def isW(n, off):
                w = widx(n, "W")
                return w is not None and w == (loopvar, kk + off)
            ok = isW(norm(e.kid(0)), 16)
            terms = flatten(norm(e.kid(1)), "+")
            seen = {"s1": False, "w9": False, "s0": False, "w0": False}
            for tm in terms:
                sg = sigma(tm)
                if sg and isW(sg[0], 14) and sg[1] == SM1:
                    seen["s1"] = True
                elif sg and isW(sg[0], 1) and sg[1] == SM0:
                    seen["s0"] = True
                elif isW(tm, 9):
                    seen["w9"] = True
                elif isW(tm, 0):
                    seen["w0"] = True
                else:
                    ok = False
            if not (ok and all(seen.values()) and len(terms) == 4):
                bad.append(kk)
    rep.check(not bad, "R-sha256", "SHA-256 schedule: W[t+16] = s1(W[t+14]) + W[t+9] + s0(W[t+1]) + W[t]", f.loc, "%s" % bad, function=f.name, construct="schedule")
    # loop: i = 0, 16, 32, 48; the schedule is skipped after the last group
    if loopvar is not None:
        ini = [e for e in f.all_elems() if e.is_assign and e.op == "=" and norm(e.kid(0)) == loopvar and norm(e.kid(1)) == ("c", 0)]
        stp = [e for e in f.all_elems() if e.is_assign and e.op == "+=" and norm(e.kid(0)) == loopvar and norm(e.kid(1)) == ("c", 16)]
        lim = any(op == "<" and L == loopvar and R == ("c", 64) for cond, truth in f.edge_conds(rounds[0][1][0]) for op, L, R, _, _ in cond_atoms(cond, truth))
        brk = any(op == "!=" and L == loopvar and R == ("c", 48) for cond, truth in f.edge_conds(ws[0]) for op, L, R, _, _ in cond_atoms(cond, truth)) if ws else False
        rep.check(bool(ini) and bool(stp) and lim and brk, "R-sha256", "SHA-256: four groups of 16 rounds (t = 0..63), schedule extended between groups", f.loc, "", function=f.name, construct="loop")
    common_transform_frame(rep, f, "be32dec_vect", 8, 32)
    ini = u.func("SHA256_Init")
    cp = [c for c in ini.calls("memcpy") if show(norm(c.arg(1))) == "initial_state" and norm(c.arg(2)) == ("c", 32)]
    z = [e for e in ini.all_elems() if e.is_assign and norm(e.kid(0))[0] == "." and norm(e.kid(0))[2] == "count" and norm(e.kid(1)) == ("c", 0)]
    rep.check(len(cp) == 1 and len(z) == 1, "K1-const", "SHA256_Init: count = 0, state = initial_state", ini.loc, "", function="SHA256_Init", construct="init")


# ---- padding, HMAC, PBKDF2 -------------------------------------------------------------
def covers_range(f, stmt, idx_elem, n_term, after, _shift=0):
    """The statement `stmt`, executed in a loop with index expression `idx_elem`, runs once for every index 0 .. N-1 and for no
    other (N = `n_term`, a term or an int), in either direction: the index is v + c for a variable v written only by one
    initialisation before the loop and one step by one inside it; where the statement runs 0 <= index <= N - 1 (sa/poly.py); the
    first index is 0 (stepping up) or N - 1 (stepping down); and where `after` (an element past the loop) runs, the index has left
    the range at the far end.  Returns (ok, why)."""
    from .. import poly
    from ..poly import Lin
    if idx_elem is None:
        # no index used in the statement: the loop's counter itself, read as 0 .. N-1 or as N .. 1
        after_stmt = f.reach_from(stmt.block.id)
        loop0 = set(b for b in after_stmt if stmt.block.id in f.reach_from(b)) | ({stmt.block.id} if stmt.block.id in after_stmt else set())
        cands = [e for e in f.all_elems() if ir.step(e) is not None and ir.step(e)[2] == ("c", 1) and e.block.id in loop0 and ir.step(e)[1][0] == "v"]
        last_why = "no counter stepped by one in the loop"
        for e in cands:
            for shift in (0, -1):
                okc, last_why = covers_range(f, stmt, e.kid(0), n_term, after, _shift=shift)
                if okc:
                    return True, ""
        return False, last_why
    I = norm(idx_elem)
    vs = set(x for x in subterms(I) if isinstance(x, tuple) and len(x) > 2 and x[0] == "v")
    v = list(vs)[0] if len(vs) == 1 else None
    if v is None or len(v) < 3:
        return False, "the index %s is not a variable plus a constant" % show(I)
    writes = [e for e in f.all_elems() if (e.is_assign or e.is_incdec) and norm(e.kid(0)) == v]
    after_stmt = f.reach_from(stmt.block.id)
    loop = set(b for b in after_stmt if stmt.block.id in f.reach_from(b)) | ({stmt.block.id} if stmt.block.id in after_stmt else set())
    if not loop:
        return False, "the statement is not in a loop"
    inits = [e for e in writes if e.is_assign and e.op == "=" and f.dominates(e, stmt) and e.block.id not in loop]
    # the initialisation that reaches the loop: the one the others dominate
    inits = [e for e in inits if all(o is e or f.dominates(o, e) for o in inits)]
    steps = [e for e in writes if ir.step(e) is not None and ir.step(e)[2] == ("c", 1) and e.block.id in loop]
    others = [e for e in writes if e not in steps and e.block.id in loop]
    if len(inits) != 1 or len(steps) != 1 or others:
        return False, "the index variable %s is not written by exactly one initialisation before the loop and one step of one inside it" % v[1]
    up = ir.step(steps[0])[0] == "+="
    A = poly.Analysis(f, quiet=set(c.callee for c in f.calls() if c.callee)).run()
    N = Lin.const(n_term) if isinstance(n_term, int) else None
    st = A.state_before(stmt)
    if st is None:
        return False, "the statement is unreachable"
    if N is None:
        nn = [e for e in f.all_elems() if norm(e) == n_term and (e.cls in ("DeclRefExpr", "MemberExpr", "ImplicitCastExpr"))]
        N = A.lin(nn[0], st) if nn else None
        if N is None:
            N = Lin.var(n_term)
    ix = A.lin(idx_elem, st)
    if ix is None:
        return False, "the index is not a linear quantity the analysis follows"
    ix = ix + Lin.const(_shift)
    if not (A.holds(st, ">=", ix, Lin.const(0)) and A.holds(st, "<=", ix, N - Lin.const(1))):
        return False, "where the statement runs the index %s is not shown to lie in 0 .. N - 1" % show(I)
    off = ix - Lin.var(v)            # the constant c of index = v + c
    if not off.is_const():
        return False, "the index is not the loop variable plus a constant"
    s0 = A.state_before(inits[0])
    first = A.lin(inits[0].kid(1), s0) if s0 is not None else None
    if first is None:
        return False, "the first value of %s is not followed" % v[1]
    first = first + off
    if not A.holds(s0, "==", first, Lin.const(0) if up else N - Lin.const(1)):
        return False, "the first index is not %s" % ("0" if up else "N - 1")
    # where the loop is left (every block outside it that a block inside it leads to) the index is beyond the far end
    last = Lin.var(v) + off
    for lb in loop:
        for sx in f.blocks[lb].succs:
            if sx is None or sx in loop or f.blocks[sx].noreturn:
                continue
            sa = A.solver.IN.get(sx)
            if sa is None:
                continue
            # the state on entry to the exit block joins every way in; all of them come from this loop unless the block has
            # other predecessors, in which case the claim is made only for what the loop contributes: refine by the loop's own edge
            if not A.holds(sa, ">=" if up else "<=", last, N if up else Lin.const(-1)):
                if all(p_ in loop for p_ in f.blocks[sx].preds):
                    return False, "the loop can end before the index has reached the %s end of the range" % ("upper" if up else "lower")
    return True, ""


def k2_k3_k6(prog, rep, only=None):
    for up, pref, dlen, enc in (("alg/sha256.c", "SHA256", 32, "be64enc"), ("alg/sha1.c", "SHA1", 20, "be32enc_vect"), ("alg/md5.c", "MD5", 16, "le32enc_vect")):
        if only is not None and pref not in only:
            continue
        u = prog.unit(up)
        pad = u.global_ints("PAD")
        rep.check(pad == [0x80] + [0] * 63, "K2-pad", "%s PAD[64] = 0x80, 0, ..." % pref, (u.global_("PAD") or {}).get("loc", ""), "", function="PAD", construct="table")
        p = u.func(pref + "_Pad")
        rr = [e for e in p.all_elems() if e.is_assign and e.op == "=" and norm(e.kid(0))[0] == "v" and norm(e.kid(0))[1] == "r"]
        ok = len(rr) == 1 and norm(rr[0].kid(1))[0] == "&" and norm(rr[0].kid(1))[2] == ("c", 0x3f) and norm(rr[0].kid(1))[1][0] == ">>" and norm(rr[0].kid(1))[1][2] == ("c", 3)
        rep.check(ok, "K2-pad", "%s_Pad: buffered bytes r = (bit count >> 3) & 0x3f" % pref, p.loc, "", function=p.name, construct="r")
        if pref == "SHA256":
            m = sorted([c for c in p.calls("memcpy")], key=lambda c: c.line)
            lens = [show(norm(c.arg(2))) for c in m]
            be = list(p.calls(enc))
            # the two fills by what they copy, not by where they stand: 56 - r bytes where r < 56, 64 - r bytes where r >= 56
            okp = sorted(lens) == ["(56 - r)", "(64 - r)"] and len(be) == 1 and show(norm(be[0].arg(0))) == "&ctx->buf[56]" and show(norm(be[0].arg(1))) == "ctx->count"
            m56 = [c for c in m if show(norm(c.arg(2))) == "(56 - r)"]
            m64 = [c for c in m if show(norm(c.arg(2))) == "(64 - r)"]

            def under(c, ops):
                return any((op, R) in ops and show(L) == "r" for cond, truth in p.edge_conds(c) for op, L, R, _, _ in cond_atoms(cond, truth))
            g = bool(m56) and bool(m64) and under(m56[0], {("<", ("c", 56)), ("<=", ("c", 55))}) and under(m64[0], {(">=", ("c", 56)), (">", ("c", 55))})
            ms = [c for c in p.calls("memset") if norm(c.arg(1)) == ("c", 0) and norm(c.arg(2)) == ("c", 56)]
            tr = list(p.calls("SHA256_Transform"))
            rep.check(okp and g and len(ms) == 1 and len(tr) == 2, "K2-pad", "SHA256_Pad: pad to 56 mod 64 (one extra block when r >= 56), big-endian bit count at offset 56", p.loc, "%s" % lens, function=p.name, construct="pad")
        else:
            pl = [e for e in p.all_elems() if e.is_assign and norm(e.kid(0))[0] == "v" and norm(e.kid(0))[1] == "plen"]
            v = norm(pl[0].kid(1)) if pl else None
            lt56 = v is not None and v[0] == "?:" and ((v[1][0] == "<" and v[1][2] == ("c", 56)) or (v[1][0] == "<=" and v[1][2] == ("c", 55)))
            ge56 = v is not None and v[0] == "?:" and ((v[1][0] == ">=" and v[1][2] == ("c", 56)) or (v[1][0] == ">" and v[1][2] == ("c", 55)))
            okp = (lt56 and show(v[2]) == "(56 - r)" and show(v[3]) == "(120 - r)") or (ge56 and show(v[2]) == "(120 - r)" and show(v[3]) == "(56 - r)")
            ups = sorted(p.calls(pref + "_Update"), key=lambda c: c.line)
            okp = okp and len(ups) == 2 and show(norm(ups[0].arg(1))) == "PAD" and show(norm(ups[0].arg(2))) == "plen" and show(norm(ups[1].arg(1))) == "len" and norm(ups[1].arg(2)) == ("c", 8)
            e0 = list(p.calls(enc))
            okp = okp and len(e0) == 1 and show(norm(e0[0].arg(0))) == "len" and show(norm(e0[0].arg(1))) == "ctx->count" and norm(e0[0].arg(2)) == ("c", 8) and p.dominates(e0[0], ups[0])
            rep.check(okp, "K2-pad", "%s_Pad: length captured first, pad 56-r / 120-r bytes, then the 8 length bytes (%s)" % (pref, enc), p.loc, "", function=p.name, construct="pad")
        # K6: buffer writes in Update
        upd = u.func(pref + "_Update_internal") or u.func(pref + "_Update")
        n = 0
        for c in upd.calls("memcpy"):
            d = norm(c.arg(0))
            inbuf = any(t[0] == "." and t[2] == "buf" for t in subterms(d))
            if not inbuf:
                continue
            n += 1
            ln = show(norm(c.arg(2)))
            conds = [(op, show(L), show(R)) for cond, truth in upd.edge_conds(c) for op, L, R, _, _ in cond_atoms(cond, truth)]
            if show(d) == "&ctx->buf[r]":
                ok = (ln == "(64 - r)") or (ln == "len" and ("<", "len", "(64 - r)") in conds)
            elif show(d) == "ctx->buf":
                ok = ln == "len" and ("<", "len", "64") in conds
            else:
                ok = False
            rep.check(ok, "K6-bounds", "%s: memcpy(%s, src, %s)" % (upd.name, show(d), ln), c.where,
                      "writes into the 64-byte block buffer must be bounded: at offset r by 64 - r (or len < 64 - r), at offset 0 by len < 64", function=upd.name, construct="bufwrite:" + ln)
        rr = [e for e in upd.all_elems() if e.is_assign and e.op == "=" and norm(e.kid(0))[0] == "v" and norm(e.kid(0))[1] == "r"]
        ok = len(rr) == 1 and norm(rr[0].kid(1))[0] == "&" and norm(rr[0].kid(1))[2] == ("c", 0x3f)
        rep.check(ok and n == 3, "K6-bounds", "%s: r is masked to 0..63 and the three buffer writes are present" % upd.name, upd.loc, "writes %d" % n, function=upd.name, construct="r-mask")
        # full blocks: Transform on src for len >= 64, advancing 64
        tr = [c for c in upd.calls(pref + "_Transform") if show(norm(c.arg(1))) == "src"]
        okb = len(tr) == 1 and any(op == ">=" and show(L) == "len" and R == ("c", 64) for cond, truth in upd.edge_conds(tr[0]) for op, L, R, _, _ in cond_atoms(cond, truth))
        adv = sorted((show(norm(e.kid(0))), e.op, show(norm(e.kid(1)))) for e in upd.all_elems() if e.is_assign and e.op in ("+=", "-=") and norm(e.kid(0))[0] == "v")
        okb = okb and ("len", "-=", "64") in adv and ("src", "+=", "64") in adv and ("len", "-=", "(64 - r)") in adv and ("src", "+=", "(64 - r)") in adv
        rep.check(okb, "K6-bounds", "%s: whole blocks are consumed 64 bytes at a time, source and length advancing together" % upd.name, upd.loc, "%s" % adv, function=upd.name, construct="blocks")
        # K3 HMAC
        hi = u.func("HMAC_%s_Init_internal" % pref) or u.func("HMAC_%s_Init" % pref)
        ms = sorted([c for c in hi.calls("memset")], key=lambda c: c.line)
        fills = [norm(c.arg(1)) for c in ms]
        sizes = [norm(c.arg(2)) for c in ms]
        inits = sorted([c for c in hi.calls(pref + "_Init")], key=lambda c: c.line)
        okh = fills == [("c", 0x36), ("c", 0x5c)] and sizes == [("c", 64), ("c", 64)]
        # first fill feeds the inner context, second the outer
        upds = sorted([c for c in hi.calls() if c.callee in (pref + "_Update", pref + "_Update_internal") and show(norm(c.arg(1))) == "pad"], key=lambda c: c.line)
        okh = okh and len(upds) == 2 and show(norm(upds[0].arg(0))) == "&ctx->ictx" and show(norm(upds[1].arg(0))) == "&ctx->octx" and norm(upds[0].arg(2)) == ("c", 64) and norm(upds[1].arg(2)) == ("c", 64)
        okh = okh and hi.dominates(ms[0], upds[0]) and hi.dominates(upds[0], ms[1]) and hi.dominates(ms[1], upds[1]) if okh else False
        # exactly the key's bytes are XORed in: each `pad[x] ^= K[x]` runs once for every x in 0 .. Klen - 1, whichever way the loop
        # counts (relational: covers_range)
        xors = [e for e in hi.all_elems() if e.is_assign and e.op == "^=" and norm(e.kid(0))[0] == "[]" and show(norm(e.kid(0))[1]) == "pad" and
                norm(e.kid(1))[0] == "[]" and show(norm(e.kid(1))[1]) == "K"]
        okh = okh and len(xors) == 2
        KLEN = [("v", p["name"], p["id"]) for p in hi.params if p["name"] == "Klen"]
        for x in xors:
            same = norm(x.kid(0))[2] == norm(x.kid(1))[2]
            sub = x.kid(0).strip()
            # the first absorption of the pad that comes after this XOR's loop
            aft = [c_ for c_ in upds if c_.block.id in hi.reach_from(x.block.id) and x.block.id not in hi.reach_from(c_.block.id)]
            okx, whyx = (False, "the pad byte and the key byte have different indices")
            if same and sub is not None and sub.cls == "ArraySubscriptExpr" and KLEN:
                okx, whyx = covers_range(hi, x, sub.kid(1), KLEN[0], aft[0] if aft else x)
            rep.check(okx, "K3-hmac", "HMAC-%s: the pad is XORed with exactly the Klen bytes of the key" % pref, x.where,
                      whyx + " (one byte more reads past the key and changes the pad whenever that byte is not zero)" if not okx else "",
                      function=hi.name, construct="pad-xor-range")
        # each context is initialised before its pad is absorbed
        for cx, up_ in zip(("&ctx->ictx", "&ctx->octx"), upds[:2]):
            ini = [c for c in inits if show(norm(c.arg(0))) == cx]
            rep.check(any(hi.dominates(c, up_) and not any(hi.dominates(c, f2) and hi.dominates(f2, up_) for f2 in hi.calls() if f2.callee and f2.callee.startswith(pref + "_Final") and show(norm(f2.arg(1))) == cx) for c in ini),
                      "K3-hmac", "HMAC-%s: %s is initialised before its pad is absorbed" % (pref, cx), up_.where,
                      "no %s_Init(%s) dominates this update (without a finalisation in between): the pad is absorbed into whatever the caller's object held" % (pref, cx),
                      function=hi.name, construct="ctx-init:" + cx)
        rep.check(okh, "K3-hmac", "HMAC-%s: ipad 0x36 into the inner context, opad 0x5c into the outer, both XORed with the key" % pref, hi.loc, "fills %s" % fills, function=hi.name, construct="pads")
        thr = [(op, show(L), R) for b in hi.blocks.values() if b.cond is not None and b.term_cls == "IfStmt" for op, L, R, _, _ in cond_atoms(b.cond, True) if show(L) == "Klen"]
        kl = [e for e in hi.all_elems() if e.is_assign and show(norm(e.kid(0))) == "Klen"]
        kk = [e for e in hi.all_elems() if e.is_assign and show(norm(e.kid(0))) == "K" and show(norm(e.kid(1))) == "khash"]
        okt = (">", "Klen", ("c", 64)) in thr and len(kl) == 1 and norm(kl[0].kid(1)) == ("c", dlen) and len(kk) == 1
        rep.check(okt, "K3-hmac", "HMAC-%s: a key longer than 64 bytes is replaced by its %d-byte digest" % (pref, dlen), hi.loc, "%s" % thr, function=hi.name, construct="longkey")
        hf = u.func("HMAC_%s_Final_internal" % pref) or u.func("HMAC_%s_Final" % pref)
        sq = [(c.callee.replace("_internal", ""), show(norm(c.arg(0))), show(norm(c.arg(1)))) for c in sorted(hf.calls(), key=lambda c: c.line) if c.callee and c.callee.startswith(pref)]
        want = [(pref + "_Final", "ihash", "&ctx->ictx"), (pref + "_Update", "&ctx->octx", "ihash"), (pref + "_Final", "digest", "&ctx->octx")]
        rep.check(sq == want, "K3-hmac", "HMAC-%s Final: inner digest fed to the outer context, outer digest is the result" % pref, hf.loc, "%s" % sq, function=hf.name, construct="final")
        hfu = [c for c in hf.calls() if c.callee in (pref + "_Update", pref + "_Update_internal")]
        rep.check(len(hfu) == 1 and norm(hfu[0].arg(2)) == ("c", dlen), "K3-hmac", "HMAC-%s Final feeds %d inner-digest bytes" % (pref, dlen), hf.loc, "", function=hf.name, construct="final-len")


def k4(prog, rep):
    u = prog.unit("alg/sha256.c")
    f = u.func("PBKDF2_SHA256")
    if f is None:
        raise cdb.AnalysisBroken("anchor missing: PBKDF2_SHA256")
    if not rep.names(f, "i", "j", "k", "ivec", "U", "T", "clen", "Phctx", "PShctx", "hctx", "dkLen", "buf", "c"):
        return
    be = list(f.calls("be32enc"))
    ok = len(be) == 1 and show(norm(be[0].arg(0))) == "ivec" and show(norm(be[0].arg(1))) == "(i + 1)"
    i0 = [e for e in f.all_elems() if e.is_assign and e.op == "=" and show(norm(e.kid(0))) == "i" and norm(e.kid(1)) == ("c", 0)]
    lim = any(op == "<" and show(L) == "(i << 5)" and show(R) == "dkLen" for cond, truth in f.edge_conds(be[0]) for op, L, R, _, _ in cond_atoms(cond, truth)) if be else False
    rep.check(ok and bool(i0) and lim, "K4-pbkdf2", "block index INT(i+1), big-endian 4 bytes, i from 0 while 32*i < dkLen", f.loc, "", function=f.name, construct="index")
    calls = [(c.callee.replace("_internal", ""),) + tuple(show(norm(a)) for a in c.args[:3]) for c in sorted(f.calls(), key=lambda c: (c.line, c.i))
             if c.callee and (c.callee.startswith("HMAC_SHA256") or c.callee == "memcpy")]
    want = [("HMAC_SHA256_Init", "&Phctx", "passwd", "passwdlen"), ("memcpy", "&PShctx", "&Phctx", "208"), ("HMAC_SHA256_Update", "&PShctx", "salt", "saltlen"),
            ("memcpy", "&hctx", "&PShctx", "208"), ("HMAC_SHA256_Update", "&hctx", "ivec", "4"), ("HMAC_SHA256_Final", "U", "&hctx", "tmp32"), ("memcpy", "T", "U", "32"),
            ("memcpy", "&hctx", "&Phctx", "208"), ("HMAC_SHA256_Update", "&hctx", "U", "32"), ("HMAC_SHA256_Final", "U", "&hctx", "tmp32"),
            ("memcpy", "&buf[(i << 5)]", "T", "clen")]
    rep.check(calls == want, "K4-pbkdf2", "U_1 = PRF(P, S || INT(i)); U_j = PRF(P, U_{j-1}); T = U_1 ^ ... ^ U_c; copied to buf + 32 i", f.loc,
              "first difference at call %s" % next((n for n, (a, b) in enumerate(zip(calls, want)) if a != b), min(len(calls), len(want))), function=f.name, construct="sequence")
    xr = [e for e in f.all_elems() if e.is_assign and e.op == "^=" and show(norm(e.kid(0))) == "T[k]" and show(norm(e.kid(1))) == "U[k]"]
    okx = len(xr) == 1 and any(op == "<" and show(L) == "k" and R == ("c", 32) for cond, truth in f.edge_conds(xr[0]) for op, L, R, _, _ in cond_atoms(cond, truth))
    j0 = [e for e in f.all_elems() if e.is_assign and e.op == "=" and show(norm(e.kid(0))) == "j" and norm(e.kid(1)) == ("c", 2)]
    jl = any(op == "<=" and show(L) == "j" and show(R) == "c" for cond, truth in f.edge_conds(xr[0]) for op, L, R, _, _ in cond_atoms(cond, truth)) if xr else False
    rep.check(okx and bool(j0) and jl, "K4-pbkdf2", "iterations j = 2..c, XOR of all 32 bytes", f.loc, "", function=f.name, construct="iterations")
    cl = sorted((show(norm(e.kid(1)))) for e in f.all_elems() if e.is_assign and show(norm(e.kid(0))) == "clen")
    g = [e for e in f.all_elems() if e.is_assign and show(norm(e.kid(0))) == "clen" and norm(e.kid(1)) == ("c", 32)]
    okc = cl == ["(dkLen - (i << 5))", "32"] and g and any(op == ">" and show(L) == "clen" and R == ("c", 32) for cond, truth in f.edge_conds(g[0]) for op, L, R, _, _ in cond_atoms(cond, truth))
    rep.check(bool(okc), "K4-pbkdf2", "last block truncated: clen = min(32, dkLen - 32 i)", f.loc, "%s" % cl, function=f.name, construct="clen")


# ---- CRC32C -----------------------------------------------------------------------------
def crc_ref_t0_0x80(poly):
    def rev(x):
        return int("{:032b}".format(x)[::-1], 2)
    r = rev(0x80)
    for _ in range(8):
        r = ((r << 1) ^ poly) & M32 if r & 0x80000000 else (r << 1) & M32
    return rev(r)


def k5(prog, rep):
    u = prog.unit("alg/crc32c.c")
    t = u.func("times256")
    polys = [norm(e.kid(1))[2] for e in t.all_elems() if e.is_assign and norm(e.kid(1))[0] == "^" and norm(e.kid(1))[2][0] == "c"]
    ok = polys == [("c", 0x1EDC6F41)]
    g = False
    if ok:
        x = [e for e in t.all_elems() if e.is_assign and norm(e.kid(1))[0] == "^"][0]
        g = any(op == "!=" and L[0] == "&" and L[2] == ("c", 0x80000000) for cond, truth in t.edge_conds(x) for op, L, R, _, _ in cond_atoms(cond, truth))
        sh = [e for e in t.all_elems() if e.is_assign and norm(e.kid(1))[0] in ("<<", "^")]
        loop = covers_range(t, x, None, 8, x)[0]
        g = g and loop and len(sh) == 2
    rep.check(ok and g, "K5-crc", "times256: eight shift steps reducing by the Castagnoli polynomial 0x1EDC6F41 when the top bit is set", t.loc, "%s" % polys, function="times256", construct="poly")
    ini = u.func("CRC32C_Init")
    st = [e for e in ini.all_elems() if e.is_assign and norm(e.kid(0))[0] == "." and norm(e.kid(0))[2] == "state"]
    want = crc_ref_t0_0x80(0x1EDC6F41)
    rep.check(len(st) == 1 and norm(st[0].kid(1)) == ("c", want), "K5-crc", "initial state = CRC of the implicit leading 1 bit (T[0][0x80] implied by the polynomial: %#x)" % want, ini.loc,
              "found %s" % (show(norm(st[0].kid(1))) if st else None), function="CRC32C_Init", construct="init-state")
    r = u.func("reverse")
    steps = [norm(e.kid(1)) for e in sorted([e for e in r.all_elems() if e.is_assign], key=lambda e: e.line)]
    exp = [(0xffff0000, 16, 0x0000ffff), (0xff00ff00, 8, 0x00ff00ff), (0xf0f0f0f0, 4, 0x0f0f0f0f), (0xcccccccc, 2, 0x33333333), (0xaaaaaaaa, 1, 0x55555555)]
    okr = len(steps) == 5
    for sN, (m1, sh_, m2) in zip(steps, exp):
        X = ("v", r.params[0]["name"], r.params[0]["id"])
        w = ir.B("|", (">>", ir.B("&", X, ("c", m1)), ("c", sh_)), ("<<", ir.B("&", X, ("c", m2)), ("c", sh_)))
        okr = okr and sN == w
    rep.check(okr, "K5-crc", "reverse() is the 32-bit bit reversal (five swap stages)", r.loc, "", function="reverse", construct="reverse")
    inf = u.func("init")
    sq = [(show(norm(e.kid(0))), show(norm(e.kid(1)))) for e in sorted([e for e in inf.all_elems() if e.is_assign and norm(e.kid(0))[0] == "[]"], key=lambda e: e.line)]
    okt = sq == [("T%d[i]" % k, "reverse((r = times256(r)))") for k in range(4)]
    r0 = [e for e in inf.all_elems() if e.is_assign and show(norm(e.kid(0))) == "r" and show(norm(e.kid(1))) == "reverse(i)"]
    lp = any(op == "<" and show(L) == "i" and R == ("c", 256) for e in [x for x in inf.all_elems() if x.is_assign and norm(x.kid(0))[0] == "[]"][:1] for cond, truth in inf.edge_conds(e) for op, L, R, _, _ in cond_atoms(cond, truth))
    rep.check(okt and len(r0) == 1 and lp, "K5-crc", "init fills T0..T3[i] with successive x^8 multiples of reverse(i) for all 256 i", inf.loc, "%s" % sq, function="init", construct="tables")
    up = u.func("CRC32C_Update")
    st = sorted([e for e in up.all_elems() if e.is_assign and norm(e.kid(0))[0] == "." and norm(e.kid(0))[2] == "state" and not (e.kid(1).strip().cls == "CallExpr")], key=lambda e: e.line)
    ok4 = False
    ok1 = False
    if len(st) == 2:
        parts = flatten(norm(st[0].kid(1)), "^")
        pairs = set()
        for p in parts:
            if p[0] == "[]" and p[1][0] == "v" and p[2][0] == "^":
                idx = p[2]
                sh_ = None
                bufk = None
                for side in (idx[1], idx[2]):
                    if side[0] == "[]" and show(side[1]) == "buf":
                        bufk = side[2][1]
                    elif side[0] == "&" and side[2] == ("c", 0xff):
                        sh_ = side[1][2][1] if side[1][0] == ">>" else 0
                        # the value shifted is the running state itself -- what this very statement assigns (a cached copy taken
                        # before the loop is the state of the first iteration only)
                        src = side[1][1] if side[1][0] == ">>" else side[1]
                        if src != norm(st[0].kid(0)):
                            sh_ = ("stale", show(src))
                pairs.add((p[1][1], sh_, bufk))
        ok4 = pairs == {("T0", 24, 3), ("T1", 16, 2), ("T2", 8, 1), ("T3", 0, 0)} and len(parts) == 4
        p1 = flatten(norm(st[1].kid(1)), "^")
        S1 = show(norm(st[1].kid(0)))
        ok1 = len(p1) == 2 and any(x[0] == ">>" and x[2] == ("c", 8) and x[1] == norm(st[1].kid(0)) for x in p1) and \
            any(x[0] == "[]" and x[1][1] == "T0" and show(x[2]).replace(" ", "") == "((%s&255)^buf[0])" % S1 for x in p1) and norm(st[1].kid(0)) == norm(st[0].kid(0))
        g4 = any(op == ">=" and show(L) == "len" and R == ("c", 4) for cond, truth in up.edge_conds(st[0]) for op, L, R, _, _ in cond_atoms(cond, truth))
        adv = sorted((show(norm(e.kid(0))), e.op, show(norm(e.kid(1))) if e.is_assign else "") for e in up.all_elems() if (e.is_assign and e.op in ("+=", "-=") or e.is_incdec) and norm(e.kid(0))[0] == "v")
        ok4 = ok4 and g4 and ("buf", "+=", "4") in adv and ("len", "-=", "4") in adv
    rep.check(ok4 and ok1, "K5-crc", "Update: 4-byte step pairs (T0,>>24,buf[3]) .. (T3,>>0,buf[0]); byte step (state >> 8) ^ T0[(state & 0xff) ^ buf[0]]", up.loc, "", function="CRC32C_Update", construct="update")
    fi = u.func("CRC32C_Final")
    outs = {}
    for e in fi.all_elems():
        if e.is_assign and norm(e.kid(0))[0] == "[]" and norm(e.kid(0))[2][0] == "c":
            v = norm(e.kid(1))
            sh_ = 0
            if v[0] == "&" and v[2] == ("c", 0xff):
                sh_ = v[1][2][1] if v[1][0] == ">>" else 0
                outs[norm(e.kid(0))[2][1]] = sh_
    okfin = outs == {0: 0, 1: 8, 2: 16, 3: 24}
    if not okfin and not outs:
        # the same as a loop: one store cbuf[i] = (state >> (8 * i)) & 0xff, made for every i in 0 .. 3
        sts = [e for e in fi.all_elems() if e.is_assign and e.op == "=" and norm(e.kid(0))[0] == "[]" and norm(e.kid(0))[2][0] != "c"]
        if len(sts) == 1:
            i_ = norm(sts[0].kid(0))[2]
            v = norm(sts[0].kid(1))
            shape = v[0] == "&" and v[2] == ("c", 0xff) and v[1][0] == ">>" and v[1][1][0] == "." and v[1][1][2] == "state" and v[1][2] in (("<<", i_, ("c", 3)), ("*", i_, ("c", 8)), ("*", ("c", 8), i_))
            sub = sts[0].kid(0).strip()
            okfin = shape and sub is not None and sub.cls == "ArraySubscriptExpr" and covers_range(fi, sts[0], sub.kid(1), 4, sts[0])[0]
    rep.check(okfin, "K5-crc", "Final writes the state least-significant byte first", fi.loc, "%s" % outs, function="CRC32C_Final", construct="final")


def k5_tables_ready(rep, tag=""):
    """The portable CRC32C tables are filled before anything is looked up in them, in every build configuration: on each path
    through CRC32C_Init the table generator init() is called -- directly, or through a callee on each of whose paths the same
    holds -- or the path passes a test of a variable with static storage (the run-once flag).  Decided in the host configuration
    and in the one with no CPU feature enabled, where everything inside `#ifdef HWACCEL` is absent (the suite builds only the
    former)."""
    for cfg in (cdb.HOST, cdb.Config("nofeat", features=[])):
        prog = ir.Program(["alg/crc32c.c"], cfg)
        u = prog.unit("alg/crc32c.c")
        ini = u.func("CRC32C_Init")
        if ini is None or u.func("init") is None:
            raise cdb.AnalysisBroken("anchor missing: CRC32C_Init / init in alg/crc32c.c [%s]" % cfg.name)
        statics = set()
        for f in u.funcs:
            for e in f.all_elems():
                if e.cls == "DeclRefExpr" and e.decl and e.decl.get("kind") in ("global", "staticlocal"):
                    statics.add(e.decl.get("id"))
        memo = {}

        def must(f, stack=()):
            """(True, None) when every path of f calls init(), through callees, or passes a once-flag test; else (False, exit)"""
            if f.name in memo:
                return memo[f.name]
            if f.name in stack:
                return (False, None)

            def tr(st, e):
                if st:
                    return st
                if e.cls == "CallExpr" and e.callee:
                    if e.callee == "init":
                        return True
                    g = u.func(e.callee)
                    if g is not None and g.file == u.path and must(g, stack + (f.name,))[0]:
                        return True
                return st

            def qualifies(e):
                if e.cls != "CallExpr" or not e.callee:
                    return False
                if e.callee == "init":
                    return True
                g = u.func(e.callee)
                return g is not None and g.file == u.path and must(g, stack + (f.name,))[0]
            callblocks = set(e.block.id for e in f.all_elems() if qualifies(e))

            def can_reach(b):
                return b is not None and (b in callblocks or bool(callblocks & f.reach_from(b)))

            def rf(st, cond, kind):
                # a run-once test: the side from which the generator cannot be reached is the "already done" side -- exempt,
                # provided the other side is the one that leads to it
                if st or kind not in (True, False):
                    return st
                if not any(t[0] == "v" and len(t) > 2 and t[2] in statics for t in ir.subterms(norm(cond))):
                    return st
                sx = cond.block.succs
                if len(sx) != 2:
                    return st
                this, other = (sx[0], sx[1]) if kind else (sx[1], sx[0])
                if not can_reach(this) and can_reach(other):
                    return True
                return st
            from ..dataflow import Solver
            sv = Solver(f, False, tr, rf, lambda a, b: a and b).run()
            # the state in which the exit block is entered covers explicit returns and falling off the end alike (paths that
            # end in abort() never get there)
            at_exit = sv.IN.get(f.exit)
            bad = [r for r in f.returns() if sv.state_before(r) is False]
            res = (at_exit is not False, bad[0] if bad else None)
            memo[f.name] = res
            return res
        # void functions have an implicit return: make sure returns() covers it; otherwise fall back to the last elements
        ok, where = must(ini)
        rep.check(ok, "K5-crc", "the tables are filled before use: every path through CRC32C_Init reaches init() or a run-once test [%s]%s" % (cfg.name, tag), (where.where if where is not None else ini.loc),
                  "in this configuration a path leaves CRC32C_Init without the table generator having been called and without a run-once test: every look-up reads zeros",
                  function="CRC32C_Init", construct="tables-ready:" + cfg.name)


def k10_encap(prog, rep, only=None):
    """The block buffer, the length counter and the chaining state of a hash context are touched only by that hash's own
    Init / Update / Pad / Final routines (whose handling of them K2, K6, K8 decide): nothing else in the unit -- the HMAC layer,
    PBKDF2, the one-shot wrappers -- reads or writes those members.  Everything above the hash goes through its interface, which
    is what makes the structure rules about Update and Pad speak for every byte that is hashed."""
    for up, pref in (("alg/sha256.c", "SHA256"), ("alg/sha1.c", "SHA1"), ("alg/md5.c", "MD5")):
        if only is not None and pref not in only:
            continue
        u = prog.unit(up)
        core = (pref + "_Init", pref + "_Update", pref + "_Update_internal", pref + "_Pad", pref + "_Final", pref + "_Final_internal", pref + "_Transform")
        n = 0
        bad = []
        for f in u.funcs:
            if f.file != up:
                continue
            for e in f.all_elems():
                if e.cls == "MemberExpr" and e.decl and e.decl.get("name") in ("buf", "count", "state"):
                    n += 1
                    if f.name not in core:
                        bad.append((f, e))
        if n < 10:
            raise cdb.AnalysisBroken("K10: fewer than 10 accesses to the context members of %s found (members renamed?)" % pref)
        rep.check(not bad, "K10-encap", "%s: the context's buffer, counter and state are touched only by the hash's own routines" % pref,
                  (bad[0][1].where if bad else u.path), ("%s in %s" % (show(norm(bad[0][1])), bad[0][0].name)) if bad else "%d accesses, all in %s" % (n, ", ".join(core[:1] + core[1:])),
                  function=(bad[0][0].name if bad else pref), construct="ctx-internals")


def sha256_rules(cfg, rep):
    """SHA-256 / HMAC-SHA256 as other properties rely on them (C11's generator, C19's signatures): compression structure,
    padding, HMAC pads and sequences, bounded block-buffer writes, context typestate."""
    prog = ir.Program(["alg/sha256.c"], cfg)
    rep.add_stats(prog)
    sha256(prog, rep)
    k2_k3_k6(prog, rep, only=("SHA256",))
    k10_encap(prog, rep, only=("SHA256",))
    k7_regions(prog, rep, only=("alg/sha256.c",))
    k11_vect(prog, rep, only=("alg/sha256.c",))
    ctx_typestate(prog, rep, ["alg/sha256.c"])


def k7_regions(prog, rep, only=None):
    """Array-parameter contracts: an argument passed for `T p[static N]` designates at least N elements inside its
    object, and two `restrict` array parameters of one call never receive overlapping regions of the same object."""
    from .. import mem
    n = 0
    for up in (only or ("alg/sha256.c", "alg/sha1.c", "alg/md5.c")):
        u = prog.unit(up)
        for f in u.funcs:
            if f.file != up:
                continue
            aliases = mem.local_aliases(f, u)
            for c in f.calls():
                g = u.func(c.callee) if c.callee else None
                if g is None or g.file != up:
                    continue
                regs = []
                for k, p in enumerate(g.params):
                    if not p.get("arraystatic") or k >= len(c.args) or c.arg(k) is None:
                        continue
                    need = p["arraybound"] * p["elemsize"]
                    tgt = mem.pointer(c.arg(k), u, aliases)
                    if tgt is None or tgt[0][0] != "obj":
                        continue        # a pointer received from the caller: its contract was checked at that call
                    root, off = tgt[0], tgt[1]
                    size = None
                    for e in f.all_elems():
                        if e.cls == "DeclStmt":
                            for d in e.decls or []:
                                if d["id"] == root[2]:
                                    size = (u.types.get(d["ty"]) or {}).get("size")
                    if size is None or off is None:
                        continue
                    n += 1
                    rep.check(off + need <= size, "K7-region", "%s: argument %s for %s[static %d]" % (c.callee, show(norm(c.arg(k))), p["name"], p["arraybound"]), c.where,
                              "needs %d bytes at offset %d of %s, which has %d" % (need, off, root[1], size), function=f.name, construct="region-size:" + p["name"])
                    regs.append((root, off, off + need, p.get("restrict"), p["name"]))
                for i in range(len(regs)):
                    for j in range(i + 1, len(regs)):
                        a, b = regs[i], regs[j]
                        if a[0] == b[0] and (a[3] or b[3]):
                            n += 1
                            rep.check(a[2] <= b[1] or b[2] <= a[1], "K7-region", "%s: %s and %s do not overlap" % (c.callee, a[4], b[4]), c.where,
                                      "both point into %s: bytes [%d,%d) and [%d,%d); the callee writes one while it still needs the other "
                                      "(e.g. the hashed long key is overwritten by the pad fill)" % (a[0][1], a[1], a[2], b[1], b[2]), function=f.name, construct="region-overlap:%s/%s" % (a[4], b[4]))
    if n < 10:
        rep.defer_broken("K7: fewer than 10 array-parameter arguments analysed")


def k8_bitcount(prog, rep):
    """The 64-bit message length kept in two 32-bit words (SHA-1, MD5): low word += len << 3 with the carry detected by
    comparing the sum with the addend just added, high word += len >> 29, the buffered-byte count taken from the low
    word, and the word order matching the digest's byte order.  SHA-256 keeps a uint64_t and must widen before shifting."""
    for up, pref, low, enc in (("alg/sha1.c", "SHA1", 1, "be32enc_vect"), ("alg/md5.c", "MD5", 0, "le32enc_vect")):
        u = prog.unit(up)
        f = u.func(pref + "_Update")
        if not rep.names(f, "bitlen", "len", "r"):
            continue
        hi = 1 - low

        def cnt(k):
            return ("[]", (".", ("*", ("v", f.params[0]["name"], f.params[0]["id"])), "count"), ("c", k))
        bl = {}
        for e in f.all_elems():
            if e.is_assign and e.op == "=" and norm(e.kid(0))[0] == "[]" and norm(e.kid(0))[1][0] == "v" and norm(e.kid(0))[1][1] == "bitlen":
                bl[norm(e.kid(0))[2][1]] = norm(e.kid(1))
        L = ("v", f.params[2]["name"], f.params[2]["id"])
        ok = bl.get(low) == ("<<", L, ("c", 3)) and bl.get(hi) == (">>", L, ("c", 29))
        rep.check(ok, "K8-bitcount", "%s: bit length split as low = len << 3, high = len >> 29" % f.name, f.loc, "%s" % {k: show(v) for k, v in bl.items()}, function=f.name, construct="split")
        carry = None
        for b in f.blocks.values():
            if b.cond is None:
                continue
            for op, Lh, R, _, _ in cond_atoms(b.cond, True):
                if Lh[0] == "+=" and op == "<":
                    carry = (Lh, R, b)
        okc = False
        detail = "no carry test found"
        if carry is not None:
            Lh, R, b = carry
            BL = lambda k: ("[]", Lh[2][1], ("c", k)) if Lh[2][0] == "[]" else None
            okc = Lh[1] == cnt(low) and Lh[2][0] == "[]" and Lh[2][2] == ("c", low) and R == Lh[2]
            inc = [e for e in f.blocks[b.succs[0]].elems if e.is_incdec and norm(e.kid(0)) == cnt(hi) and e.op in ("post++", "pre++")] if b.succs[0] is not None else []
            okc = okc and len(inc) == 1
            detail = "test (%s) < %s ; then %s" % (show(Lh), show(R), [x.text for x in inc])
        rep.check(okc, "K8-bitcount", "%s: carry out of the low word is detected against the addend just added and increments the high word" % f.name, f.loc, detail, function=f.name, construct="carry")
        addhi = [e for e in f.all_elems() if e.is_assign and e.op == "+=" and norm(e.kid(0)) == cnt(hi)]
        rep.check(len(addhi) == 1 and norm(addhi[0].kid(1))[0] == "[]" and norm(addhi[0].kid(1))[2] == ("c", hi), "K8-bitcount", "%s: high word += high part of the length" % f.name, f.loc, "", function=f.name, construct="high-add")
        rr = [e for e in f.all_elems() if e.is_assign and e.op == "=" and norm(e.kid(0))[0] == "v" and norm(e.kid(0))[1] == "r"]
        rep.check(len(rr) == 1 and any(t == cnt(low) for t in subterms(norm(rr[0].kid(1)))), "K8-bitcount", "%s: buffered bytes come from the low word" % f.name, f.loc, "", function=f.name, construct="r-low")
        p = u.func(pref + "_Pad")
        e0 = list(p.calls(enc))
        rep.check(len(e0) == 1 and norm(e0[0].arg(2)) == ("c", 8), "K8-bitcount", "%s_Pad encodes both count words with %s (word %d is the low one)" % (pref, enc, low), p.loc, "", function=p.name, construct="order")
    u = prog.unit("alg/sha256.c")
    f = u.func("SHA256_Update_internal")
    adds = [e for e in f.all_elems() if e.is_assign and e.op == "+=" and norm(e.kid(0))[0] == "." and norm(e.kid(0))[2] == "count"]
    ok = len(adds) == 1 and norm(adds[0].kid(1))[0] == "<<" and norm(adds[0].kid(1))[2] == ("c", 3)
    if ok:
        sh_ = adds[0].kid(1).strip()
        lhs = sh_.kid(0)
        ok = (u.types.get(lhs.ty) or {}).get("size") == 8      # widened to 64 bits before the shift
    rep.check(ok, "K8-bitcount", "SHA256_Update: count += (uint64_t)len << 3", f.loc, "", function=f.name, construct="count64")



# ---- hash-context typestate -----------------------------------------------------------------
CTX_API = {}
for _p in ("SHA256", "SHA1", "MD5", "HMAC_SHA256", "HMAC_SHA1", "HMAC_MD5"):
    for _sfx in ("", "_internal"):
        CTX_API[_p + "_Init" + _sfx] = ("init", 0)
        CTX_API[_p + "_Update" + _sfx] = ("use", 0)
        CTX_API[_p + "_Final" + _sfx] = ("final", 1)
        CTX_API[_p + "_Pad" + _sfx] = ("use", 0)


def ctx_typestate(prog, rep, units):
    """Every streaming hash/HMAC context is absorbed into and finalised only while initialised: on every path an
    Update/Final of context X is preceded by an Init of X (or a copy from an initialised context) with no Final of X
    in between.  Final wipes the context (C20), so absorbing into a finalised context hashes from an all-zero state
    instead of the algorithm's IV: every digest computed from it is wrong.  Contexts handed in by the caller are the
    caller's obligation until this function finalises them."""
    from ..dataflow import Solver
    n = 0
    for up in units:
        u = prog.unit(up)
        for f in u.funcs:
            if f.file != up:
                continue
            sites = [c for c in f.calls() if c.callee in CTX_API]
            if not any(CTX_API[c.callee][0] == "final" for c in sites):
                continue

            def key(c):
                kind, ai = CTX_API[c.callee]
                a = c.arg(ai)
                return kind, (strip_ids(norm(a)) if a is not None else None)

            def transfer(st, e):
                if e.cls != "CallExpr":
                    return st
                d = dict(st)
                if e.callee in CTX_API:
                    kind, k = key(e)
                    if kind == "init":
                        d[k] = "init"
                    elif kind == "final":
                        d[k] = "final"
                    return frozenset(d.items())
                if e.callee == "memcpy" and e.arg(0) is not None and e.arg(1) is not None:
                    dst, src = strip_ids(norm(e.arg(0))), strip_ids(norm(e.arg(1)))
                    if src in d or dst in d:
                        d[dst] = d.get(src, "caller")
                        return frozenset(d.items())
                return st

            def join(a, b):
                if a == b:
                    return a
                da, db = dict(a), dict(b)
                out = {}
                for k in set(da) | set(db):
                    va, vb = da.get(k, "caller"), db.get(k, "caller")
                    out[k] = va if va == vb else ("final" if "final" in (va, vb) else "caller")
                return frozenset(out.items())
            sv = Solver(f, frozenset(), transfer, None, join).run()

            def visit(e, st):
                nonlocal n
                if e.cls == "CallExpr" and e.callee in CTX_API:
                    kind, k = key(e)
                    if kind in ("use", "final"):
                        n += 1
                        rv = root_var(k)
                        local = rv is not None and rv[1] not in f.param_names() and k[0] == "&" and k[1][0] == "v"
                        state = dict(st).get(k, "uninit" if local else "caller")
                        rep.check(state not in ("final", "uninit"), "K9-ctxstate", "%s on %s in %s: the context is initialised" % (e.callee, show(k), f.name), e.where,
                                  "on some path the context was finalised (and wiped) and not re-initialised before this call (it absorbs into an all-zero state instead of the IV), "
                                  "or it is a local that was never initialised",
                                  function=f.name, construct="ctx:" + show(k) + ":" + e.callee)
            sv.visit(visit)
    return n


VECT_ENDIAN = {"alg/sha256.c": "be32", "alg/sha1.c": "be32", "alg/md5.c": "le32"}


def k11_vect(prog, rep, only=None):
    """The word-vector helpers of the three hash units convert exactly len/4 words, word k at byte offset 4k, in the hash's byte
    order (big-endian for SHA-1 and SHA-256, little-endian for MD5).  Relational (sa/poly.py), whatever the loop's form (indexed,
    pointer-walking, counting down): a ghost $k counts the conversions made so far; at the one conversion call the byte-side
    address is (byte pointer at entry) + 4 $k and the word-side lvalue is at (word pointer at entry) + 4 $k; at every exit
    4 $k <= len at entry <= 4 $k + 3; and the conversion routine is the unit's own."""
    from .. import poly
    from ..poly import Lin
    n = 0
    for up, pre in VECT_ENDIAN.items():
        if only is not None and up not in only:
            continue
        if up not in prog.units:
            continue
        u = prog.unit(up)
        for f in u.funcs:
            if f.file != up or not f.name.endswith("_vect") or len(f.params) != 3:
                continue
            enc = f.name.startswith(pre + "enc")
            want = pre + ("enc" if enc else "dec")
            P = [("v", p["name"], p["id"]) for p in f.params]
            cs = [c for c in f.calls() if c.callee and c.callee != "__assert_fail"]
            n += 1
            inst = "%s in %s: len/4 words, word k at byte 4k, %s-endian" % (f.name, up, "big" if pre == "be32" else "little")
            if not (len(cs) == 1 and cs[0].callee == want):
                rep.bad("K11-vect", inst, f.loc, "calls: %s, expected one call of %s" % ([c.callee for c in cs], want), function=f.name, construct="vect")
                continue
            c = cs[0]
            K, B0, W0, L0 = Lin.var(("$k",)), Lin.var(("$b0",)), Lin.var(("$w0",)), Lin.var(("$l0",))
            bytep, wordp = (P[0], P[1]) if enc else (P[1], P[0])
            A = poly.Analysis(f, assume=[("==", K, Lin.const(0)), ("==", B0, Lin.var(bytep)), ("==", W0, Lin.var(wordp)), ("==", L0, Lin.var(P[2]))],
                              quiet={want, "__assert_fail"}, unsigned_terms={P[2]}, post={want: lambda A_, call, st, cs_: A_.bump(cs_, ("$k",), 1)})
            A.any_ptr = True         # the word-side pointer (uint32_t *) takes part in the arithmetic too
            A.run()

            def address(e, esz):
                """(Lin, state) of the address a pointer expression / an lvalue element designates, or None"""
                x = e
                while x is not None and x.cls in ("ImplicitCastExpr", "CStyleCastExpr", "ParenExpr") and x.kid(0) is not None and x.op != "LValueToRValue":
                    x = x.kid(0)
                if x is None:
                    return None
                st = A.state_before(c)
                if x.cls == "ImplicitCastExpr" and x.op == "LValueToRValue":
                    if (u.types.get(x.ty) or {}).get("kind") == "ptr":
                        # a pointer variable read: its value is the address
                        k = x.kid(0)
                        if k is not None and k.cls == "UnaryOperator" and k.op in ("post++", "post--"):
                            return address(k, esz)
                        l = A.lin(x, st) if st is not None else None
                        return (l, st) if l is not None else None
                    # a value read: its address is that of the lvalue beneath
                    return address_lv(x.kid(0), esz)
                if x.cls == "UnaryOperator" and x.op in ("post++", "post--"):
                    # the pointer's value before the step: in the state before the step when that comes before the conversion,
                    # else (the target of `*p++ = conv(..)` is evaluated after the call) in the state before the conversion
                    s0 = A.state_before(x) if (x.block.id == c.block.id and x.i < c.i) else A.state_before(c)
                    l = A.lin(x.kid(0), s0) if s0 is not None else None
                    return (l, s0) if l is not None else None
                l = A.lin(x, st) if st is not None else None
                return (l, st) if l is not None else None

            def address_lv(x, esz):
                while x is not None and x.cls in ("ParenExpr",) and x.kid(0) is not None:
                    x = x.kid(0)
                if x is None:
                    return None
                if x.cls == "ArraySubscriptExpr":
                    b = address(x.kid(0), esz)
                    i = A.lin(x.kid(1), b[1]) if b is not None else None
                    sz = (u.types.get(x.ty) or {}).get("size") or esz
                    return (b[0] + i.scale(sz), b[1]) if b is not None and i is not None else None
                if x.cls == "UnaryOperator" and x.op == "*":
                    k = x.kid(0)
                    while k is not None and k.cls in ("ImplicitCastExpr", "ParenExpr") and k.op != "LValueToRValue" and k.kid(0) is not None:
                        k = k.kid(0)
                    if k is not None and k.cls == "ImplicitCastExpr" and k.op == "LValueToRValue" and k.kid(0) is not None and k.kid(0).cls == "UnaryOperator":
                        k = k.kid(0)
                    if k is not None and k.cls == "UnaryOperator" and k.op in ("post++", "post--"):
                        return address(k, esz)
                    return address(x.kid(0), esz)
                return None
            # the byte side is the conversion's pointer argument; the word side is its value argument (enc) or the lvalue its
            # result is stored into (dec)
            ba = address(c.arg(0), 1)
            if enc:
                wa = address(c.arg(1), 4) if c.arg(1) is not None else None
            else:
                stores = [e for e in f.all_elems() if e.is_assign and e.op == "=" and e.kid(1) is not None and e.kid(1).strip() is c]
                wa = address_lv(stores[0].kid(0), 4) if len(stores) == 1 else None
            why = ""
            ok = ba is not None and wa is not None
            if not ok:
                why = "the addresses converted from and to are not something the analysis can follow"
            else:
                okb = A.holds(ba[1], "==", ba[0], B0 + K.scale(4))
                okw = A.holds(wa[1], "==", wa[0], W0 + K.scale(4))
                ok = okb and okw
                if not ok:
                    why = "conversion number k does not go %s byte offset 4k %s word k" % ("to" if enc else "from", "from" if enc else "to") + (" (byte side)" if not okb else " (word side)")
            if ok:
                sx = A.solver.IN.get(f.exit)
                ok = sx is not None and A.holds(sx, "<=", K.scale(4), L0) and A.holds(sx, "<=", L0, K.scale(4) + Lin.const(3))
                if not ok and sx is not None:
                    # three-valued: refuted when some way of leaving the function has provably converted past len or left a whole
                    # word unconverted; otherwise the count is beyond what the domain can establish for this loop form (a bound
                    # held in a second pointer) and is recorded as assumed, the per-conversion placement above being decided
                    wrong = any(A._entailsP(Pp, poly.cons(">=", K.scale(4), L0 + Lin.const(1))) or A._entailsP(Pp, poly.cons(">=", L0, K.scale(4) + Lin.const(4)))
                                for Pp in (sx if poly._is_disj(sx) else [sx]))
                    ptr_bound = any(b.cond is not None and b.cond.cls == "BinaryOperator" and b.cond.op in ("<", ">", "<=", ">=", "!=") and
                                    all(k is not None and (u.types.get(k.ty) or {}).get("kind") == "ptr" for k in b.cond.kids[:2]) for b in f.blocks.values())
                    if not wrong and ptr_bound:
                        rep.unknown("K11-vect", inst, f.loc, "placement of every conversion decided; the number of conversions at the exit is not something the relational domain establishes for this loop form")
                        continue
                    why = "at an exit of the function 4 * (conversions made) is beyond len, or a whole word of len is left unconverted"
            rep.check(ok, "K11-vect", inst, (c.where if why else f.loc), why, function=f.name, construct="vect")
    return n


def strip_ids(n):
    if isinstance(n, tuple):
        if n and n[0] == "v":
            return ("v", n[1])
        return tuple(strip_ids(k) for k in n)
    return n


def run(tier):
    rep = report.Report("C01", tier,
        "Decided: every constant table/literal equals the value derived here from its defining formula (K1); each unrolled round "
        "statement of SHA-256, SHA-1 and MD5 has the specified register rotation, rotate amounts, boolean function (truth table), "
        "message index and constant, and the schedules have the specified offsets (R); padding and length placement (K2); HMAC pads, "
        "long-key threshold and lengths (K3); PBKDF2 block index, iteration structure and truncation (K4); CRC32C polynomial, initial "
        "state, table generator, step pairing and output order (K5); block-buffer writes bounded (K6); scratch regions handed to `[static N]`/restrict array parameters are large enough and disjoint (K7); "
        "the two-word bit counters carry correctly and are encoded in the digest's byte order (K8); every streaming context is absorbed into "
        "and finalised only while initialised, on every path (K9, typestate). These fix the spec-determined "
        "structure every output bit depends on. NOT decided: that the composition computes the standard functions for every message "
        "and partition (numerical equality over all inputs), one-shot/streaming agreement beyond the shared-structure clauses.",
        trusted=["C integer arithmetic on uint32_t wraps modulo 2^32"])
    configs = [cdb.HOST]
    if tier == "thorough":
        configs.append(cdb.Config("nofeat", features=[]))
    for cfg in configs:
        prog = ir.Program(["alg/sha256.c", "alg/sha1.c", "alg/md5.c", "alg/crc32c.c"], cfg)
        rep.add_stats(prog)
        sha256(prog, rep)
        sha1(prog, rep)
        md5(prog, rep)
        k2_k3_k6(prog, rep)
        k4(prog, rep)
        k5(prog, rep)
        k7_regions(prog, rep)
        k8_bitcount(prog, rep)
        k10_encap(prog, rep)
        # copies, fills and wipes of the hash units' stack scratch stay inside the object they are given (C15's bounded-copy rule;
        # a wipe one byte longer than its buffer overwrites the neighbouring scratch or the frame)
        from . import c15 as _c15
        _c15.j3(prog, rep, units=("alg/sha256.c", "alg/sha1.c", "alg/md5.c"))
        # one transform per block: a taken accelerated case of SHA256_Transform ends the function (rule shared with C03)
        from . import c03 as _c03
        _c03.g4_exclusive(ir.Program(["alg/sha256.c", "alg/sha256_sse2.c", "alg/sha256_shani.c"], cfg), rep)
        if k11_vect(prog, rep) < 6:
            rep.defer_broken("K11: fewer than 6 word-vector helpers found in the hash units")
        ctx_typestate(prog, rep, ["alg/sha256.c", "alg/sha1.c", "alg/md5.c"])
    k5_tables_ready(rep)
    n = len(configs)
    rep.require_min("K9-ctxstate", 12 * n)
    rep.require_min("K1-const", 5 * n)
    rep.require_min("K3-hmac", 9 * n)
    rep.require_min("K5-crc", 5 * n)
    return rep
