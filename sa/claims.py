"""Registry of claimed properties: the source of MANIFEST.json (tools/gen_manifest.py)."""

CLAIMS = {
 "C20": {
  "text": "Static typestate/interval analysis over every path of the anchored functions: finalised hash/HMAC contexts are "
          "covered byte-for-byte by wipes at every exit; expanded AES keys and AES-CTR streams are wiped in full before free; "
          "every secret-dependent BIGNUM in crypto_dh.c is released by BN_clear_free only; aws_readkeys wipes the secret before "
          "each free; the wipe primitive is a volatile call to volatile stores and survives clang -O2 (LLVM IR lane). The property "
          "is structural, so for the listed objects it is decided in full on all paths, which no test of sampled call sequences can do.",
  "note": "Trusted: clang 14 front end/CFG, OpenSSL BN_clear_free and AES_set_encrypt_key semantics, no aliasing of the tracked "
          "objects through other pointers. Stack copies are outside the property (not returned to the allocator).",
  "technique": "static analysis: field-sensitive must-wipe dataflow on clang CFG + taint closure + -O2 LLVM IR survival check",
  "design_ref": "DESIGN.md section 4, C20",
 },
}

NOT_APPLICABLE = {
 "C18": "option-grammar acceptance is a function of argv string values; no shape-level necessary condition exists whose breakage "
        "is not also triggered by behaviour-preserving edits (DESIGN.md section 6)",
}

PENDING_REASON = "check not built yet in this revision of the framework (static rule designed in DESIGN.md section 4); not claimed until it runs"
